"""C11 — optimised solvers match their reference implementations and resume exactly.

Tie to /repo (correspondence): the solver state machines of lean/OdlModel/Model/Solvers.lean
are instantiated (lean/Drivers/C11.lean) with the exact matrices of the real operator and
its adjoint and with the closed-form proximal / gradient maps of the functionals drawn, and
the WHOLE sequence of iterates recorded through the real solver's callback (x.copy() per
call) is compared with the model's, exactly when all values are short dyadic rationals.

Oracle (independent of the model, real code only): optimised vs *_simple on fresh random
problems including L1, group-L1, indicator, KL, Huber terms; a run of n+m iterations vs n
then m (PDHG with x_relax / y passed back); one callback per iteration, the k-th with the
k-th iterate.
"""
import random
import sys
from fractions import Fraction

import numpy as np

from vf import core
from vf.core import fs, fl, fmat
from harness import solverlib as sl
from harness.solverlib import flat, unflat, size_of, Recorder, guarded

if hasattr(sys, 'set_int_max_str_digits'):
    sys.set_int_max_str_digits(0)   # exact rationals of long runs have many digits

RULE = ('one case = one (solver, problem) pair: random operator from the zoo (integer matrix, '
        'weighted matrix, partial derivative / gradient on a 1-d grid, scaling, identity) x '
        'functionals from the modelled zoo (zero, L1, translated/scaled L1, squared L2 and its '
        'translate, box, non-negativity) or, on the oracle streams, the opaque zoo (L2, Huber, '
        'KL, group-L1, separable sums, balls) x dyadic or general step sizes x start point x '
        'iteration count. Non-trivial when the iterate sequence is not constant; distinct = '
        'distinct (stream, solver, operator kind, functional kinds, step class, n) among those.')
TRUSTED = ['closed-form proximal/gradient maps (PSpec) written in tools/harness/solverlib.py for '
           'the modelled functional zoo (each is itself compared with the real proximal through '
           'the iterate sequences)',
           'NumPy/BLAS entry-wise arithmetic and lincomb (C01) as exact entry-wise maps']
ASSUMPTIONS = ['floating-point rounding is outside the model: comparison is exact when the inputs are '
               'short dyadic rationals (see solverlib.line_exact), else relative 1e-9 per iterate',
               'operators, proximals and gradients are parameters of the model: aliasing '
               'behaviour inside them (out is x) is C10, their values are C07/C05',
               'BY CONSTRUCTION: the resume_* theorems and callback_once hold because the state '
               'machines have no hidden state / because the driver loop runLog appends once per step; '
               'that the CODE has no hidden state (objects surviving between calls, rebinding instead '
               'of in-place update) rests on the split-run oracle (all splits n = a + b for n <= 8) and '
               'on the tie of resumed and half-resumed calls',
               'adupdates_refines is conditional on hoisted proximal = per-iteration proximal '
               '(hypothesis hprox; discharged on the code only by the optimised-vs-simple oracle)',
               'line searches with memory (estimate_step=True with a fresh object) are '
               'excluded from the resume claim; weighted spaces only with equal constant weights '
               'on both sides and cell volumes of 1-d grids; no complex spaces',
               'ROUND 4: resumption of paths with MORE state than the iterate is claimed only with that '
               'state handed back: callable lam with the schedule shifted by n (stream proxgrad_lam), '
               'accelerated PDHG with x_relax, y and the recomputed tau_n, sigma_n (stream pdhg_acc; '
               'irrational square roots: compared with the general-stream tolerance, exact only in the '
               'first iteration of the cases with 1 + 2*gamma*step = 4), kaczmarz(random=True) with '
               'numpy\'s global generator left running between the calls (stream kaczmarz_random). '
               'conjugate_gradient(_normal) and admm_linearized called again with the returned x are '
               'RESTARTS (direction p / z, u reset), modelled as such (stream cg_restart), not resumptions; '
               'cg_* theorems need a linear operator',
               'ROUND 5: every anchored solver function is entered by a stratum (docs/covmap/C11.md). dca / '
               'prox_dca: the split-run oracle in full, model = instances of ProxGradP.step. '
               'accelerated_proximal_gradient, douglas_rachford_pd, gauss_newton, adam keep state in locals: '
               'a second call is a RESTART and is checked as such (callback, first-step, niter=0, repeatability '
               'oracles; models accRunSplit / DrP.runSplit), excluded from the resume claim. Default steps '
               '(pdhg, landweber, douglas_rachford_pd without tau/sigma/omega) use a RANDOM power-method start: '
               'compared with the explicit-step run under the same numpy seed only. Refused calls (argument '
               'validation) must raise TypeError/ValueError before touching x',
               'proximal factories of the accelerated PDHG stream are written a second time in Lean '
               '(FSpec in Drivers/C11.lean); the gamma=none cases of that stream compare them with the '
               'real proximals and, through the constant machine, with the PSpec closed forms']


# ---------------------------------------------------------------------------
# helpers

def wire_op(op):
    A = sl.exact_matrix(op)
    At = sl.exact_matrix(op.adjoint)
    return A, At


def steps_class(exact):
    return 'pow2' if exact else 'general'


class Case(object):
    """One correspondence case: a driver line and what the real code produced."""

    def __init__(self, desc, sig, line, impl_status, impl_log, extra=None):
        self.desc, self.sig, self.line = desc, sig, line
        self.impl_status, self.impl_log, self.extra = impl_status, impl_log, extra or {}
        # sensitivity envelope of the non-exact comparison (see solverlib.perturbation)
        self.env, self.env_extra, self.env_ok = None, {}, True


def nontrivial(seq, x0):
    return any(np.any(np.asarray(v) != np.asarray(x0)) for v in seq)


# ---------------------------------------------------------------------------
# ADMM

def gen_admm(r, exact, opaque=False):
    import odl
    kind, L = sl.operator_zoo(r)
    if opaque:
        fk, f = sl.opaque_functional_zoo(r, L.domain)
        gk, g = sl.opaque_functional_zoo(r, L.range)
        F = G = None
    else:
        F = sl.functional_zoo(r, L.domain, exact=exact)
        G = sl.functional_zoo(r, L.range, exact=exact)
        fk, f, gk, g = F.name, F.f, G.name, G.f
    tau, sigma = sl.pick_step(r, exact), sl.pick_step(r, exact)
    x0 = sl.dy_vec(r, size_of(L.domain), 16, 8)
    if fk == 'kl' or gk == 'kl':
        x0 = np.abs(x0) + 0.5
    return dict(solver='admm', opkind=kind, L=L, f=f, g=g, F=F, G=G, fk=fk, gk=gk, tau=tau,
                sigma=sigma, x0=x0)


def impl_admm(p, variant, n, distinct=False):
    import odl
    from odl.solvers.nonsmooth.admm import admm_linearized, admm_linearized_simple
    fn = admm_linearized if variant == 'opt' else admm_linearized_simple
    x = (sl.unflat_distinct if distinct else unflat)(p['L'].domain, p['x0'])
    rec = Recorder()
    st, _ = guarded(fn, x, p['f'], p['g'], p['L'], p['tau'], p['sigma'], n, callback=rec)
    return st, rec.iterates, flat(x).copy()


def desc_of(p, **kw):
    d = {k: (v if isinstance(v, (int, float, str, bool)) else str(v)) for k, v in p.items()
         if k in ('solver', 'opkind', 'fk', 'gk', 'hk', 'tau', 'sigma', 'gamma', 'mu', 'theta',
                  'omega', 'lam', 'stepsize', 'cseed', 'exact', 'opaque', 'm')}
    d['x0'] = [float(v) for v in p['x0']]
    d.update(kw)
    return d


def check_callback(ctx, p, n, log, final, what):
    """callbacks observe exactly one iterate per iteration, the last being the result."""
    if len(log) != n:
        ctx.violation('{} callback count opkind={} f={} g={}'.format(
            what, p.get('opkind'), p.get('fk'), p.get('gk')),
            'callback called {} times in {} iterations'.format(len(log), n), desc_of(p, n=n))
        return False
    if n and np.any(log[-1] != final):
        ctx.violation('{} last callback iterate != result opkind={} f={} g={}'.format(
            what, p.get('opkind'), p.get('fk'), p.get('gk')),
            'last callback saw {} but x is {}'.format(log[-1], final), desc_of(p, n=n))
        return False
    return True


def start_distinct(ctx, p, n, fam, what, log, run):
    """the start element(s) live in EQUAL BUT SEPARATELY BUILT spaces: same iterates, no exception"""
    st, log_d = run()
    ctx.hit('start/equal-distinct-space/' + fam)
    d = st if st != 'ok' else sl.arrays_differ(log_d, log)
    if d:
        viol(ctx, '{} started from an element of an equal but separately built space opkind={} f={} '
             'g={}'.format(what, p.get('opkind'), p.get('fk'), p.get('gk')), str(d)[:300], p, n=n)


def family_admm(ctx, r, exact, n, opaque=False):
    p = gen_admm(r, exact, opaque)
    p.update(cseed=r.cseed, exact=exact, opaque=opaque)
    st_o, log_o, x_o = impl_admm(p, 'opt', n)
    st_s, log_s, x_s = impl_admm(p, 'simple', n)
    key = 'admm_linearized vs admm_linearized_simple opkind={} f={} g={}'.format(
        p['opkind'], p['fk'], p['gk'])
    ok = True
    if st_o.split(':')[:2] != st_s.split(':')[:2]:
        ctx.violation(key, 'outcomes differ: optimised {} / simple {}'.format(st_o, st_s),
                      desc_of(p, n=n))
        ok = False
    elif st_o == 'ok':
        d = sl.arrays_differ(log_o, log_s)
        if d:
            ctx.violation(key, 'iterates differ: ' + d, desc_of(p, n=n))
            ok = False
        ok = check_callback(ctx, p, n, log_o, x_o, 'admm_linearized') and ok
        if n >= 2:
            # z and u are locals of admm_linearized: a second call restarts them at zero
            # (C11.admm_resume_needs_state); recorded, not a violation
            q = dict(p, x0=impl_admm(p, 'opt', n // 2)[2])
            st_r, _, x_r = impl_admm(q, 'opt', n - n // 2)
            ctx.hit('excluded/admm_linearized n then m (z, u restart at zero) vs n+m: ' +
                    ('differs' if st_r != 'ok' or sl.arrays_differ([x_r], [x_o]) else 'same'))
        start_distinct(ctx, p, n, 'admm', 'admm_linearized', log_o, lambda: impl_admm(p, 'opt', n, True)[:2])
    else:
        ctx.err(st_o.split(':')[1])
    sig = ('opaque' if opaque else 'model', 'admm', p['opkind'], p['fk'], p['gk'],
           steps_class(exact), n)
    nt = st_o == 'ok' and nontrivial(log_o, p['x0'])
    if opaque:
        ctx.case(sig if nt else None)
        ctx.hit('oracle/admm')
        return []
    A, At = wire_op(p['L'])
    cases = []
    for variant, st, log in (('opt', st_o, log_o), ('simple', st_s, log_s)):
        line = 'admm variant={} A={} At={} pf={} pg={} tau={} sigma={} x0={} n={}'.format(
            variant, fmat(A), fmat(At), p['F'].prox(p['tau']), p['G'].prox(p['sigma']),
            fs(p['tau']), fs(p['sigma']), fl(p['x0']), n)
        cases.append(Case(desc_of(p, n=n, variant=variant), sig + (variant,) if nt else None,
                          line, st, log))
        ctx.hit('model/admm/' + variant)
    return cases


def err_kind(st):
    return st.split(':')[1] if st.startswith('err:') else st


def viol(ctx, key, what, p, **kw):
    ctx.violation(key, what, desc_of(p, **kw))


def split_n(r, n):
    a = r.randint(0, n)
    return a, n - a


# ---------------------------------------------------------------------------
# alternating dual updates

def gen_adupdates(r, exact, opaque=False):
    import odl
    d = r.randint(1, 3)
    dom = odl.rn(d)
    m = r.randint(1, 3)
    Ls, Gs, gks = [], [], []
    for i in range(m):
        k = r.choice(['matrix', 'matrix', 'identity', 'scaled'])
        if k == 'matrix':
            Li = odl.MatrixOperator(sl.small_int_matrix(r, r.randint(1, 3), d))
        elif k == 'identity':
            Li = odl.IdentityOperator(dom)
        else:
            Li = odl.ScalingOperator(dom, r.choice([-2.0, 0.5, 2.0]))
        Ls.append(Li)
        if opaque:
            gk, g = sl.opaque_functional_zoo(r, Li.range)
            Gs.append(g)
            gks.append(gk)
        else:
            G = sl.functional_zoo(r, Li.range, exact=exact)
            Gs.append(G)
            gks.append(G.name)
    stepsize = sl.pick_step(r, exact)
    inner = [sl.pick_step(r, exact) for _ in range(m)]
    rand_order, npseed = False, 0
    if not opaque:
        # pointwise inner step sizes (element / array / list) for the functionals whose
        # conjugate proximal documents them, together with stepsize != 1
        for i in range(m):
            if gks[i] in ('l1', 'l2sq') and r.random() < 0.6:
                arr = np.abs(sl.dy_vec(r, size_of(Ls[i].range), 8, 8)) + 0.125
                inner[i] = r.choice([lambda a: Ls[i].range.element(a), np.array, list])(arr)
        if any(not np.isscalar(v) for v in inner):
            stepsize = r.choice([0.5, 2.0, 1.0, 0.25])
    if opaque:
        # implementation-vs-implementation only: pointwise inner step sizes (documented for
        # L1Norm / L2NormSquared) and random order with numpy seeded identically for both
        for i in range(m):
            if gks[i] in ('l1', 'l2sq') and r.random() < 0.5:
                inner[i] = Ls[i].range.element(np.abs(sl.dy_vec(r, size_of(Ls[i].range), 8, 8)) + 0.125)
        rand_order = r.random() < 0.4
        npseed = r.randint(0, 2 ** 31 - 1)
    x0 = sl.dy_vec(r, d, 16, 8)
    return dict(solver='adupdates', opkind='x'.join(str(size_of(L.range)) for L in Ls), Ls=Ls,
                Gs=Gs, gk='+'.join(gks), fk='random' if rand_order else '-', m=m, stepsize=stepsize,
                inner=inner, x0=x0, cb=r.choice(['inner', 'outer']), rand_order=rand_order,
                npseed=npseed)


def impl_adupdates(p, variant, n, cb='outer', distinct=False):
    from odl.solvers.nonsmooth.alternating_dual_updates import adupdates, adupdates_simple
    x = (sl.unflat_distinct if distinct else unflat)(p['Ls'][0].domain, p['x0'])
    g = [G if not hasattr(G, 'f') else G.f for G in p['Gs']]
    rec = Recorder()
    np.random.seed(p.get('npseed', 0))
    ro = bool(p.get('rand_order'))
    if variant == 'opt':
        st, _ = guarded(adupdates, x, g, p['Ls'], p['stepsize'], list(p['inner']), n,
                        callback=rec, callback_loop=cb, random=ro)
    else:
        st, _ = guarded(adupdates_simple, x, g, p['Ls'], p['stepsize'], list(p['inner']), n,
                        random=ro)
    return st, rec.iterates, flat(x).copy()


def family_adupdates(ctx, r, exact, n, opaque=False):
    p = gen_adupdates(r, exact, opaque)
    p.update(cseed=r.cseed, exact=exact, opaque=opaque)
    n = min(n, 8 if ctx.quick else 20)
    key = 'adupdates vs adupdates_simple ranges={} g={}'.format(p['opkind'], p['gk'])
    st_o, log_o, x_o = impl_adupdates(p, 'opt', n, 'outer')
    finals_s = []
    st_s = 'ok'
    for k in range(1, n + 1):
        st_k, _, x_k = impl_adupdates(p, 'simple', k)
        if st_k != 'ok':
            st_s = st_k
            break
        finals_s.append(x_k)
    if err_kind(st_o) != err_kind(st_s):
        viol(ctx, key, 'outcomes differ: optimised {} / simple {}'.format(st_o, st_s), p, n=n)
    elif st_o == 'ok':
        d = sl.arrays_differ(log_o, finals_s)
        if d:
            viol(ctx, key, 'iterate k of the optimised solver vs result of the simple one '
                 'after k iterations: ' + d, p, n=n)
        check_callback(ctx, p, n, log_o, x_o, 'adupdates(outer)')
        start_distinct(ctx, p, n, 'adupdates', 'adupdates', log_o,
                       lambda: impl_adupdates(p, 'opt', n, 'outer', True)[:2])
        st_i, log_i, x_i = impl_adupdates(p, 'opt', n, 'inner')
        if st_i == 'ok':
            if len(log_i) != n * p['m']:
                viol(ctx, 'adupdates(inner) callback count ranges={}'.format(p['opkind']),
                     'callback called {} times in {} iterations with {} operators'.format(
                         len(log_i), n, p['m']), p, n=n)
            elif sl.arrays_differ(log_i[p['m'] - 1::p['m']], log_o):
                viol(ctx, 'adupdates inner vs outer callback iterates ranges={}'.format(p['opkind']),
                     'the last inner iterate of each sweep differs from the outer iterate', p, n=n)
    else:
        ctx.err(err_kind(st_o))
    sig = ('opaque' if opaque else 'model', 'adupdates', p['opkind'], p['gk'], steps_class(exact), n,
           ''.join('s' if np.isscalar(v) else 'v' for v in p['inner']), p['fk'])
    ctx.hit('adupdates/inner=' + ('pointwise' if 'v' in sig[-2] else 'scalar'))
    nt = st_o == 'ok' and nontrivial(log_o, p['x0'])
    if opaque:
        ctx.case(sig if nt else None)
        ctx.hit('oracle/adupdates')
        return []
    mats = [wire_op(L) for L in p['Ls']]
    rid = []
    for j, L in enumerate(p['Ls']):
        rid.append(min(i for i in range(p['m']) if p['Ls'][i].range == L.range))
    def cprox_spec(i):
        ss = p['inner'][i]
        if np.isscalar(ss):
            return p['Gs'][i].cprox(p['stepsize'] * ss)
        if p['Gs'][i].name == 'l1':
            return 'ball:1'           # projection onto the unit ball: independent of the step
        sig = [Fraction(float(p['stepsize'])) * Fraction(float(v)) for v in np.asarray(ss)]
        k = len(sig)                  # squared L2: x / (1 + sigma/2) pointwise
        return 'lin:{}:{}'.format(fmat([[1 / (1 + sig[a] / 2) if a == b else 0 for b in range(k)]
                                        for a in range(k)]), fl([0] * k))

    def inner_wire(i):
        ss = p['inner'][i]
        return fs(ss) if np.isscalar(ss) else 'v:' + fl(np.asarray(ss))
    fields = ' '.join('A{0}={1} At{0}={2} p{0}={3} in{0}={4}'.format(
        i, fmat(mats[i][0]), fmat(mats[i][1]), cprox_spec(i), inner_wire(i))
        for i in range(p['m']))
    cases = []
    cb = p['cb']
    st_c, log_c, x_c = (st_o, log_o, x_o) if cb == 'outer' else impl_adupdates(p, 'opt', n, cb)
    base = 'm={} {} stepsize={} rid={} cb={} x0={} n={}'.format(
        p['m'], fields, fs(p['stepsize']), ','.join(map(str, rid)), cb, fl(p['x0']), n)
    cases.append(Case(desc_of(p, n=n, variant='opt', cb=cb), sig + ('opt', cb) if nt else None,
                      'adupdates variant=opt ' + base, st_c, log_c, {'x': x_c}))
    st_s, _, x_s = impl_adupdates(p, 'simple', n)
    cases.append(Case(desc_of(p, n=n, variant='simple'), sig + ('simple',) if nt else None,
                      'adupdates variant=simple ' + base, st_s, None, {'x': x_s}))
    ctx.hit('model/adupdates/' + cb)
    ctx.hit('model/adupdates/simple')
    return cases


# ---------------------------------------------------------------------------
# double-proximal DC

def gen_dpdc(r, exact, opaque=False):
    kind, K = sl.operator_zoo(r)
    if opaque:
        fk, f = sl.opaque_functional_zoo(r, K.domain)
        gk, g = sl.opaque_functional_zoo(r, K.range)
        hk, phi = sl.opaque_functional_zoo(r, K.domain, smooth=True)
        F = G = PHI = None
    else:
        F = sl.functional_zoo(r, K.domain, exact=exact)
        G = sl.functional_zoo(r, K.range, exact=exact)
        PHI = sl.functional_zoo(r, K.domain, smooth=True, exact=exact)
        fk, f, gk, g, hk, phi = F.name, F.f, G.name, G.f, PHI.name, PHI.f
    x0 = sl.dy_vec(r, size_of(K.domain), 16, 8)
    y0 = sl.dy_vec(r, size_of(K.range), 16, 8)
    if 'kl' in (fk, gk):
        x0, y0 = np.abs(x0) + 0.5, np.abs(y0) + 0.5
    return dict(solver='dpdc', opkind=kind, L=K, f=f, g=g, phi=phi, F=F, G=G, PHI=PHI, fk=fk,
                gk=gk, hk=hk, gamma=sl.pick_step(r, exact), mu=sl.pick_step(r, exact), x0=x0, y0=y0)


def impl_dpdc(p, variant, n, distinct=False):
    from odl.solvers.nonsmooth.difference_convex import doubleprox_dc, doubleprox_dc_simple
    K = p['L']
    mk = sl.unflat_distinct if distinct else unflat
    x, y = mk(K.domain, p['x0']), mk(K.range, p['y0'])
    rec = Recorder()
    if variant == 'opt':
        st, _ = guarded(doubleprox_dc, x, y, p['f'], p['phi'], p['g'], K, n, p['gamma'], p['mu'],
                        callback=rec)
    else:
        st, _ = guarded(doubleprox_dc_simple, x, y, p['f'], p['phi'], p['g'], K, n, p['gamma'],
                        p['mu'])
    return st, rec.iterates, flat(x).copy(), flat(y).copy()


def family_dpdc(ctx, r, exact, n, opaque=False):
    p = gen_dpdc(r, exact, opaque)
    p.update(cseed=r.cseed, exact=exact, opaque=opaque)
    n = min(n, 8 if ctx.quick else 20)
    key = 'doubleprox_dc vs doubleprox_dc_simple opkind={} f={} phi={} g={}'.format(
        p['opkind'], p['fk'], p['hk'], p['gk'])
    st_o, log_o, x_o, y_o = impl_dpdc(p, 'opt', n)
    xs, st_s, y_s = [], 'ok', None
    for k in range(1, n + 1):
        st_k, _, x_k, y_s = impl_dpdc(p, 'simple', k)
        if st_k != 'ok':
            st_s = st_k
            break
        xs.append(x_k)
    if err_kind(st_o) != err_kind(st_s):
        viol(ctx, key, 'outcomes differ: optimised {} / simple {}'.format(st_o, st_s), p, n=n)
    elif st_o == 'ok':
        d = sl.arrays_differ(log_o, xs) or (n and sl.arrays_differ([y_o], [y_s]))
        if d:
            viol(ctx, key, 'iterates differ: ' + d, p, n=n)
        check_callback(ctx, p, n, log_o, x_o, 'doubleprox_dc')
        start_distinct(ctx, p, n, 'dpdc', 'doubleprox_dc', log_o, lambda: impl_dpdc(p, 'opt', n, True)[:2])
    else:
        ctx.err(err_kind(st_o))
    sig = ('opaque' if opaque else 'model', 'dpdc', p['opkind'], p['fk'], p['hk'], p['gk'],
           steps_class(exact), n)
    nt = st_o == 'ok' and nontrivial(log_o, p['x0'])
    if opaque:
        ctx.case(sig if nt else None)
        ctx.hit('oracle/dpdc')
        return []
    A, At = wire_op(p['L'])
    base = 'A={} At={} pf={} gphi={} pgc={} gamma={} mu={} x0={} y0={} n={}'.format(
        fmat(A), fmat(At), p['F'].prox(p['gamma']), p['PHI'].grad, p['G'].cprox(p['mu']),
        fs(p['gamma']), fs(p['mu']), fl(p['x0']), fl(p['y0']), n)
    st_s, _, x_s, y_s = impl_dpdc(p, 'simple', n)
    ctx.hit('model/dpdc/opt')
    ctx.hit('model/dpdc/simple')
    return [Case(desc_of(p, n=n, variant='opt'), sig + ('opt',) if nt else None,
                 'dpdc variant=opt ' + base, st_o, log_o, {'x': x_o, 'y': y_o}),
            Case(desc_of(p, n=n, variant='simple'), sig + ('simple',) if nt else None,
                 'dpdc variant=simple ' + base, st_s, None, {'x': x_s, 'y': y_s})]


# ---------------------------------------------------------------------------
# solvers whose whole state is the iterate: split n+m vs unsplit

def proj_pair(r):
    """(python in-place projection, PSpec) or (None, 'none')"""
    c = r.random()
    if c < 0.5:
        return None, 'none'
    if c < 0.8:
        def proj(x):
            x.ufuncs.maximum(0, out=x)
        return proj, 'lower:0'

    def proj2(x):
        x.ufuncs.minimum(1, out=x)
        x.ufuncs.maximum(-1, out=x)
    return proj2, 'clamp:-1:1'


def resume_oracle(ctx, p, n, runner, what, obs_names=('x',)):
    """runner(state0, k) -> (status, log, state_k); state is a tuple of flat arrays."""
    r = random.Random(p['cseed'] ^ 0x5EED)
    st, log, full = runner(None, n)
    if st != 'ok':
        ctx.err(err_kind(st))
        return st, log, full
    # ALL splittings n = a + b of short runs, three random ones of long runs
    splits = range(n + 1) if n <= 8 else sorted({0, n, r.randint(1, n - 1), r.randint(1, n - 1)})
    key = '{} resume {}+{} opkind={} f={} g={}'.format(what, 'n', 'm', p.get('opkind'),
                                                       p.get('fk'), p.get('gk'))
    for a in splits:
        b = n - a
        st1, log1, mid = runner(None, a)
        st2, log2, end = runner(mid, b)
        ctx.hit('oracle/resume-splits')
        if st1 != 'ok' or st2 != 'ok':
            viol(ctx, key, 'split run {}+{} failed ({}, {}) but the unsplit run succeeded'.format(
                a, b, st1, st2), p, n=n, split=[a, b])
            return st, log, full
        bad = False
        for name, u, v in zip(obs_names, end, full):
            d = sl.arrays_differ([u], [v])
            if d:
                viol(ctx, key, '{} after {}+{} iterations differs from {} iterations: {}'.format(
                    name, a, b, n, d), p, n=n, split=[a, b])
                bad = True
                break
        d = sl.arrays_differ(list(log1) + list(log2), log)
        if d and not bad:
            viol(ctx, key, 'callback iterates of the split run {}+{} differ: {}'.format(a, b, d), p,
                 n=n, split=[a, b])
            bad = True
        if bad:
            break
    # state handed back in EQUAL BUT SEPARATELY BUILT spaces (legal everywhere in ODL), and state
    # produced by a run on an equal but distinct operator object, passed on as the same objects
    for mode in getattr(runner, 'modes', ()):
        a = r.randint(0, n)
        st1, log1, mid = runner(None, a, mode=mode) if mode == 'distinct-operator' else runner(None, a)
        st2, log2, end = runner(mid, n - a, mode=mode)
        ctx.hit('resume/{}/{}'.format(mode if mode != 'distinct-space' else 'equal-distinct-space',
                                      p['solver']))
        k2 = '{} resume with state in {} opkind={} f={} g={}'.format(
            what, {'distinct-space': 'equal but separately built spaces',
                   'distinct-operator': 'the objects of a run on an equal but distinct operator',
                   'float32': 'float32 spaces'}.get(mode, mode), p.get('opkind'), p.get('fk'), p.get('gk'))
        if st1 != 'ok' or st2 != 'ok':
            viol(ctx, k2, 'split run {}+{} failed ({} / {}) but the uninterrupted run succeeded'.format(
                a, n - a, st1, st2), p, n=n, split=[a, n - a], mode=mode)
            continue
        d = None
        for name, u, v in zip(obs_names, end, full):
            d = d or sl.arrays_differ([u], [v])
        d = d or sl.arrays_differ(list(log1) + list(log2), log)
        if d:
            viol(ctx, k2, '{}+{} iterations differ from {}: {}'.format(a, n - a, n, d), p, n=n,
                 split=[a, n - a], mode=mode)
    return st, log, full


def gen_landweber(r, exact, opaque=False):
    kind, A = sl.operator_zoo(r)
    if kind == 'matrix' and r.random() < 0.4:
        import odl
        kind, A = 'matrix*square', A * odl.PowerOperator(A.domain, 2)   # non-linear: derivative at x
        # x -> x^2 blows up doubly exponentially: small data, small relaxation, few iterations
        rhs = sl.dy_vec(r, size_of(A.range), 8, 8)
        x0 = sl.dy_vec(r, size_of(A.domain), 8, 8)
        proj, pspec = proj_pair(r)
        return dict(solver='landweber', opkind=kind, L=A, rhs=rhs, x0=x0, proj=proj, pspec=pspec,
                    omega=r.choice([0.03125, 0.015625]), fk=pspec, gk='-', nmax=3)
    rhs = sl.dy_vec(r, size_of(A.range), 16, 8)
    x0 = sl.dy_vec(r, size_of(A.domain), 16, 8)
    proj, pspec = proj_pair(r)
    import odl
    if isinstance(A.domain, odl.ProductSpace):
        proj, pspec = None, 'none'
    omega = r.choice([0.125, 0.25, 0.0625] if exact else [0.1, 0.05, 0.3, 0.125])
    return dict(solver='landweber', opkind=kind, L=A, rhs=rhs, x0=x0, proj=proj, pspec=pspec,
                omega=omega, fk=pspec, gk='-')


def family_landweber(ctx, r, exact, n, opaque=False):
    from odl.solvers import landweber
    p = gen_landweber(r, exact, opaque)
    p.update(cseed=r.cseed, exact=exact, opaque=opaque)
    n = min(n, p.get('nmax', n))
    A = p['L']

    def runner(state, k, mode='same'):
        mk = sl.unflat_distinct if mode == 'distinct-space' else unflat
        x = mk(A.domain, p['x0'] if state is None else state[0])
        rec = Recorder()
        st, _ = guarded(landweber, A, x, mk(A.range, p['rhs']), k, omega=p['omega'],
                        projection=p['proj'], callback=rec)
        return st, rec.iterates, (flat(x).copy(),)
    runner.modes = ('distinct-space',)
    st, log, full = resume_oracle(ctx, p, n, runner, 'landweber')
    if st == 'ok':
        check_callback(ctx, p, n, log, full[0], 'landweber')
    sig = ('model', 'landweber', p['opkind'], p['pspec'], steps_class(exact), n)
    nt = st == 'ok' and nontrivial(log, p['x0'])
    nl = p['opkind'] == 'matrix*square'
    M, Mt = wire_op(A.left if nl else A)
    line = 'landweber A={} At={} rhs={} omega={} proj={} x0={} n={}{}'.format(
        fmat(M), fmat(Mt), fl(p['rhs']), fs(p['omega']), p['pspec'], fl(p['x0']), n,
        ' sq=1' if nl else '')
    ctx.hit('model/landweber/' + ('nonlinear-op' if nl else 'linear-op'))
    ctx.hit('model/landweber/proj=' + p['pspec'].split(':')[0])
    return [Case(desc_of(p, n=n), sig if nt else None, line, st, log)]


def gen_kaczmarz(r, exact, opaque=False):
    import odl
    d = r.randint(1, 3)
    dom = odl.rn(d)
    m = r.randint(1, 3)
    ops = []
    for i in range(m):
        k = r.choice(['matrix', 'matrix', 'identity', 'scaled'])
        if k == 'matrix':
            ops.append(odl.MatrixOperator(sl.small_int_matrix(r, r.randint(1, 3), d)))
        elif k == 'identity':
            ops.append(odl.IdentityOperator(dom))
        else:
            ops.append(odl.ScalingOperator(dom, r.choice([-2.0, 0.5, 2.0])))
    rhs = [sl.dy_vec(r, size_of(o.range), 16, 8) for o in ops]
    steps = [0.125, 0.25, 0.0625] if exact else [0.1, 0.05, 0.3, 0.125]
    omega = r.choice(steps) if r.random() < 0.5 else [r.choice(steps) for _ in range(m)]
    proj, pspec = proj_pair(r)
    return dict(solver='kaczmarz', opkind='x'.join(str(size_of(o.range)) for o in ops), ops=ops,
                rhs=rhs, omega=omega, proj=proj, pspec=pspec, m=m, x0=sl.dy_vec(r, d, 16, 8),
                cb=r.choice(['inner', 'outer']), fk=pspec, gk='-')


def family_kaczmarz(ctx, r, exact, n, opaque=False):
    from odl.solvers import kaczmarz
    p = gen_kaczmarz(r, exact, opaque)
    p.update(cseed=r.cseed, exact=exact, opaque=opaque)
    ops = p['ops']
    dom = ops[0].domain

    def mk_runner(cb):
        def runner(state, k, mode='same'):
            mk = sl.unflat_distinct if mode == 'distinct-space' else unflat
            x = mk(dom, p['x0'] if state is None else state[0])
            rec = Recorder()
            st, _ = guarded(kaczmarz, ops, x, [mk(o.range, b) for o, b in zip(ops, p['rhs'])],
                            k, omega=p['omega'], projection=p['proj'], callback=rec,
                            callback_loop=cb)
            return st, rec.iterates, (flat(x).copy(),)
        runner.modes = ('distinct-space',)
        return runner
    st, log, full = resume_oracle(ctx, p, n, mk_runner(p['cb']), 'kaczmarz(' + p['cb'] + ')')
    if st == 'ok':
        want = n * (p['m'] if p['cb'] == 'inner' else 1)
        if len(log) != want:
            viol(ctx, 'kaczmarz({}) callback count ranges={}'.format(p['cb'], p['opkind']),
                 'callback called {} times, expected {}'.format(len(log), want), p, n=n)
        elif n and np.any(log[-1] != full[0]):
            viol(ctx, 'kaczmarz({}) last callback iterate != result'.format(p['cb']),
                 'last callback saw {} but x is {}'.format(log[-1], full[0]), p, n=n)
    sig = ('model', 'kaczmarz', p['opkind'], p['pspec'], p['cb'],
           'list' if isinstance(p['omega'], list) else 'scalar', steps_class(exact), n)
    nt = st == 'ok' and nontrivial(log, p['x0'])
    mats = [wire_op(o) for o in ops]
    rid = [min(i for i in range(p['m']) if ops[i].range == o.range) for o in ops]
    om = p['omega'] if isinstance(p['omega'], list) else [p['omega']] * p['m']
    fields = ' '.join('A{0}={1} At{0}={2} rhs{0}={3}'.format(
        i, fmat(mats[i][0]), fmat(mats[i][1]), fl(p['rhs'][i])) for i in range(p['m']))
    line = 'kaczmarz m={} {} omega={} proj={} rid={} cb={} x0={} n={}'.format(
        p['m'], fields, fl(om), p['pspec'], ','.join(map(str, rid)), p['cb'], fl(p['x0']), n)
    ctx.hit('model/kaczmarz/' + p['cb'])
    return [Case(desc_of(p, n=n, cb=p['cb']), sig if nt else None, line, st, log)]


def gen_proxgrad(r, exact, opaque=False):
    import odl
    d = r.randint(1, 4)
    space = odl.rn(d) if r.random() < 0.7 else odl.uniform_discr(0, d, d)
    if opaque:
        fk, f = sl.opaque_functional_zoo(r, space)
        gk, g = sl.opaque_functional_zoo(r, space, smooth=True)
        F = G = None
    else:
        F = sl.functional_zoo(r, space, exact=exact)
        G = sl.functional_zoo(r, space, smooth=True, exact=exact)
        fk, f, gk, g = F.name, F.f, G.name, G.f
    x0 = sl.dy_vec(r, d, 16, 8)
    if fk == 'kl':
        x0 = np.abs(x0) + 0.5
    return dict(solver='proxgrad', opkind='space', space=space, f=f, g=g, F=F, G=G, fk=fk, gk=gk,
                gamma=sl.pick_step(r, exact), lam=r.choice([1.0, 1.0, 0.5, 1.5]), x0=x0)


def family_proxgrad(ctx, r, exact, n, opaque=False):
    from odl.solvers import proximal_gradient
    p = gen_proxgrad(r, exact, opaque)
    p.update(cseed=r.cseed, exact=exact, opaque=opaque)

    def runner(state, k, mode='same'):
        mk = sl.unflat_distinct if mode == 'distinct-space' else unflat
        x = mk(p['space'], p['x0'] if state is None else state[0])
        rec = Recorder()
        st, _ = guarded(proximal_gradient, x, p['f'], p['g'], p['gamma'], k, callback=rec,
                        lam=p['lam'])
        return st, rec.iterates, (flat(x).copy(),)
    runner.modes = ('distinct-space',)
    st, log, full = resume_oracle(ctx, p, n, runner, 'proximal_gradient')
    if st == 'ok':
        check_callback(ctx, p, n, log, full[0], 'proximal_gradient')
    sig = ('opaque' if opaque else 'model', 'proxgrad', p['fk'], p['gk'], p['lam'],
           steps_class(exact), n)
    nt = st == 'ok' and nontrivial(log, p['x0'])
    if opaque:
        ctx.case(sig if nt else None)
        ctx.hit('oracle/proxgrad')
        return []
    line = 'proxgrad pf={} gg={} gamma={} lam={} x0={} n={}'.format(
        p['F'].prox(p['gamma']), p['G'].grad, fs(p['gamma']), fs(p['lam']), fl(p['x0']), n)
    ctx.hit('model/proxgrad')
    return [Case(desc_of(p, n=n), sig if nt else None, line, st, log)]


def gen_osmlem(r, exact, opaque=False):
    import odl
    d = r.randint(1, 3)
    m = r.randint(1, 3)
    ops = [odl.MatrixOperator(np.abs(sl.small_int_matrix(r, r.randint(1, 3), d, 0, 3)))
           for _ in range(m)]
    data = [np.abs(sl.dy_vec(r, size_of(o.range), 16, 4)) for o in ops]
    x0 = np.abs(sl.dy_vec(r, d, 16, 8)) + r.choice([0.0, 0.125])
    sens, sens_form = None, 'default'
    c = r.random()
    if c < 0.3:
        sens, sens_form = [np.abs(sl.dy_vec(r, d, 8, 4)) + 0.25 for _ in range(m)], 'list'
    elif c < 0.5:      # ONE domain element for all subsets (docstring: "float or domain element-like")
        sens, sens_form = [np.abs(sl.dy_vec(r, d, 8, 4)) + 0.25] * m, 'element'
    elif c < 0.6:
        sens, sens_form = [np.full(d, r.choice([0.5, 2.0, 1.25]))] * m, 'float'
    return dict(solver='osmlem', opkind='x'.join(str(size_of(o.range)) for o in ops), ops=ops,
                data=data, x0=x0, sens=sens, sens_form=sens_form, m=m, fk=sens_form, gk='-',
                use_mlem=(m == 1 and r.random() < 0.5))


def family_osmlem(ctx, r, exact, n, opaque=False):
    from odl.solvers import mlem, osmlem
    p = gen_osmlem(r, exact, opaque)
    p.update(cseed=r.cseed, exact=exact, opaque=opaque)
    # exact rationals square in size with every division: keep n * m small
    n = max(1, min(n, 6 // p['m']))
    ops = p['ops']
    dom = ops[0].domain

    def runner(state, k, mode='same'):
        mk = sl.unflat_distinct if mode == 'distinct-space' else unflat
        x = mk(dom, p['x0'] if state is None else state[0])
        rec = Recorder()
        kw = {}
        if p['sens_form'] == 'list':
            kw['sensitivities'] = [unflat(dom, s) for s in p['sens']]
        elif p['sens_form'] == 'element':
            kw['sensitivities'] = unflat(dom, p['sens'][0])
        elif p['sens_form'] == 'float':
            kw['sensitivities'] = float(p['sens'][0][0])
        if p['use_mlem'] and p['sens_form'] == 'list':
            kw['sensitivities'] = kw['sensitivities'][:1]
        if p['use_mlem']:
            st, _ = guarded(mlem, ops[0], x, unflat(ops[0].range, p['data'][0]), k,
                            callback=rec, **kw)
        else:
            st, _ = guarded(osmlem, ops, x, [unflat(o.range, b) for o, b in zip(ops, p['data'])],
                            k, callback=rec, **kw)
        return st, rec.iterates, (flat(x).copy(),)
    what = 'mlem' if p['use_mlem'] else 'osmlem'
    runner.modes = ('distinct-space',)
    st, log, full = resume_oracle(ctx, p, n, runner, what)
    if st == 'ok':
        if len(log) != n * p['m']:
            viol(ctx, '{} callback count ranges={}'.format(what, p['opkind']),
                 'callback called {} times in {} iterations with {} subsets'.format(
                     len(log), n, p['m']), p, n=n)
        elif n and np.any(log[-1] != full[0]):
            viol(ctx, '{} last callback iterate != result'.format(what), 'differs', p, n=n)
    sig = ('model', what, p['opkind'], p['fk'], n)
    nt = st == 'ok' and nontrivial(log, p['x0'])
    eps = Fraction(1e-8)
    mats = [wire_op(o) for o in ops]
    sens = []
    for i in range(p['m']):
        if p['sens'] is not None:
            sens.append(sl.fr_vec(p['sens'][i]))
        else:
            sens.append([max(sum(row), eps) for row in mats[i][1]])
    fields = ' '.join('A{0}={1} At{0}={2} data{0}={3} sens{0}={4}'.format(
        i, fmat(mats[i][0]), fmat(mats[i][1]), fl(p['data'][i]), fl(sens[i]))
        for i in range(p['m']))
    line = 'osmlem m={} {} eps={} x0={} n={}'.format(p['m'], fields, fs(eps), fl(p['x0']), n)
    ctx.hit('model/' + what)
    ctx.hit('model/osmlem/sensitivities=' + p['sens_form'])
    return [Case(desc_of(p, n=n, mlem=p['use_mlem']), sig if nt else None, line, st, log)]


def gen_steepest(r, exact, opaque=False):
    import odl
    d = r.randint(1, 3)
    space = odl.rn(d)
    S = odl.solvers
    if r.random() < 0.5:
        A = sl.small_int_matrix(r, r.randint(1, 3), d)
        b = sl.dy_vec(r, A.shape[0], 8, 4)
        Aop = odl.MatrixOperator(A)
        f = S.L2NormSquared(Aop.range).translated(b) * Aop
        At = A.T
        M = 2 * At.dot(A)
        c = -2 * At.dot(b)
        gspec = 'lin:{}:{}'.format(fmat(M.tolist()), fl(c))
        fk = 'lsq'
    else:
        G = sl.functional_zoo(r, space, smooth=True, exact=exact)
        f, gspec, fk = G.f, G.grad, G.name
    proj, pspec = proj_pair(r)
    return dict(solver='steepest', opkind='space', space=space, f=f, gspec=gspec, fk=fk, gk=pspec,
                step=r.choice([0.125, 0.25, 0.0625] if exact else [0.1, 0.05, 0.2]),
                tol=r.choice([1e-16, 0.25, 1.0, 4.0]), proj=proj, pspec=pspec,
                x0=sl.dy_vec(r, d, 16, 8))


def family_steepest(ctx, r, exact, n, opaque=False):
    from odl.solvers import steepest_descent
    p = gen_steepest(r, exact, opaque)
    p.update(cseed=r.cseed, exact=exact, opaque=opaque)

    def runner(state, k, mode='same'):
        mk = sl.unflat_distinct if mode == 'distinct-space' else unflat
        x = mk(p['space'], p['x0'] if state is None else state[0])
        rec = Recorder()
        st, _ = guarded(steepest_descent, p['f'], x, line_search=p['step'], maxiter=k,
                        tol=p['tol'], projection=p['proj'], callback=rec)
        return st, rec.iterates, (flat(x).copy(),)
    runner.modes = ('distinct-space',)
    st, log, full = resume_oracle(ctx, p, n, runner, 'steepest_descent(constant step)')
    if st == 'ok':
        if len(log) > n:
            viol(ctx, 'steepest_descent callback count', 'callback called {} times in at most {} '
                 'iterations'.format(len(log), n), p, n=n)
        elif log and np.any(log[-1] != full[0]):
            viol(ctx, 'steepest_descent last callback iterate != result', 'differs', p, n=n)
    sig = ('model', 'steepest', p['fk'], p['pspec'], p['tol'], len(log) < n, steps_class(exact), n)
    nt = st == 'ok' and nontrivial(log, p['x0'])
    line = 'steepest gg={} tol={} step={} proj={} x0={} n={}'.format(
        p['gspec'], fs(p['tol']), fs(p['step']), p['pspec'], fl(p['x0']), n)
    ctx.hit('model/steepest/' + ('stopped-early' if st == 'ok' and len(log) < n else 'full'))
    return [Case(desc_of(p, n=n), sig if nt else None, line, st, log)]


# ---------------------------------------------------------------------------
# PDHG

def gen_pdhg(r, exact, opaque=False):
    kind, L = sl.operator_zoo(r)
    if kind == 'matrix' and not opaque and r.random() < 0.3:
        import odl
        kind, L = 'matrix*square', L * odl.PowerOperator(L.domain, 2)   # L.derivative(x).adjoint at the OLD x
        F = sl.functional_zoo(r, L.domain, exact=exact)
        G = sl.functional_zoo(r, L.range, exact=exact)
        return dict(solver='pdhg', opkind=kind, L=L, f=F.f, g=G.f, F=F, G=G, fk=F.name, gk=G.name,
                    tau=r.choice([0.0625, 0.03125]), sigma=r.choice([0.0625, 0.125]),
                    theta=r.choice([None, 1.0, 0.5, 0.0]), x0=sl.dy_vec(r, size_of(L.domain), 8, 8),
                    nmax=4)
    if opaque:
        fk, f = sl.opaque_functional_zoo(r, L.domain)
        gk, g = sl.opaque_functional_zoo(r, L.range)
        F = G = None
    else:
        F = sl.functional_zoo(r, L.domain, exact=exact)
        G = sl.functional_zoo(r, L.range, exact=exact)
        fk, f, gk, g = F.name, F.f, G.name, G.f
    x0 = sl.dy_vec(r, size_of(L.domain), 16, 8)
    if fk == 'kl':
        x0 = np.abs(x0) + 0.5
    return dict(solver='pdhg', opkind=kind, L=L, f=f, g=g, F=F, G=G, fk=fk, gk=gk,
                tau=sl.pick_step(r, exact), sigma=sl.pick_step(r, exact),
                theta=r.choice([None, 1.0, 0.5, 0.0]), x0=x0)


def family_pdhg(ctx, r, exact, n, opaque=False):
    from odl.solvers import pdhg
    p = gen_pdhg(r, exact, opaque)
    p.update(cseed=r.cseed, exact=exact, opaque=opaque)
    n = min(n, p.get('nmax', n))
    L = p['L']
    kw = {} if p['theta'] is None else {'theta': p['theta']}
    theta = 1.0 if p['theta'] is None else p['theta']

    # an EQUAL problem built separately (same sub-seed): its operator, spaces and functionals are
    # distinct objects
    p2 = gen_pdhg(SeededRandom(p['cseed']), exact, opaque)

    def runner(state, k, mode='same'):
        q = p2 if (mode == 'distinct-operator' and state is None) else p
        Lq = q['L']
        mk = sl.unflat_distinct if mode == 'distinct-space' else unflat
        if state is None:
            x = unflat(Lq.domain, q['x0'])
            xr, y = x.copy(), Lq.range.zero()
        elif mode == 'distinct-operator' and len(state) == 4:
            x, xr, y = state[3]          # the very objects of the run on the equal operator
        else:
            x, xr, y = mk(L.domain, state[0]), mk(L.domain, state[1]), mk(L.range, state[2])
        rec = Recorder()
        st, _ = guarded(pdhg, x, q['f'], q['g'], Lq, k, tau=q['tau'], sigma=q['sigma'],
                        callback=rec, x_relax=xr, y=y, **kw)
        out = (flat(x).copy(), flat(xr).copy(), flat(y).copy())
        if mode == 'distinct-operator' and state is None:
            out = out + ((x, xr, y),)
        return st, rec.iterates, out
    runner.modes = ('distinct-space', 'distinct-operator')
    st, log, full = resume_oracle(ctx, p, n, runner, 'pdhg(x_relax, y passed back)',
                                  ('x', 'x_relax', 'y'))
    if st == 'ok':
        check_callback(ctx, p, n, log, full[0], 'pdhg')
        # the defaults (no x_relax / y given) are x_relax = x.copy(), y = 0
        x = unflat(L.domain, p['x0'])
        rec = Recorder()
        st_d, _ = guarded(pdhg, x, p['f'], p['g'], L, n, tau=p['tau'], sigma=p['sigma'],
                          callback=rec, **kw)
        if st_d != 'ok' or sl.arrays_differ(rec.iterates, log):
            viol(ctx, 'pdhg default x_relax/y vs explicit x.copy()/zero opkind={} f={} g={}'.format(
                p['opkind'], p['fk'], p['gk']), 'iterates differ ({})'.format(st_d), p, n=n)
    sig = ('opaque' if opaque else 'model', 'pdhg', p['opkind'], p['fk'], p['gk'], str(p['theta']),
           steps_class(exact), n)
    nt = st == 'ok' and nontrivial(log, p['x0'])
    if opaque:
        ctx.case(sig if nt else None)
        ctx.hit('oracle/pdhg')
        return []
    nl = p['opkind'] == 'matrix*square'
    A, At = wire_op(L.left if nl else L)
    base = 'pdhg A={} At={} pf={} pgc={} tau={} sigma={} theta={}{}'.format(
        fmat(A), fmat(At), p['F'].prox(p['tau']), p['G'].cprox(p['sigma']), fs(p['tau']),
        fs(p['sigma']), fs(theta), ' sq=1' if nl else '')
    ctx.hit('model/pdhg/' + ('nonlinear-op' if nl else 'linear-op'))
    cases = [Case(desc_of(p, n=n), sig if nt else None,
                  base + ' x0={} n={}'.format(fl(p['x0']), n), st, log,
                  {'x': full[0], 'xr': full[1], 'y': full[2]} if st == 'ok' else {})]
    ctx.hit('model/pdhg/fresh')
    if st == 'ok' and n >= 2:
        a = n // 2
        st1, _, mid = runner(None, a)
        st2, log2, end = runner(mid, n - a)
        if st1 == 'ok':
            cases.append(Case(desc_of(p, n=n - a, resumed_after=a), sig + ('resumed',) if nt else None,
                              base + ' x0={} xr={} y={} n={}'.format(
                                  fl(mid[0]), fl(mid[1]), fl(mid[2]), n - a), st2, log2,
                              {'x': end[0], 'xr': end[1], 'y': end[2]} if st2 == 'ok' else {}))
            ctx.hit('model/pdhg/resumed')
            # only ONE of the two resumption objects passed back (the other re-initialised)
            for which in ('xr', 'y'):
                x = unflat(L.domain, mid[0])
                kw2 = dict(kw)
                if which == 'xr':
                    kw2['x_relax'] = unflat(L.domain, mid[1])
                else:
                    kw2['y'] = unflat(L.range, mid[2])
                rec = Recorder()
                st3, _ = guarded(pdhg, x, p['f'], p['g'], L, n - a, tau=p['tau'], sigma=p['sigma'],
                                 callback=rec, **kw2)
                cases.append(Case(desc_of(p, n=n - a, resumed_after=a, only=which),
                                  sig + ('half-resumed', which) if nt else None,
                                  base + ' x0={} {}={} n={}'.format(
                                      fl(mid[0]), which, fl(mid[1] if which == 'xr' else mid[2]), n - a),
                                  st3, rec.iterates, {'x': flat(x).copy()} if st3 == 'ok' else {}))
                ctx.hit('model/pdhg/half-resumed(' + which + ')')
    return cases


def family_resume_float32(ctx, r, exact, n, opaque=False):
    """float32 spaces: landweber and pdhg (x_relax, y passed back, in the same and in equal but
    separately built float32 spaces): n then m iterations = n + m (same float32 operations)."""
    import odl
    from odl.solvers import landweber, pdhg
    d, m = r.randint(1, 3), r.randint(1, 3)
    M = sl.small_int_matrix(r, m, d).astype('float32')
    A = odl.MatrixOperator(M)
    S = odl.solvers
    f = r.choice([S.L1Norm, S.L2NormSquared, S.ZeroFunctional])(A.domain)
    g = r.choice([S.L1Norm, S.L2NormSquared])(A.range)
    x0, rhs = sl.dy_vec(r, d, 16, 8), sl.dy_vec(r, m, 16, 8)
    n = r.randint(2, 8)
    a = r.randint(0, n)
    p = dict(solver='resume_float32', opkind='matrix-f32', x0=x0, fk=type(f).__name__, gk=type(g).__name__,
             cseed=r.cseed, exact=exact, opaque=opaque)

    def el(space, arr, distinct):
        sp = (sl.rebuild_space(space) or space) if distinct else space
        return sp.element(np.asarray(arr, dtype='float32').copy())
    for distinct in (False, True):
        # landweber
        def lw(start, k):
            x = el(A.domain, start, distinct)
            st, _ = guarded(landweber, A, x, el(A.range, rhs, distinct), k, omega=0.0625)
            return st, flat(x).copy()
        st, full = lw(x0, n)
        st1, mid = lw(x0, a)
        st2, end = lw(mid, n - a)
        if st != 'ok' or st1 != 'ok' or st2 != 'ok' or sl.arrays_differ([end], [full], 1e-6):
            viol(ctx, 'landweber resume on float32 spaces{}'.format(' (equal but separately built)' if distinct else ''),
                 '{}+{} vs {}: {} {} {} {} vs {}'.format(a, n - a, n, st, st1, st2, end, full), p, n=n)
        # pdhg
        def pd(state, k):
            if state is None:
                x = el(A.domain, x0, False)
                xr, y = x.copy(), A.range.zero()
            else:
                x, xr, y = el(A.domain, state[0], distinct), el(A.domain, state[1], distinct), \
                    el(A.range, state[2], distinct)
            st, _ = guarded(pdhg, x, f, g, A, k, tau=0.25, sigma=0.25, x_relax=xr, y=y)
            return st, (flat(x).copy(), flat(xr).copy(), flat(y).copy())
        st, full = pd(None, n)
        st1, mid = pd(None, a)
        st2, end = pd(mid, n - a)
        if st != 'ok' or st1 != 'ok' or st2 != 'ok' or sl.arrays_differ(list(end), list(full), 1e-6):
            viol(ctx, 'pdhg resume on float32 spaces{}'.format(' (equal but separately built)' if distinct else ''),
                 '{}+{} vs {}: {} {} {}'.format(a, n - a, n, st, st1, st2), p, n=n)
    ctx.case(('oracle', 'resume_float32', d, m, p['fk'], p['gk']))
    ctx.hit('resume/float32/landweber,pdhg')
    return []


def family_steepest_ls(ctx, r, exact, n, opaque=False):
    """steepest_descent with ONE BacktrackingLineSearch object shared by the split calls.
    estimate_step=False: the object carries no state that matters -> n then m = n+m exactly.
    estimate_step=True: `alpha` survives in the object (documented exclusion 'line searches with
    memory'): with the SAME object passed to both calls resumption still holds; a fresh object
    for the second call may differ (recorded, not a violation)."""
    import odl
    from odl.solvers import steepest_descent, BacktrackingLineSearch
    d = r.randint(1, 3)
    M = sl.small_int_matrix(r, r.randint(1, 3), d)
    b = sl.dy_vec(r, M.shape[0], 8, 4)
    Mop = odl.MatrixOperator(M)
    f = odl.solvers.L2NormSquared(Mop.range).translated(b) * Mop
    x0 = sl.dy_vec(r, d, 16, 8)
    est = r.random() < 0.5
    tau, disc = r.choice([0.5, 0.25, 0.75]), r.choice([0.01, 0.3, 0.1])
    n = r.randint(2, 8)
    p = dict(solver='steepest_ls', opkind='lsq{}x{}'.format(M.shape[0], d), x0=x0, fk='estimate_step' if est
             else 'stateless', gk='-', cseed=r.cseed, exact=exact, opaque=opaque)

    def run(k, x_start, ls):
        x = unflat(f.domain, x_start)
        rec = Recorder()
        st, _ = guarded(steepest_descent, f, x, line_search=ls, maxiter=k, tol=1e-16, callback=rec)
        return st, rec.iterates, flat(x).copy()

    def mk():
        return BacktrackingLineSearch(f, tau=tau, discount=disc, max_num_iter=40, estimate_step=est)
    st, log, full = run(n, x0, mk())
    if st == 'ok':
        for a in range(n + 1):
            ls = mk()
            st1, log1, mid = run(a, x0, ls)
            st2, log2, end = run(n - a, mid, ls)            # the SAME object is passed on
            if st1 != 'ok' or st2 != 'ok':
                continue    # refusal at float-level convergence (see C12)
            d_ = sl.arrays_differ(list(log1) + list(log2), log)
            if d_:
                viol(ctx, 'steepest_descent(BacktrackingLineSearch estimate_step={}) resume with the '
                     'line-search object passed on'.format(est),
                     '{}+{} iterations differ from {}: {}'.format(a, n - a, n, d_), p, n=n, split=[a, n - a])
                break
            if est:
                st3, log3, end3 = run(n - a, mid, mk())     # fresh object: excluded class
                ctx.hit('excluded/line search with memory, fresh object: ' +
                        ('differs' if st3 != 'ok' or sl.arrays_differ([end3], [full]) else 'same'))
    ctx.case(('oracle', 'steepest_ls', p['opkind'], est, n) if st == 'ok' else None)
    ctx.hit('oracle/steepest_descent+BacktrackingLineSearch resume/' + p['fk'])
    return []


# ---------------------------------------------------------------------------
# ROUND 4: resumption of the paths whose state is more than the iterate

def family_proxgrad_lam(ctx, r, exact, n, opaque=False):
    """proximal_gradient with a CALLABLE lam: the iteration counter is hidden state.  Oracle (real
    code only): lam is called once per iteration with k = 0 .. n-1; n then m iterations with the
    schedule SHIFTED by n in the second call = n + m iterations.  Model: ProxGradP.step with the
    table of lam values (C11.resume_proximal_gradient_callable)."""
    from odl.solvers import proximal_gradient
    p = gen_proxgrad(r, exact, False)
    p.update(solver='proxgrad_lam', cseed=r.cseed, exact=exact, opaque=opaque)
    tab = [r.choice([1.0, 0.5, 1.5, 0.25, 0.75, 1.25]) for _ in range(max(n, 1))]
    varying = len(set(tab[:n])) > 1
    p['lam'] = 'callable'

    def call(x_start, k, offset, mk=unflat):
        x = mk(p['space'], x_start)
        rec, ks = Recorder(), []

        def lam(i):
            ks.append(i)
            return tab[offset + i]
        st, _ = guarded(proximal_gradient, x, p['f'], p['g'], p['gamma'], k, callback=rec, lam=lam)
        return st, rec.iterates, flat(x).copy(), ks

    def runner(state, k, mode='same'):
        mk = sl.unflat_distinct if mode == 'distinct-space' else unflat
        x_start, off = (p['x0'], 0) if state is None else (state[0], int(state[1][0]))
        st, log, x, ks = call(x_start, k, off, mk)
        if st == 'ok' and ks != list(range(k)):
            viol(ctx, 'proximal_gradient callable lam: arguments of lam f={} g={}'.format(p['fk'], p['gk']),
                 'lam was called with {} in {} iterations (expected 0..{})'.format(ks[:12], k, k - 1), p, n=n)
        return st, log, (x, np.array([off + k]))
    runner.modes = ('distinct-space',)
    st, log, full = resume_oracle(ctx, p, n, runner, 'proximal_gradient(callable lam, schedule shifted)')
    if st == 'ok':
        check_callback(ctx, p, n, log, full[0], 'proximal_gradient(callable lam)')
    a = n // 2
    cases = []
    sig = ('model', 'proxgrad_lam', p['fk'], p['gk'], 'varying' if varying else 'constant',
           steps_class(exact), n)
    nt = st == 'ok' and nontrivial(log, p['x0'])
    base = 'proxgradlam pf={} gg={} gamma={}'.format(p['F'].prox(p['gamma']), p['G'].grad, fs(p['gamma']))
    cases.append(Case(desc_of(p, n=n), sig if nt else None,
                      base + ' lams={} x0={} n={}'.format(fl(tab[:n]), fl(p['x0']), n), st, log))
    ctx.hit('model/proxgrad_lam/fresh')
    ctx.hit('model/proxgrad_lam/schedule=' + ('varying' if varying else 'constant'))
    if st == 'ok' and n >= 2:
        st1, _, mid, _ = call(p['x0'], a, 0)
        st2, log2, end, _ = call(mid, n - a, a)
        if st1 == 'ok':
            cases.append(Case(desc_of(p, n=n - a, resumed_after=a), sig + ('resumed',) if nt else None,
                              base + ' lams={} x0={} n={}'.format(fl(tab[a:n]), fl(mid), n - a), st2, log2,
                              {'x': end} if st2 == 'ok' else {}))
            ctx.hit('model/proxgrad_lam/resumed(shifted)')
            # the excluded class: a caller who keeps only x and passes the same callable again
            st3, _, end3, _ = call(mid, n - a, 0)
            ctx.hit('excluded/callable lam resumed unshifted: ' +
                    ('differs' if st3 != 'ok' or sl.arrays_differ([end3], [full[0]]) else 'same'))
    return cases


FSPEC = {'zero': lambda F: 'zero', 'l1': lambda F: 'l1:1', 'nonneg': lambda F: 'nonneg',
         'a_l1': lambda F: 'l1:' + F.prox(1).split(':')[1],
         'l1_t': lambda F: 't:{}:l1:1'.format(F.prox(1).split(':')[1]),
         'l2sq': lambda F: 'l2sq:1', 'half_l2sq': lambda F: 'l2sq:1/2',
         'l2sq_t': lambda F: 't:{}:l2sq:1'.format(F.prox(1).split(':')[1]),
         'box': lambda F: 'box:{}:{}'.format(*F.prox(1).split(':')[1:3])}


def acc_steps(mode, g, tau, sigma, k):
    """(tau_k, sigma_k) of an accelerated pdhg run, recomputed WITHOUT the solver (the recurrence of
    the step sizes does not involve the iterates: C11.pdhg_acc_steps_closed)"""
    t, s = float(tau), float(sigma)
    for _ in range(k):
        if mode == 'primal':
            th = float(1 / np.sqrt(1 + 2 * g * t))
            t, s = t * th, s / th
        elif mode == 'dual':
            th = float(1 / np.sqrt(1 + 2 * g * s))
            t, s = t / th, s * th
    return t, s


def gen_pdhg_acc(r, exact):
    kind, L = sl.operator_zoo(r)
    if kind == 'matrix' and r.random() < 0.3:
        import odl
        # non-linear: L.derivative(x).adjoint is taken at the x of the iteration (small data: x -> x^2)
        kind, L = 'matrix*square', L * odl.PowerOperator(L.domain, 2)
        F = sl.functional_zoo(r, L.domain, exact=exact)
        G = sl.functional_zoo(r, L.range, exact=exact)
        return dict(solver='pdhg_acc', opkind=kind, L=L, f=F.f, g=G.f, F=F, G=G, fk=F.name, gk=G.name,
                    tau=r.choice([0.0625, 0.03125]), sigma=r.choice([0.0625, 0.125]),
                    theta=r.choice([None, 1.0, 0.5]), mode=r.choice(['primal', 'dual', 'none']),
                    gam=r.choice([0.5, 1.0, 2.0]), sq_exact=False, nmax=3,
                    x0=sl.dy_vec(r, size_of(L.domain), 8, 8))
    F = sl.functional_zoo(r, L.domain, exact=exact)
    G = sl.functional_zoo(r, L.range, exact=exact)
    mode = r.choice(['primal', 'primal', 'dual', 'dual', 'none'])
    tau, sigma = sl.pick_step(r, exact), sl.pick_step(r, exact)
    g = r.choice([0.5, 1.0, 2.0, 0.25, 0.0] if exact else [0.5, 1.0, 0.3, 2.0, 0.7, 0.0])
    sq_exact = False
    if exact and mode != 'none' and g != 0 and r.random() < 0.6:
        # 1 + 2 * gamma * step = 4: the square root of the FIRST iteration is exact (theta = 1/2)
        step, g = r.choice([(0.5, 3.0), (0.25, 6.0), (0.125, 12.0)])
        if mode == 'primal':
            tau = step
        else:
            sigma = step
        sq_exact = True
    return dict(solver='pdhg_acc', opkind=kind, L=L, f=F.f, g=G.f, F=F, G=G, fk=F.name, gk=G.name,
                tau=tau, sigma=sigma, theta=r.choice([None, 1.0, 0.5, 0.0]), mode=mode, gam=g,
                sq_exact=sq_exact, x0=sl.dy_vec(r, size_of(L.domain), 16, 8))


def family_pdhg_acc(ctx, r, exact, n, opaque=False):
    """pdhg with gamma_primal / gamma_dual (tau, sigma, theta are loop-carried, the proximals are
    rebuilt from the factories in every iteration).  Oracle (real code only): n then m iterations
    with x_relax, y AND the recomputed step sizes (acc_steps) passed to the second call = n + m
    iterations; one callback per iteration.  Model: PdhgAccP.step (C11.pdhg_acc_resume)."""
    from odl.solvers import pdhg
    p = gen_pdhg_acc(r, exact)
    p.update(cseed=r.cseed, exact=exact, opaque=opaque)
    mode, g, L = p['mode'], p['gam'], p['L']
    n = 1 if (p['sq_exact'] and r.random() < 0.7) else min(n, p.get('nmax', 8))
    kw = {} if p['theta'] is None else {'theta': p['theta']}
    theta = 1.0 if p['theta'] is None else p['theta']
    if mode == 'primal':
        kw['gamma_primal'] = g
    elif mode == 'dual':
        kw['gamma_dual'] = g

    def call(state, k, mk=unflat, **over):
        if state is None:
            x = unflat(L.domain, p['x0'])
            xr, y, ts = x.copy(), L.range.zero(), (p['tau'], p['sigma'])
        else:
            x, xr, y = mk(L.domain, state[0]), mk(L.domain, state[1]), mk(L.range, state[2])
            ts = (float(state[3][0]), float(state[3][1]))
        ts = over.get('steps', ts)
        rec = Recorder()
        st, _ = guarded(pdhg, x, p['f'], p['g'], L, k, tau=ts[0], sigma=ts[1], callback=rec,
                        x_relax=xr, y=y, **kw)
        return st, rec.iterates, (flat(x).copy(), flat(xr).copy(), flat(y).copy(),
                                  np.array(acc_steps(mode, g, ts[0], ts[1], k)))

    def runner(state, k, mode='same'):
        return call(state, k, sl.unflat_distinct if mode == 'distinct-space' else unflat)
    runner.modes = ('distinct-space',)
    st, log, full = resume_oracle(ctx, p, n, runner,
                                  'pdhg(gamma_{}; x_relax, y, tau_n, sigma_n passed back)'.format(mode),
                                  ('x', 'x_relax', 'y'))
    if st == 'ok':
        check_callback(ctx, p, n, log, full[0], 'pdhg(accelerated)')
        # ONE-GO call with the DEFAULT x_relax / y (nothing passed) against the same call with
        # x_relax = x.copy(), y = 0 passed explicitly (whose split runs were just checked), over the whole
        # grid theta in {0, 1/2, 1} x acceleration in {none, gamma_primal, gamma_dual} x {0, > 0}
        gpos = g if g else 0.5
        for th in (0.0, 0.5, 1.0):
            for acc_kw, aname in (({}, 'none'), ({'gamma_primal': 0.0}, 'primal=0'),
                                  ({'gamma_primal': gpos}, 'primal>0'), ({'gamma_dual': 0.0}, 'dual=0'),
                                  ({'gamma_dual': gpos}, 'dual>0')):
                runs = []
                for explicit in (False, True):
                    x = unflat(L.domain, p['x0'])
                    rec = Recorder()
                    kw3 = dict(acc_kw, theta=th)
                    if explicit:
                        kw3.update(x_relax=x.copy(), y=L.range.zero())
                    st_g, _ = guarded(pdhg, x, p['f'], p['g'], L, n, tau=p['tau'], sigma=p['sigma'],
                                      callback=rec, **kw3)
                    runs.append((st_g, rec.iterates, flat(x).copy()))
                ctx.hit('pdhg_acc/one-go default x_relax,y/theta={}/gamma={}'.format(fs(th), aname))
                (sa, la, xa), (sb, lb, xb) = runs
                dd = (sa if sa != 'ok' else None) or (sb if sb != 'ok' else None) or \
                    sl.arrays_differ(la, lb) or sl.arrays_differ([xa], [xb]) or \
                    (n and sl.arrays_differ([la[-1]], [xa]))
                if dd:
                    viol(ctx, 'pdhg one-go with default x_relax / y vs x_relax = x.copy(), y = 0 passed: theta={} '
                         'gamma_{}'.format(fs(th), aname), 'iterates / result differ: ' + str(dd), p, n=n,
                         theta=th, acc=aname)
    sig = ('model', 'pdhg_acc', mode, p['opkind'], p['fk'], p['gk'], steps_class(exact), n)
    nt = st == 'ok' and nontrivial(log, p['x0'])
    nl = p['opkind'] == 'matrix*square'
    A, At = wire_op(L.left if nl else L)
    base = 'pdhgacc A={} At={} ff={} gf={} theta={} gp={} gd={}{}'.format(
        fmat(A), fmat(At), FSPEC[p['fk']](p['F']), FSPEC[p['gk']](p['G']), fs(theta),
        fs(g) if mode == 'primal' else 'none', fs(g) if mode == 'dual' else 'none', ' sq=1' if nl else '')
    ctx.hit('model/pdhg_acc/' + ('nonlinear-op' if nl else 'linear-op'))

    def extras(st_, out, inexact):
        e = {'x': out[0], 'xr': out[1], 'y': out[2], 'tau': out[3][:1], 'sigma': out[3][1:]} \
            if st_ == 'ok' else {}
        if inexact:
            e['_inexact'] = True
        e['_all_dyadic_or_tolerance'] = True
        return e
    # square roots are irrational except in the first iteration of the `sq_exact` cases
    # ... and the conjugate of an L1 term is the L-infinity ball projection, which ODL computes with
    # the radius lam * (1 - 1e-14) (same rule as `ball:` in solverlib.line_exact)
    inexact = (mode != 'none' and g != 0 and not (p['sq_exact'] and n == 1)) or p['gk'] in ('l1', 'a_l1', 'l1_t')
    cases = [Case(desc_of(p, n=n, mode=mode), sig if nt else None,
                  base + ' tau={} sigma={} x0={} n={}'.format(fs(p['tau']), fs(p['sigma']), fl(p['x0']), n),
                  st, log, extras(st, full, inexact))]
    # the same model line against the real ONE-GO call with the defaults (x_relax, y not passed)
    xd = unflat(L.domain, p['x0'])
    recd = Recorder()
    st_d, _ = guarded(pdhg, xd, p['f'], p['g'], L, n, tau=p['tau'], sigma=p['sigma'], callback=recd, **kw)
    e_d = {'x': flat(xd).copy(), '_all_dyadic_or_tolerance': True} if st_d == 'ok' else {}
    if inexact:
        e_d['_inexact'] = True
    cases.append(Case(desc_of(p, n=n, mode=mode, defaults=True), sig + ('defaults',) if nt else None,
                      cases[0].line, st_d, recd.iterates, e_d))
    ctx.hit('model/pdhg_acc/one-go defaults/theta={}/gamma={}'.format(
        fs(theta), 'none' if mode == 'none' else ('0' if g == 0 else '>0')))
    ctx.hit('model/pdhg_acc/gamma=' + mode)
    ctx.hit('model/pdhg_acc/fresh')
    if not inexact and mode != 'none':
        ctx.hit('model/pdhg_acc/exact-sqrt')
    if st == 'ok' and n >= 2:
        a = n // 2
        st1, _, mid = call(None, a)
        st2, log2, end = call(mid, n - a)
        if st1 == 'ok':
            cases.append(Case(desc_of(p, n=n - a, resumed_after=a, mode=mode),
                              sig + ('resumed',) if nt else None,
                              base + ' tau={} sigma={} x0={} xr={} y={} n={}'.format(
                                  fs(mid[3][0]), fs(mid[3][1]), fl(mid[0]), fl(mid[1]), fl(mid[2]), n - a),
                              st2, log2, extras(st2, end, inexact)))
            ctx.hit('model/pdhg_acc/resumed(steps handed back)')
            if mode != 'none' and a >= 1:
                # the excluded class: x_relax and y passed back, but the ORIGINAL tau, sigma
                st3, _, end3 = call(mid, n - a, steps=(p['tau'], p['sigma']))
                ctx.hit('excluded/accelerated pdhg resumed with the original steps: ' +
                        ('differs' if st3 != 'ok' or sl.arrays_differ([end3[0]], [full[0]]) else 'same'))
    return cases


def family_cg_restart(ctx, r, exact, n, opaque=False):
    """conjugate_gradient / conjugate_gradient_normal called AGAIN with the returned x: not a
    resumption but a restart (C11.cg_restart_state: x and the residual are carried, the search
    direction is reset).  Oracle (real code only): a call with niter=0 leaves x alone; the callback
    sees one iterate per executed iteration, the last being the result; the FIRST iterate of the
    second call is the exact-line-search steepest-descent step from x_n (what a restart does),
    computed here with numpy.  Model: CgP.runSplit / CgnP.runSplit."""
    import odl
    from odl.solvers import conjugate_gradient, conjugate_gradient_normal
    variant = r.choice(['cg', 'cgn'])
    d = r.randint(2, 4)
    if variant == 'cg':
        B = sl.small_int_matrix(r, d, d)
        M = B.T.dot(B) + np.eye(d)              # symmetric positive definite, integer entries
        fn = conjugate_gradient
    else:
        M = sl.small_int_matrix(r, r.randint(2, 4), d)
        fn = conjugate_gradient_normal
    rhs = sl.dy_vec(r, M.shape[0], 16, 8)
    x0 = sl.dy_vec(r, d, 16, 8)
    special = r.random()
    spd = True
    if special < 0.2:
        rhs = M.dot(x0)                          # already solved: `return` before / in the first iteration
        ctx.hit('model/cg_restart/early-return(start is the solution)/' + variant)
    elif special < 0.3 and variant == 'cg':
        # symmetric INDEFINITE operator and a residual with <p, A p> = 0: `if inner_p_d == 0.0: return`
        M = np.diag([1.0, -1.0] + [1.0] * (d - 2))
        x0, rhs, spd = np.zeros(d), np.array([1.0, 1.0] + [0.0] * (d - 2)), False
        ctx.hit('model/cg_restart/early-return(inner_p_d == 0)')
    op = odl.MatrixOperator(M)
    a, b = r.randint(0, 3), r.randint(0, 3)
    p = dict(solver='cg_restart', opkind='{}{}x{}'.format(variant, M.shape[0], d), fk=variant, gk='-',
             x0=x0, cseed=r.cseed, exact=exact, opaque=opaque)
    key = '{} called again with the returned x (restart) {}'.format(fn.__name__, p['opkind'])

    def call(x_start, k, mk=unflat):
        x = mk(op.domain, x_start)
        rec = Recorder()
        st, _ = guarded(fn, op, x, mk(op.range, rhs), niter=k, callback=rec)
        return st, rec.iterates, flat(x).copy()
    st1, log1, mid = call(x0, a)
    st2, log2, end = call(mid, b)
    st = st1 if st1 != 'ok' else st2
    if st != 'ok':
        ctx.err(err_kind(st))
    else:
        for k, lg, res, start in ((a, log1, mid, x0), (b, log2, end, mid)):
            if len(lg) > k or (lg and np.any(lg[-1] != res)) or (not lg and np.any(res != start)):
                viol(ctx, key + ': callback', '{} callbacks in {} iterations, last {} result {} start {}'.format(
                    len(lg), k, lg[-1] if lg else None, res, start), p, n=a, m=b)
        if log2:
            if variant == 'cg':
                res = rhs - M.dot(mid)
                den = res.dot(M.dot(res))
                want = mid + (res.dot(res) / den) * res if den else mid
            else:
                res = M.T.dot(rhs - M.dot(mid))
                q = M.dot(res)
                want = mid + (res.dot(res) / q.dot(q)) * res if q.dot(q) else mid
            dd = sl.arrays_differ([log2[0]], [want])
            if dd:
                viol(ctx, key + ': first iterate of the second call',
                     'is not the exact-line-search steepest-descent step from the returned x: ' + dd,
                     p, n=a, m=b)
        # a restart is a complete CG run from x_n: d further iterations solve the (normal) equations
        # (well-conditioned small systems only; this is what a wrong carried residual / direction breaks)
        if (variant == 'cg' and spd) or (variant == 'cgn' and np.linalg.matrix_rank(M) == d
                                         and np.linalg.cond(M) < 50):
            st_c, _, xc = call(mid, d)
            res = rhs - M.dot(xc) if variant == 'cg' else M.T.dot(rhs - M.dot(xc))
            scale = 1.0 + float(np.max(np.abs(rhs))) * (1.0 if variant == 'cg' else float(np.max(np.abs(M))) * d)
            ctx.hit('oracle/cg_restart: second call with dim iterations solves the system')
            if st_c != 'ok' or not sl.finite(res) or float(np.max(np.abs(res))) > 1e-6 * scale:
                viol(ctx, key + ': second call with niter = dim', 'does not solve the {}equations: residual {} ({})'.format(
                    '' if variant == 'cg' else 'normal ', res, st_c), p, n=a, m=d)
        st_d, log_d, end_d = call(mid, b, sl.unflat_distinct)
        ctx.hit('resume/equal-distinct-space/cg_restart')
        if st_d != 'ok' or sl.arrays_differ(log_d, log2):
            viol(ctx, key + ' in equal but separately built spaces', 'iterates differ ({})'.format(st_d),
                 p, n=a, m=b)
        st_f, log_f, full = call(x0, a + b)
        ctx.hit('excluded/{} n then m vs n+m at once: {}'.format(
            variant, 'differs' if st_f != 'ok' or sl.arrays_differ([full], [end]) else 'same'))
    log = list(log1) + list(log2)
    sig = ('model', 'cg_restart', p['opkind'], a, b)
    nt = st == 'ok' and nontrivial(log, x0)
    A, At = wire_op(op)
    if variant == 'cg':
        line = 'cgsplit A={} rhs={} x0={} n={} m={}'.format(fmat(A), fl(rhs), fl(x0), a, b)
    else:
        line = 'cgnsplit A={} At={} rhs={} x0={} n={} m={}'.format(fmat(A), fmat(At), fl(rhs), fl(x0), a, b)
    ctx.hit('model/cg_restart/' + variant)
    ctx.hit('model/cg_restart/split=' + ('trivial' if a == 0 or b == 0 else 'proper'))
    # the model stops when the residual is EXACTLY zero, the float code goes on with residuals of
    # rounding size: then only the iterates up to the model's stop are compared
    return [Case(desc_of(p, n=a, m=b), sig if nt else None, line, st, log,
                 {'x': end, '_prefix_if_model_stopped': True, '_inexact': True} if st == 'ok' else {})]


def family_kaczmarz_random(ctx, r, exact, n, opaque=False):
    """kaczmarz(random=True): the permutations come from numpy's GLOBAL generator, which survives
    between calls.  Oracle (real code only): seed, run n+m sweeps; seed again, run n sweeps, then m
    more WITHOUT re-seeding: same iterates (C11.resume_kaczmarz_random); re-seeding in between is the
    excluded class.  Model: KaczmarzP.runOrd with the permutations numpy drew, fresh and resumed."""
    from odl.solvers import kaczmarz
    p = gen_kaczmarz(r, exact, opaque)
    p.update(solver='kaczmarz_random', cseed=r.cseed, exact=exact, opaque=opaque)
    ops, dom, m = p['ops'], p['ops'][0].domain, p['m']
    n = min(n, 8)
    npseed = r.randint(0, 2 ** 31 - 1)
    a = r.randint(0, n)
    key = 'kaczmarz(random=True, {}) resume n+m with the numpy generator running on ranges={} proj={}'.format(
        p['cb'], p['opkind'], p['pspec'])

    def call(x_start, k, mk=unflat):
        x = mk(dom, x_start)
        rec = Recorder()
        st, _ = guarded(kaczmarz, ops, x, [mk(o.range, b) for o, b in zip(ops, p['rhs'])], k,
                        omega=p['omega'], projection=p['proj'], random=True, callback=rec,
                        callback_loop=p['cb'])
        return st, rec.iterates, flat(x).copy()
    np.random.seed(npseed)
    orders = [[int(i) for i in np.random.permutation(range(m))] for _ in range(n)]
    np.random.seed(npseed)
    st, log, full = call(p['x0'], n)
    np.random.seed(npseed)
    st1, log1, mid = call(p['x0'], a)
    st2, log2, end = call(mid, n - a, sl.unflat_distinct if r.random() < 0.3 else unflat)
    ctx.hit('oracle/resume-splits')
    if st != 'ok':
        ctx.err(err_kind(st))
    elif st1 != 'ok' or st2 != 'ok':
        viol(ctx, key, 'split run {}+{} failed ({}, {})'.format(a, n - a, st1, st2), p, n=n, split=[a, n - a])
    else:
        d = sl.arrays_differ([end], [full]) or sl.arrays_differ(list(log1) + list(log2), log)
        if d:
            viol(ctx, key, '{}+{} sweeps differ from {}: {}'.format(a, n - a, n, d), p, n=n, split=[a, n - a])
        want = n * (m if p['cb'] == 'inner' else 1)
        if len(log) != want or (n and np.any(log[-1] != full)):
            viol(ctx, 'kaczmarz(random=True, {}) callback ranges={}'.format(p['cb'], p['opkind']),
                 'callback called {} times, expected {}; last vs result {}'.format(
                     len(log), want, None if not log else (log[-1], full)), p, n=n)
        np.random.seed(npseed)
        call(p['x0'], a)
        np.random.seed(npseed)                  # the excluded class: generator re-seeded between the calls
        st3, _, end3 = call(mid, n - a)
        ctx.hit('excluded/kaczmarz random order, generator re-seeded between the calls: ' +
                ('differs' if st3 != 'ok' or sl.arrays_differ([end3], [full]) else 'same'))
    sig = ('model', 'kaczmarz_random', p['opkind'], p['pspec'], p['cb'], steps_class(exact), n)
    nt = st == 'ok' and nontrivial(log, p['x0'])
    mats = [wire_op(o) for o in ops]
    rid = [min(i for i in range(m) if ops[i].range == o.range) for o in ops]
    om = p['omega'] if isinstance(p['omega'], list) else [p['omega']] * m
    fields = ' '.join('A{0}={1} At{0}={2} rhs{0}={3}'.format(
        i, fmat(mats[i][0]), fmat(mats[i][1]), fl(p['rhs'][i])) for i in range(m))

    def line(x_start, k, os):
        return 'kaczmarz m={} {} omega={} proj={} rid={} cb={} x0={} n={} orders={}'.format(
            m, fields, fl(om), p['pspec'], ','.join(map(str, rid)), p['cb'], fl(x_start), k,
            ';'.join(','.join(map(str, o)) for o in os))
    cases = []
    if n >= 1:
        cases.append(Case(desc_of(p, n=n, npseed=npseed), sig if nt else None,
                          line(p['x0'], n, orders), st, log, {'x': full} if st == 'ok' else {}))
        ctx.hit('model/kaczmarz_random/fresh')
    if st == 'ok' and st1 == 'ok' and 0 < a < n:
        cases.append(Case(desc_of(p, n=n - a, resumed_after=a, npseed=npseed),
                          sig + ('resumed',) if nt else None, line(mid, n - a, orders[a:]), st2, log2,
                          {'x': end} if st2 == 'ok' else {}))
        ctx.hit('model/kaczmarz_random/resumed(remaining orders)')
    return cases


# ---------------------------------------------------------------------------
# ROUND 5: strata for the anchored functions no stream entered (docs/covmap/C11.md)

def _neg_list(spec_list):
    return fl([-v for v in core.pfl(spec_list)])


def family_dca(ctx, r, exact, n, opaque=False):
    """difference_convex.dca / prox_dca: the whole state is the iterate -> the split-run oracle
    applies in full (all splittings n = a + b), one callback per iteration.  Model: both loop bodies
    are instances of ProxGradP.step (lam = 1): prox_dca is x <- prox_{gamma f}(x + gamma grad g(x)),
    i.e. step size -gamma; dca is x <- grad f*(grad g(x)), i.e. 'proximal' grad f*, 'gradient'
    x - grad g(x), step 1."""
    import odl
    from odl.solvers.nonsmooth.difference_convex import dca, prox_dca
    variant = r.choice(['dca', 'prox_dca'])
    d = r.randint(1, 4)
    space = odl.rn(d) if r.random() < 0.7 else odl.uniform_discr(0, d, d)
    G = sl.functional_zoo(r, space, smooth=True, exact=exact)
    if variant == 'dca':
        F = sl.functional_zoo(r, space, smooth=True, exact=exact)
        gamma = 1.0
        pf = {'l2sq': lambda: 'scale:1/2', 'half_l2sq': lambda: 'id',
              'l2sq_t': lambda: 'affine:1/2:' + F.prox(1).split(':')[1]}[F.name]()
        gparts = G.grad.split(':')
        gg = {'scale': lambda: 'scale:-1', 'id': lambda: 'scale:0',
              'affine': lambda: 'affine:-1:' + _neg_list(gparts[2])}[gparts[0]]()
        mgamma = 1
        n = min(n, 12)
    else:
        F = sl.functional_zoo(r, space, exact=exact)
        gamma = sl.pick_step(r, exact)
        pf, gg, mgamma = F.prox(gamma), G.grad, -core.frac(gamma)
        n = min(n, 12)
    p = dict(solver='dca', opkind=variant, space=space, fk=F.name, gk=G.name, gamma=gamma,
             x0=sl.dy_vec(r, d, 16, 8), cseed=r.cseed, exact=exact, opaque=opaque)

    def runner(state, k, mode='same'):
        mk = sl.unflat_distinct if mode == 'distinct-space' else unflat
        x = mk(space, p['x0'] if state is None else state[0])
        rec = Recorder()
        if variant == 'dca':
            st, _ = guarded(dca, x, F.f, G.f, k, callback=rec)
        else:
            st, _ = guarded(prox_dca, x, F.f, G.f, k, gamma, callback=rec)
        return st, rec.iterates, (flat(x).copy(),)
    runner.modes = ('distinct-space',)
    st, log, full = resume_oracle(ctx, p, n, runner, variant)
    if st == 'ok':
        check_callback(ctx, p, n, log, full[0], variant)
        if log:
            # the documented iteration, from the functionals' own maps (no solver, no model)
            xs = unflat(space, p['x0'])
            if variant == 'dca':
                st_w, want = guarded(lambda: F.f.convex_conj.gradient(G.f.gradient(xs)))
            else:
                st_w, want = guarded(lambda: F.f.proximal(gamma)(xs + gamma * G.f.gradient(xs)))
            dd = st_w if st_w != 'ok' else sl.arrays_differ([log[0]], [flat(want)])
            if dd:
                viol(ctx, '{} first iterate f={} g={}'.format(variant, p['fk'], p['gk']),
                     'is not the documented step from x0: ' + str(dd), p, n=n)
    sig = ('model', 'dca', variant, p['fk'], p['gk'], steps_class(exact), n)
    nt = st == 'ok' and nontrivial(log, p['x0'])
    line = 'proxgrad pf={} gg={} gamma={} lam=1 x0={} n={}'.format(pf, gg, fs(mgamma), fl(p['x0']), n)
    ctx.hit('model/dca/' + variant)
    return [Case(desc_of(p, n=n), sig if nt else None, line, st, log, {'x': full[0]} if st == 'ok' else {})]


def family_apg_restart(ctx, r, exact, n, opaque=False):
    """accelerated_proximal_gradient: momentum y and t are locals -> a second call is a restart.
    Oracle (real code only): one callback per iteration, the last being the result; niter=0 leaves
    x alone; the FIRST iterate of every call is one proximal_gradient iteration (lam=1) from the same
    x (C11.apg_first_step_is_proximal_gradient), computed with the real proximal_gradient.
    Model: ProxGradP.accRunSplit."""
    from odl.solvers import accelerated_proximal_gradient, proximal_gradient
    p = gen_proxgrad(r, exact, False)
    p.update(solver='apg_restart', cseed=r.cseed, exact=exact, opaque=opaque, lam=1.0)
    n = min(n, 8)
    a = r.randint(0, n)
    key = 'accelerated_proximal_gradient f={} g={}'.format(p['fk'], p['gk'])

    def call(x_start, k, mk=unflat):
        x = mk(p['space'], x_start)
        rec = Recorder()
        st, _ = guarded(accelerated_proximal_gradient, x, p['f'], p['g'], p['gamma'], k, callback=rec)
        return st, rec.iterates, flat(x).copy()
    st1, log1, mid = call(p['x0'], a)
    st2, log2, end = call(mid, n - a, sl.unflat_distinct if r.random() < 0.3 else unflat)
    st = st1 if st1 != 'ok' else st2
    if st != 'ok':
        ctx.err(err_kind(st))
    else:
        for k, lg, res, start in ((a, log1, mid, p['x0']), (n - a, log2, end, mid)):
            if len(lg) != k or (lg and np.any(lg[-1] != res)) or (not lg and np.any(res != start)):
                viol(ctx, key + ': callback', '{} callbacks in {} iterations; last {} result {} start {}'.format(
                    len(lg), k, lg[-1] if lg else None, res, start), p, n=a, m=n - a)
            if lg:
                xp = unflat(p['space'], start)
                stp, _ = guarded(proximal_gradient, xp, p['f'], p['g'], p['gamma'], 1)
                dd = stp if stp != 'ok' else sl.arrays_differ([lg[0]], [flat(xp)])
                if dd:
                    viol(ctx, key + ': first iterate of a call', 'is not the proximal_gradient iterate from '
                         'the same x: ' + str(dd), p, n=a, m=n - a)
        st_f, _, full = call(p['x0'], n)
        ctx.hit('excluded/accelerated_proximal_gradient n then m vs n+m: ' +
                ('differs' if st_f != 'ok' or sl.arrays_differ([full], [end]) else 'same'))
    log = list(log1) + list(log2)
    sig = ('model', 'apg_restart', p['fk'], p['gk'], steps_class(exact), a, n - a)
    nt = st == 'ok' and nontrivial(log, p['x0'])
    line = 'apgsplit pf={} gg={} gamma={} x0={} n={} m={}'.format(
        p['F'].prox(p['gamma']), p['G'].grad, fs(p['gamma']), fl(p['x0']), a, n - a)
    ctx.hit('model/apg_restart/split=' + ('trivial' if a in (0, n) else 'proper'))
    return [Case(desc_of(p, n=a, m=n - a), sig if nt else None, line, st, log,
                 {'x': end, '_inexact': True} if st == 'ok' else {})]


def family_dr_restart(ctx, r, exact, n, opaque=False):
    """douglas_rachford_pd (+ douglas_rachford_pd_stepsize, _operator_norms).  Oracle (real code only):
    one callback per iteration and the LAST callback iterate is the returned x (x.assign(p1));
    niter=0 leaves x alone; default step sizes (tau / sigma not given, numpy seeded) give the run
    with the values douglas_rachford_pd_stepsize returns, which for float norms are the documented
    closed forms.  Model: DrP.runSplit (the dual variables restart at zero in a second call)."""
    import odl
    from odl.solvers import douglas_rachford_pd
    from odl.solvers.nonsmooth.douglas_rachford import douglas_rachford_pd_stepsize
    p0 = gen_adupdates(r, exact, False)
    Ls, Gs, m = p0['Ls'], p0['Gs'], p0['m']
    dom = Ls[0].domain
    if r.random() < 0.1:
        Ls, Gs, m = [], [], 0                   # no operators: the `len(L) > 0` else-branches
        p0.update(opkind='none', gk='-')
        ctx.hit('model/dr_restart/no-operators')
    F = sl.functional_zoo(r, dom, exact=exact)
    tau = sl.pick_step(r, exact)
    sigma = [sl.pick_step(r, exact) for _ in range(m)]
    lam = r.choice([1.0, 1.0, 0.5, 1.5])
    lam_callable = r.random() < 0.3
    with_l = r.random() < 0.3
    Ll = [sl.functional_zoo(r, L.range, kind=r.choice(['l2sq', 'half_l2sq']), exact=exact) for L in Ls] \
        if with_l else None
    n = min(n, 8)
    a = r.randint(0, n)
    p = dict(solver='dr_restart', opkind=p0['opkind'], fk=F.name, gk=p0['gk'], tau=tau, m=m,
             x0=p0['x0'], cseed=r.cseed, exact=exact, opaque=opaque)
    key = 'douglas_rachford_pd ranges={} f={} g={}{}'.format(p['opkind'], p['fk'], p['gk'], ' l' if with_l else '')

    def call(x_start, k, mk=unflat, **over):
        x = mk(dom, x_start)
        rec = Recorder()
        kw = {'lam': (lambda _: lam) if lam_callable else lam}
        if with_l:
            kw['l'] = [q.f for q in Ll]
        st, _ = guarded(douglas_rachford_pd, x, F.f, [G.f for G in Gs], Ls, k, callback=rec,
                        tau=over.get('tau', tau), sigma=over.get('sigma', sigma), **kw)
        return st, rec.iterates, flat(x).copy()
    st1, log1, mid = call(p['x0'], a)
    st2, log2, end = call(mid, n - a, sl.unflat_distinct if r.random() < 0.3 else unflat)
    st = st1 if st1 != 'ok' else st2
    if st != 'ok':
        ctx.err(err_kind(st))
    else:
        for k, lg, res, start in ((a, log1, mid, p['x0']), (n - a, log2, end, mid)):
            if len(lg) != k or (lg and np.any(lg[-1] != res)) or (not lg and np.any(res != start)):
                viol(ctx, key + ': callback', '{} callbacks in {} iterations; last {} result {} start {}'.format(
                    len(lg), k, lg[-1] if lg else None, res, start), p, n=a, m=n - a)
        st_f, _, full = call(p['x0'], n)
        ctx.hit('excluded/douglas_rachford_pd n then m (v restarts at zero) vs n+m: ' +
                ('differs' if st_f != 'ok' or sl.arrays_differ([full], [end]) else 'same'))
        # default step sizes
        which = r.choice(['both-default', 'tau-given', 'sigma-given'])
    if st == 'ok' and m > 0:
        t_in = tau if which == 'tau-given' else None
        s_in = sigma if which == 'sigma-given' else None
        npseed = r.randint(0, 2 ** 31 - 1)
        np.random.seed(npseed)
        st_s, steps = guarded(douglas_rachford_pd_stepsize, Ls, t_in, s_in)
        np.random.seed(npseed)
        st_a, log_a, _ = call(p['x0'], n, tau=t_in, sigma=s_in)
        ctx.hit('oracle/dr_restart/stepsize=' + which)
        if st_s != 'ok' or st_a != 'ok':
            viol(ctx, key + ': default step sizes ' + which, 'failed: {} / {}'.format(st_s, st_a), p, n=n)
        else:
            st_b, log_b, _ = call(p['x0'], n, tau=steps[0], sigma=list(steps[1]))
            dd = st_b if st_b != 'ok' else sl.arrays_differ(log_a, log_b)
            if dd:
                viol(ctx, key + ': default step sizes ' + which, 'run with tau/sigma left out differs from the '
                     'run with the values of douglas_rachford_pd_stepsize: ' + str(dd), p, n=n)
        # closed forms on float norms (a mixture of floats and operators goes through _operator_norms)
        norms = [r.choice([0.5, 1.0, 2.0, 3.0]) for _ in range(m)]
        st_c, got = guarded(douglas_rachford_pd_stepsize, norms, t_in, s_in)
        if which == 'both-default':
            wt = 1.0 / sum(norms)
            want = (wt, [2.0 / (m * wt * c ** 2) for c in norms])
        elif which == 'tau-given':
            want = (tau, [2.0 / (m * tau * c ** 2) for c in norms])
        else:
            want = (2.0 / sum(si * c ** 2 for si, c in zip(sigma, norms)), sigma)
        if st_c != 'ok' or abs(got[0] - want[0]) > 1e-12 * abs(want[0]) or len(got[1]) != m or any(
                abs(u - v) > 1e-12 * abs(v) for u, v in zip(got[1], want[1])):
            viol(ctx, 'douglas_rachford_pd_stepsize closed form ' + which,
                 'norms {} tau {} sigma {}: got {} want {}'.format(norms, t_in, s_in, got, want), p, n=n)
    log = list(log1) + list(log2)
    sig = ('model', 'dr_restart', p['opkind'], p['fk'], p['gk'], with_l, lam, steps_class(exact), a, n - a)
    nt = st == 'ok' and nontrivial(log, p['x0'])
    mats = [wire_op(L) for L in Ls]
    fields = ' '.join('A{0}={1} At{0}={2} p{0}={3}{4}'.format(
        i, fmat(mats[i][0]), fmat(mats[i][1]), Gs[i].cprox(sigma[i]),
        ' pl{}={}'.format(i, Ll[i].cprox(sigma[i])) if with_l else '') for i in range(m))
    line = 'drsplit m={} {} pf={} tau={} sigma={} lam={} x0={} n={} k={}'.format(
        m, fields, F.prox(tau), fs(tau), fl(sigma), fs(lam), fl(p['x0']), a, n - a)
    ctx.hit('model/dr_restart/' + ('l-given' if with_l else 'l=None'))
    ctx.hit('model/dr_restart/lam=' + ('callable' if lam_callable else 'number'))
    return [Case(desc_of(p, n=a, m=n - a), sig if nt else None, line, st, log,
                 {'x': end} if st == 'ok' else {})]


def family_gauss_newton(ctx, r, exact, n, opaque=False):
    """gauss_newton (+ exp_zero_seq): x0 = x.copy(), the warm start dx of the inner CG and the position
    in zero_seq are hidden state -> a second call is a restart.  Oracle (real code only): one callback
    per iteration, the last being the result; niter=0 leaves x alone; exp_zero_seq(b) yields b^-(k+1);
    REPEATABILITY: the same call made twice gives the same iterates, with a fresh zero_seq passed in
    and with the default zero_seq; n then m with ONE generator object shared = ... is the excluded class."""
    import odl
    from odl.solvers import gauss_newton
    from odl.solvers.iterative.iterative import exp_zero_seq
    d = r.randint(1, 3)
    M = sl.small_int_matrix(r, r.randint(1, 3), d)
    A = odl.MatrixOperator(M)
    nl = r.random() < 0.4
    op = A * odl.PowerOperator(A.domain, 2) if nl else A
    rhs = sl.dy_vec(r, M.shape[0], 8, 8)
    x0 = sl.dy_vec(r, d, 8, 8)
    base = r.choice([2.0, 4.0, 2.0, 1.5])
    n = min(n, 4)
    p = dict(solver='gauss_newton', opkind='matrix*square' if nl else 'matrix', fk='base={}'.format(base),
             gk='-', x0=x0, cseed=r.cseed, exact=exact, opaque=opaque)
    key = 'gauss_newton opkind={}'.format(p['opkind'])
    seq = exp_zero_seq(base)
    got = [next(seq) for _ in range(5)]
    if any(abs(v - base ** (-(k + 1))) > 1e-15 * base ** (-(k + 1)) for k, v in enumerate(got)):
        viol(ctx, 'exp_zero_seq closed form', 'base {}: {}'.format(base, got), p, n=n)

    def call(x_start, k, zs='fresh'):
        x = unflat(op.domain, x_start)
        rec = Recorder()
        kw = {} if zs == 'default' else {'zero_seq': exp_zero_seq(base) if zs == 'fresh' else zs}
        st, _ = guarded(gauss_newton, op, x, unflat(op.range, rhs), k, callback=rec, **kw)
        return st, rec.iterates, flat(x).copy()
    st, log, full = call(x0, n)
    if st != 'ok':
        ctx.err(err_kind(st))
    else:
        if not all(sl.finite(v) for v in log):
            ctx.hit('gauss_newton/non-finite run (skipped)')
        else:
            if len(log) != n or (n and np.any(log[-1] != full)):
                viol(ctx, key + ': callback', '{} callbacks in {} iterations'.format(len(log), n), p, n=n)
            st0, log0, x_0 = call(x0, 0)
            if st0 != 'ok' or log0 or np.any(x_0 != x0):
                viol(ctx, key + ': niter=0', 'changes x or calls back ({})'.format(st0), p, n=n)
            st_r, log_r, _ = call(x0, n)
            dd = st_r if st_r != 'ok' else sl.arrays_differ(log_r, log)
            if dd:
                viol(ctx, key + ': the same call twice, fresh zero_seq passed', 'iterates differ: ' + str(dd), p, n=n)
            st_a, log_a, _ = call(x0, n, 'default')
            st_b, log_b, _ = call(x0, n, 'default')
            dd = (st_a if st_a != 'ok' else None) or (st_b if st_b != 'ok' else None) or \
                sl.arrays_differ(log_a, log_b)
            ctx.hit('oracle/gauss_newton/repeatability')
            if dd and n:
                viol(ctx, 'gauss_newton: the same call twice with the DEFAULT zero_seq',
                     'iterates differ (the default generator is shared by all calls): ' + str(dd), p, n=n)
            if n >= 2:
                zs = exp_zero_seq(base)
                st1, _, mid = call(x0, n // 2, zs)
                st2, _, end = call(mid, n - n // 2, zs)
                ctx.hit('excluded/gauss_newton n then m (x0, dx restart) vs n+m: ' +
                        ('differs' if st1 != 'ok' or st2 != 'ok' or sl.arrays_differ([end], [full]) else 'same'))
    ctx.case(('oracle', 'gauss_newton', p['opkind'], base, n) if st == 'ok' and nontrivial(log, x0) else None)
    ctx.hit('oracle/gauss_newton/' + ('nonlinear-op' if nl else 'linear-op'))
    return []


def family_adam(ctx, r, exact, n, opaque=False):
    """adam: the moment estimates m, v are locals -> restart.  Oracle (real code only): at most one
    callback per iteration, the last being the result; maxiter=0 and a gradient below tol leave x alone;
    the first step from any x is -learning_rate*sqrt(1-beta2)/(1-beta1) * m/(sqrt(v)+eps) with
    m = (1-beta1) grad, v = (1-beta2) grad^2 (numpy, from the real gradient)."""
    import odl
    from odl.solvers.smooth.gradient import adam
    d = r.randint(1, 3)
    space = odl.rn(d)
    G = sl.functional_zoo(r, space, smooth=True, exact=exact)
    x0 = sl.dy_vec(r, d, 16, 8)
    lr, b1, b2 = r.choice([0.125, 0.5, 1e-3]), r.choice([0.9, 0.5]), r.choice([0.999, 0.75])
    tol = r.choice([1e-16, 1e-16, 1e6])
    n = min(n, 8)
    p = dict(solver='adam', opkind='space', fk=G.name, gk='tol={}'.format(tol), x0=x0, cseed=r.cseed,
             exact=exact, opaque=opaque)
    key = 'adam f={}'.format(G.name)

    def call(x_start, k):
        x = unflat(space, x_start)
        rec = Recorder()
        st, _ = guarded(adam, G.f, x, learning_rate=lr, beta1=b1, beta2=b2, maxiter=k, tol=tol, callback=rec)
        return st, rec.iterates, flat(x).copy()
    st, log, full = call(x0, n)
    if st != 'ok':
        ctx.err(err_kind(st))
    else:
        g0 = flat(G.f.gradient(unflat(space, x0)))
        small = float(np.sqrt(np.sum(g0 ** 2))) < tol
        if len(log) > n or (log and np.any(log[-1] != full)) or (not log and np.any(full != x0)):
            viol(ctx, key + ': callback', '{} callbacks in {} iterations'.format(len(log), n), p, n=n)
        if small and log:
            viol(ctx, key + ': tolerance', 'gradient norm below tol but {} steps taken'.format(len(log)), p, n=n)
        ctx.hit('oracle/adam/' + ('stopped-by-tol' if small else 'steps'))
        if log and not small:
            want = x0 - lr * np.sqrt(1 - b2) / (1 - b1) * ((1 - b1) * g0) / (np.sqrt((1 - b2) * g0 ** 2) + 1e-8)
            dd = sl.arrays_differ([log[0]], [want])
            if dd:
                viol(ctx, key + ': first step', dd, p, n=n)
        if n >= 2 and not small:
            st1, _, mid = call(x0, n // 2)
            st2, _, end = call(mid, n - n // 2)
            ctx.hit('excluded/adam n then m (moments restart) vs n+m: ' +
                    ('differs' if st1 != 'ok' or st2 != 'ok' or sl.arrays_differ([end], [full]) else 'same'))
    ctx.case(('oracle', 'adam', G.name, lr, b1, b2, tol, n) if st == 'ok' and nontrivial(log, x0) else None)
    return []


def family_refusals(ctx, r, exact, n, opaque=False):
    """Argument validation and defaults of the anchored solvers.  Oracle (real code only): a call the
    solver must refuse raises the documented exception type BEFORE touching x (x is bit-identical
    afterwards, no callback); pdhg / landweber with their default step (numpy seeded) run exactly like
    the call with the value pdhg_stepsize / 1/norm^2 gives; pdhg_stepsize on a float norm returns the
    documented closed forms."""
    import odl
    S = odl.solvers
    from odl.solvers.nonsmooth.admm import admm_linearized
    from odl.solvers.nonsmooth.alternating_dual_updates import adupdates
    from odl.solvers.nonsmooth.difference_convex import dca, prox_dca, doubleprox_dc
    from odl.solvers.nonsmooth.douglas_rachford import douglas_rachford_pd, douglas_rachford_pd_stepsize
    from odl.solvers.nonsmooth.primal_dual_hybrid_gradient import pdhg, pdhg_stepsize
    from odl.solvers.smooth.gradient import adam
    d, m = r.randint(1, 3), r.randint(1, 3)
    M = sl.small_int_matrix(r, m, d)
    A = odl.MatrixOperator(M)
    X, Y = A.domain, A.range
    other = odl.rn(d + 1)
    f, g = S.L1Norm(X), S.L2NormSquared(Y)
    fo = S.L1Norm(other)
    x0 = sl.dy_vec(r, d, 16, 8)
    I = odl.IdentityOperator(X)
    sq = odl.MatrixOperator(np.eye(d))
    rec = Recorder()
    ok = (TypeError, ValueError)
    table = [
        ('pdhg L not an operator', lambda x: pdhg(x, f, g, 'L', 2, tau=0.5, sigma=0.5), ok, X),
        ('pdhg x not in L.domain', lambda x: pdhg(x, fo, g, A, 2, tau=0.5, sigma=0.5), ok, other),
        ('pdhg f.domain != L.domain', lambda x: pdhg(x, fo, g, A, 2, tau=0.5, sigma=0.5), ok, X),
        ('pdhg niter negative', lambda x: pdhg(x, f, g, A, -1, tau=0.5, sigma=0.5), ok, X),
        ('pdhg theta out of range', lambda x: pdhg(x, f, g, A, 2, tau=0.5, sigma=0.5, theta=1.5), ok, X),
        ('pdhg gamma_primal negative', lambda x: pdhg(x, f, g, A, 2, tau=0.5, sigma=0.5, gamma_primal=-1), ok, X),
        ('pdhg gamma_dual negative', lambda x: pdhg(x, f, g, A, 2, tau=0.5, sigma=0.5, gamma_dual=-1), ok, X),
        ('pdhg both gammas', lambda x: pdhg(x, f, g, A, 2, tau=0.5, sigma=0.5, gamma_dual=1, gamma_primal=1), ok, X),
        ('pdhg callback not callable', lambda x: pdhg(x, f, g, A, 2, tau=0.5, sigma=0.5, callback=3), ok, X),
        ('pdhg x_relax not in domain', lambda x: pdhg(x, f, g, A, 2, tau=0.5, sigma=0.5, x_relax=other.zero()), ok, X),
        ('pdhg y not in range', lambda x: pdhg(x, f, g, A, 2, tau=0.5, sigma=0.5, y=odl.rn(m + 1).zero()), ok, X),
        ('admm L not an operator', lambda x: admm_linearized(x, f, g, 'L', 0.5, 0.5, 2), ok, X),
        ('admm x not in L.domain', lambda x: admm_linearized(x, fo, g, A, 0.5, 0.5, 2), ok, other),
        ('admm tau non-positive', lambda x: admm_linearized(x, f, g, A, 0.0, 0.5, 2), ok, X),
        ('admm sigma non-positive', lambda x: admm_linearized(x, f, g, A, 0.5, -1.0, 2), ok, X),
        ('admm niter fractional', lambda x: admm_linearized(x, f, g, A, 0.5, 0.5, 1.5), ok, X),
        ('admm callback not callable', lambda x: admm_linearized(x, f, g, A, 0.5, 0.5, 2, callback=3), ok, X),
        ('adupdates len(L) != len(g)', lambda x: adupdates(x, [g], [A, A], 1.0, [0.5], 2), ok, X),
        ('adupdates len(inner_stepsizes)', lambda x: adupdates(x, [g], [A], 1.0, [0.5, 0.5], 2), ok, X),
        ('adupdates domains differ', lambda x: adupdates(x, [g, fo], [A, odl.IdentityOperator(other)], 1.0, [0.5, 0.5], 2), ok, X),
        ('adupdates range != g.domain', lambda x: adupdates(x, [S.L1Norm(odl.rn(m + 1))], [A], 1.0, [0.5], 2), ok, X),
        ('adupdates callback_loop', lambda x: adupdates(x, [g], [A], 1.0, [0.5], 2, callback=rec, callback_loop='both'), ok, X),
        ('landweber x not in domain', lambda x: S.landweber(A, x, Y.zero(), 2, omega=0.1), ok, other),
        ('kaczmarz domains differ', lambda x: S.kaczmarz([A, odl.IdentityOperator(other)], x, [Y.zero(), other.zero()], 2), ok, X),
        ('kaczmarz x not in domain', lambda x: S.kaczmarz([A], x, [Y.zero()], 2), ok, other),
        ('kaczmarz len(rhs)', lambda x: S.kaczmarz([A, A], x, [Y.zero()], 2), ok, X),
        ('conjugate_gradient domain != range', lambda x: S.conjugate_gradient(odl.MatrixOperator(np.ones((d + 1, d))), x, other.zero(), 2), ok, X),
        ('conjugate_gradient x not in domain', lambda x: S.conjugate_gradient(sq, x, X.zero(), 2), ok, other),
        ('conjugate_gradient_normal x not in domain', lambda x: S.conjugate_gradient_normal(A, x, Y.zero(), 2), ok, other),
        ('osmlem len(data)', lambda x: S.osmlem([A, A], x, [Y.one()], 2), ok, X),
        ('osmlem x not in domains', lambda x: S.osmlem([A], x, [Y.one()], 2), ok, other),
        ('doubleprox_dc phi.domain', lambda x: doubleprox_dc(x, Y.zero(), f, fo, g, A, 2, 0.5, 0.5), ok, X),
        ('doubleprox_dc K.domain', lambda x: doubleprox_dc(x, Y.zero(), fo, fo, g, A, 2, 0.5, 0.5), ok, other),
        ('doubleprox_dc K.range', lambda x: doubleprox_dc(x, Y.zero(), f, S.L2NormSquared(X), S.L1Norm(odl.rn(m + 1)), A, 2, 0.5, 0.5), ok, X),
        ('dca domains differ', lambda x: dca(x, S.L2NormSquared(X), S.L2NormSquared(other), 2), ok, X),
        ('prox_dca domains differ', lambda x: prox_dca(x, f, S.L2NormSquared(other), 2, 0.5), ok, X),
        ('proximal_gradient x not in f.domain', lambda x: S.proximal_gradient(x, fo, S.L2NormSquared(X), 0.5, 2), ok, X),
        ('proximal_gradient x not in g.domain', lambda x: S.proximal_gradient(x, f, S.L2NormSquared(other), 0.5, 2), ok, X),
        ('proximal_gradient gamma non-positive', lambda x: S.proximal_gradient(x, f, S.L2NormSquared(X), 0.0, 2), ok, X),
        ('proximal_gradient niter fractional', lambda x: S.proximal_gradient(x, f, S.L2NormSquared(X), 0.5, 1.5), ok, X),
        ('accelerated_proximal_gradient x not in f.domain', lambda x: S.accelerated_proximal_gradient(x, fo, S.L2NormSquared(X), 0.5, 2), ok, X),
        ('accelerated_proximal_gradient x not in g.domain', lambda x: S.accelerated_proximal_gradient(x, f, S.L2NormSquared(other), 0.5, 2), ok, X),
        ('accelerated_proximal_gradient gamma non-positive', lambda x: S.accelerated_proximal_gradient(x, f, S.L2NormSquared(X), -0.5, 2), ok, X),
        ('accelerated_proximal_gradient niter fractional', lambda x: S.accelerated_proximal_gradient(x, f, S.L2NormSquared(X), 0.5, 1.5), ok, X),
        ('steepest_descent x not in domain', lambda x: S.steepest_descent(S.L2NormSquared(X), x, line_search=0.1, maxiter=2), ok, other),
        ('adam x not in domain', lambda x: adam(S.L2NormSquared(X), x, maxiter=2), ok, other),
        ('gauss_newton x not in domain', lambda x: S.gauss_newton(A, x, Y.zero(), 2), ok, other),
        ('douglas_rachford_pd L not operators', lambda x: douglas_rachford_pd(x, f, [g], ['L'], 2, tau=0.5, sigma=[0.5]), ok, X),
        ('douglas_rachford_pd non-linear L', lambda x: douglas_rachford_pd(x, f, [S.L2NormSquared(X)], [odl.PowerOperator(X, 2)], 2, tau=0.5, sigma=[0.5]), ok, X),
        ('douglas_rachford_pd x not in domains', lambda x: douglas_rachford_pd(x, fo, [g], [A], 2, tau=0.5, sigma=[0.5]), ok, other),
        ('douglas_rachford_pd len(g)', lambda x: douglas_rachford_pd(x, f, [g, g], [A], 2, tau=0.5, sigma=[0.5]), ok, X),
        ('douglas_rachford_pd len(sigma)', lambda x: douglas_rachford_pd(x, f, [g], [A], 2, tau=0.5, sigma=[0.5, 0.5]), ok, X),
        ('douglas_rachford_pd len(l)', lambda x: douglas_rachford_pd(x, f, [g], [A], 2, tau=0.5, sigma=[0.5], l=[g, g]), ok, X),
        ('douglas_rachford_pd lam out of range', lambda x: douglas_rachford_pd(x, f, [g], [A], 2, tau=0.5, sigma=[0.5], lam=2.5), ok, X),
        ('douglas_rachford_pd unknown keyword', lambda x: douglas_rachford_pd(x, f, [g], [A], 2, tau=0.5, sigma=[0.5], foo=1), ok, X),
        ('douglas_rachford_pd_stepsize invalid entry', lambda x: douglas_rachford_pd_stepsize([None, 1.0]), ok, X),
    ]
    p = dict(solver='refusals', opkind='matrix{}x{}'.format(m, d), fk='-', gk='-', x0=x0, cseed=r.cseed,
             exact=exact, opaque=opaque)
    for name, fn, excs, space in r.sample(table, 15):
        start = sl.dy_vec(r, size_of(space), 16, 8)
        x = unflat(space, start)
        rec.iterates = []
        try:
            fn(x)
            out = 'no exception'
        except excs:
            out = None
        except Exception as e:  # noqa
            out = 'raised {}: {}'.format(type(e).__name__, str(e)[:120])
        ctx.hit('refusal/' + name)
        if out is None and (np.any(flat(x) != start) or rec.iterates):
            out = 'x was modified / callback was called before the refusal'
        if out:
            viol(ctx, 'refused call: ' + name, out, p, n=n)
    # defaults
    npseed = r.randint(0, 2 ** 31 - 1)
    k = r.randint(1, 4)
    which = r.choice(['both-default', 'tau-given', 'sigma-given'])
    t_in = 0.25 if which == 'tau-given' else None
    s_in = 0.5 if which == 'sigma-given' else None
    np.random.seed(npseed)
    st_s, steps = guarded(pdhg_stepsize, A, t_in, s_in)

    def run_pdhg(tau, sigma):
        x = unflat(X, x0)
        rc = Recorder()
        np.random.seed(npseed)
        st, _ = guarded(pdhg, x, f, g, A, k, tau=tau, sigma=sigma, callback=rc)
        return st, rc.iterates
    st_a, log_a = run_pdhg(t_in, s_in)
    ctx.hit('oracle/pdhg default steps/' + which)
    if st_s != 'ok' or st_a != 'ok':
        viol(ctx, 'pdhg default step sizes ' + which, 'failed: {} / {}'.format(st_s, st_a), p, n=k)
    else:
        st_b, log_b = run_pdhg(steps[0], steps[1])
        dd = st_b if st_b != 'ok' else sl.arrays_differ(log_a, log_b)
        if dd:
            viol(ctx, 'pdhg default step sizes ' + which, 'differs from the run with pdhg_stepsize values: ' + str(dd), p, n=k)
    c = r.choice([0.5, 1.0, 2.0, 3.0])
    st_c, got = guarded(pdhg_stepsize, c, t_in, s_in)
    want = {'both-default': (np.sqrt(0.9) / c, np.sqrt(0.9) / c), 'tau-given': (0.25, 0.9 / (0.25 * c ** 2)),
            'sigma-given': (0.9 / (0.5 * c ** 2), 0.5)}[which]
    if st_c != 'ok' or any(abs(u - v) > 1e-12 * abs(v) for u, v in zip(got, want)):
        viol(ctx, 'pdhg_stepsize closed form ' + which, 'norm {}: got {} want {}'.format(c, got, want), p, n=k)
    if pdhg_stepsize(A, 0.25, 0.5) != (0.25, 0.5):
        viol(ctx, 'pdhg_stepsize both given', 'not returned as-is', p, n=k)
    # landweber(omega=None): 1 / norm(estimate)^2
    np.random.seed(npseed)
    st_n, nrm = guarded(A.norm, estimate=True)

    def run_lw(omega):
        x = unflat(X, x0)
        rc = Recorder()
        np.random.seed(npseed)
        st, _ = guarded(S.landweber, A, x, unflat(Y, sl.dy_vec(random.Random(npseed), m, 8, 8)), k, omega=omega, callback=rc)
        return st, rc.iterates
    st_a, log_a = run_lw(None)
    ctx.hit('oracle/landweber default omega')
    if st_n != 'ok' or st_a != 'ok':
        viol(ctx, 'landweber default omega', 'failed: {} / {}'.format(st_n, st_a), p, n=k)
    else:
        st_b, log_b = run_lw(1 / nrm ** 2)
        dd = st_b if st_b != 'ok' else sl.arrays_differ(log_a, log_b)
        if dd:
            viol(ctx, 'landweber default omega', 'differs from omega = 1/norm(estimate=True)^2: ' + str(dd), p, n=k)
    ctx.case(('oracle', 'refusals', p['opkind'], which))
    return []


# ---------------------------------------------------------------------------
# EXTRA ROUND: optimised vs reference over the FULL functional zoo in EVERY proximal slot

ZOO_KINDS = ['zero', 'l1', 'l1_t', 'a_l1', 'groupl1', 'groupl1_t', 'a_groupl1', 'l2', 'l2_t', 'l2sq',
             'l2sq_t', 'huber', 'kl', 'linf_ball', 'l2_ball', 'sepsum']
ZOO_SLOTS = {'admm': ('f', 'g'), 'dpdc': ('f', 'g'), 'adupdates': ('g0', 'g1')}


def full_zoo(r, space, kind):
    """functional of the given kind on a POWER space (so that group-L1 and separable sums exist)"""
    import odl
    S = odl.solvers
    n = size_of(space)
    t = unflat(space, sl.dy_vec(r, n, 8, 4))
    if kind == 'zero':
        return S.ZeroFunctional(space)
    if kind == 'l1':
        return S.L1Norm(space)
    if kind == 'l1_t':
        return S.L1Norm(space).translated(t)
    if kind == 'a_l1':
        return r.choice([0.5, 0.25]) * S.L1Norm(space)
    if kind == 'groupl1':
        return S.GroupL1Norm(space)
    if kind == 'groupl1_t':
        return S.GroupL1Norm(space).translated(t)
    if kind == 'a_groupl1':
        return r.choice([0.5, 0.25]) * S.GroupL1Norm(space)
    if kind == 'l2':
        return S.L2Norm(space)
    if kind == 'l2_t':
        return S.L2Norm(space).translated(t)
    if kind == 'l2sq':
        return S.L2NormSquared(space)
    if kind == 'l2sq_t':
        return S.L2NormSquared(space).translated(t)
    if kind == 'huber':
        return S.Huber(space, r.choice([0.5, 1.0]))
    if kind == 'kl':
        return S.KullbackLeibler(space, prior=unflat(space, np.abs(sl.dy_vec(r, n, 8, 4)) + 0.5))
    if kind == 'linf_ball':
        return S.IndicatorLpUnitBall(space, np.inf)
    if kind == 'l2_ball':
        return S.IndicatorLpUnitBall(space, 2)
    if kind == 'sepsum':
        return S.SeparableSum(*[r.choice([S.L1Norm, S.L2NormSquared, S.L2Norm])(sp) for sp in space])
    raise KeyError(kind)


def power_operator_zoo(r):
    """linear operator whose domain AND range are power spaces"""
    import odl
    k = r.randint(1, 3)
    base = odl.rn(r.randint(1, 3)) if r.random() < 0.7 else odl.uniform_discr(0, 2, 2)
    P = odl.ProductSpace(base, k)
    c = r.random()
    if c < 0.3:
        return 'ps-identity', odl.IdentityOperator(P)
    if c < 0.55:
        return 'ps-scaling', odl.ScalingOperator(P, r.choice([-2.0, 0.5, 2.0]))
    if isinstance(base, type(odl.rn(1))):
        M = odl.MatrixOperator(sl.small_int_matrix(r, r.randint(1, 3), base.size))
        return 'ps-diagonal(matrix)', odl.DiagonalOperator(*([M] * k))
    return 'ps-diagonal(scaling)', odl.DiagonalOperator(*[odl.ScalingOperator(base, r.choice([0.5, 2.0, -1.0]))
                                                           for _ in range(k)])


def family_zoo_slots(ctx, r, exact, n, opaque=False):
    """Optimised vs reference implementation (admm_linearized, doubleprox_dc, adupdates) with EVERY
    functional kind of the property statement - L1, group-L1 (plain, scaled, translated), L2, squared
    L2, Huber, KL, indicators of balls, separable sums, their translates - in EVERY proximal slot of
    the pair, on power spaces, iterates compared per iteration.  `.../nonzero` is hit when the
    optimised iterate after the first iteration is not zero (an in-place proximal that loses its input
    returns zero)."""
    pair = r.choice(['admm', 'dpdc', 'adupdates'])
    n = min(max(n, 2), 4)
    out_sig = None
    for slot in ZOO_SLOTS[pair]:
        for kind in ZOO_KINDS:
            kindname, L = power_operator_zoo(r)
            others = lambda sp: full_zoo(r, sp, r.choice(['l2sq', 'l1', 'zero', 'l2sq_t', 'groupl1']))
            x0 = sl.dy_vec(r, size_of(L.domain), 24, 8) + 0.0625
            if pair == 'admm':
                f = full_zoo(r, L.domain, kind) if slot == 'f' else others(L.domain)
                g = full_zoo(r, L.range, kind) if slot == 'g' else others(L.range)
                if kind == 'kl':
                    x0 = np.abs(x0) + 0.5
                p = dict(solver='zoo_slots', L=L, f=f, g=g, tau=sl.pick_step(r, True) / 4,
                         sigma=sl.pick_step(r, True), x0=x0)
                st_o, log_o, _ = impl_admm(p, 'opt', n)
                st_s, log_s, _ = impl_admm(p, 'simple', n)
            elif pair == 'dpdc':
                f = full_zoo(r, L.domain, kind) if slot == 'f' else others(L.domain)
                g = full_zoo(r, L.range, kind) if slot == 'g' else others(L.range)
                phi = full_zoo(r, L.domain, r.choice(['l2sq', 'l2sq_t', 'zero']))
                y0 = sl.dy_vec(r, size_of(L.range), 24, 8) + 0.0625
                if kind == 'kl':
                    x0, y0 = np.abs(x0) + 0.5, np.abs(y0) + 0.5
                p = dict(solver='zoo_slots', L=L, f=f, g=g, phi=phi, gamma=sl.pick_step(r, True) / 4,
                         mu=sl.pick_step(r, True) / 4, x0=x0, y0=y0)
                st_o, log_o, _, y_o = impl_dpdc(p, 'opt', n)
                st_s, log_s, y_s = 'ok', [], None
                for k in range(1, n + 1):
                    st_k, _, x_k, y_s = impl_dpdc(p, 'simple', k)
                    if st_k != 'ok':
                        st_s = st_k
                        break
                    log_s.append(x_k)
                if st_o == 'ok' and st_s == 'ok':
                    log_o, log_s = list(log_o) + [y_o], list(log_s) + [y_s]
            else:
                kn2, L2 = power_operator_zoo(r)
                import odl
                L2 = odl.IdentityOperator(L.domain) if L2.domain != L.domain else L2
                Ls = [L, L2]
                j = 0 if slot == 'g0' else 1
                Gs = [full_zoo(r, Ls[i].range, kind) if i == j else others(Ls[i].range) for i in range(2)]
                if kind == 'kl':
                    x0 = np.abs(x0) + 0.5
                p = dict(solver='zoo_slots', Ls=Ls, Gs=Gs, stepsize=sl.pick_step(r, True),
                         inner=[sl.pick_step(r, True) / 4, sl.pick_step(r, True) / 4], x0=x0, m=2)
                st_o, log_o, _ = impl_adupdates(p, 'opt', n, 'outer')
                st_s, log_s = 'ok', []
                for k in range(1, n + 1):
                    st_k, _, x_k = impl_adupdates(p, 'simple', k)
                    if st_k != 'ok':
                        st_s = st_k
                        break
                    log_s.append(x_k)
            tag = 'zoo_slots/{}/{}/{}'.format(pair, slot, kind)
            ctx.hit(tag)
            desc = dict(solver='zoo_slots', pair=pair, slot=slot, kind=kind, opkind=kindname,
                        x0=[float(v) for v in x0], cseed=r.cseed, exact=exact, opaque=opaque, n=n)
            key = 'optimised vs reference {} slot={} functional={}'.format(pair, slot, kind)
            if err_kind(st_o) != err_kind(st_s):
                ctx.violation(key, 'outcomes differ: optimised {} / reference {}'.format(st_o, st_s), desc)
            elif st_o != 'ok':
                ctx.err(err_kind(st_o))
                ctx.hit(tag + '/both-raise')
            else:
                if all(sl.finite(v) for v in list(log_o) + list(log_s)):
                    d = sl.arrays_differ(log_o, log_s)
                    if d:
                        ctx.violation(key, 'iterates differ ({}): {}'.format(kindname, d), desc)
                    if np.any(np.asarray(log_o[0]) != 0):
                        ctx.hit(tag + '/nonzero')
                    out_sig = ('oracle', 'zoo_slots', pair, kindname, n)
                else:
                    ctx.hit(tag + '/non-finite (skipped)')
    ctx.case(out_sig)
    return []


FAMILIES = {
    'admm': family_admm,
    'adupdates': family_adupdates,
    'dpdc': family_dpdc,
    'landweber': family_landweber,
    'kaczmarz': family_kaczmarz,
    'proxgrad': family_proxgrad,
    'osmlem': family_osmlem,
    'steepest': family_steepest,
    'pdhg': family_pdhg,
    'steepest_ls': family_steepest_ls,
    'resume_float32': family_resume_float32,
    'proxgrad_lam': family_proxgrad_lam,
    'pdhg_acc': family_pdhg_acc,
    'cg_restart': family_cg_restart,
    'kaczmarz_random': family_kaczmarz_random,
    'dca': family_dca,
    'apg_restart': family_apg_restart,
    'dr_restart': family_dr_restart,
    'gauss_newton': family_gauss_newton,
    'adam': family_adam,
    'refusals': family_refusals,
    'zoo_slots': family_zoo_slots,
}
EXPECTED_BRANCHES = [
    'model/admm/opt', 'model/admm/simple', 'model/adupdates/inner', 'model/adupdates/outer',
    'model/adupdates/simple', 'adupdates/inner=pointwise', 'adupdates/inner=scalar',
    'model/dpdc/opt', 'model/dpdc/simple', 'model/landweber/linear-op', 'model/landweber/nonlinear-op',
    'model/landweber/proj=none', 'model/landweber/proj=lower', 'model/landweber/proj=clamp',
    'model/kaczmarz/inner', 'model/kaczmarz/outer', 'model/proxgrad', 'model/mlem', 'model/osmlem',
    'model/osmlem/sensitivities=default', 'model/osmlem/sensitivities=element',
    'model/osmlem/sensitivities=float', 'model/osmlem/sensitivities=list',
    'model/steepest/full', 'model/steepest/stopped-early',           # SteepestP.step: tolerance return
    'model/pdhg/fresh', 'model/pdhg/resumed', 'model/pdhg/half-resumed(xr)',
    'model/pdhg/half-resumed(y)', 'model/pdhg/linear-op', 'model/pdhg/nonlinear-op',
    'compare/exact', 'compare/tolerance', 'oracle/resume-splits',
    'resume/equal-distinct-space/landweber', 'resume/equal-distinct-space/kaczmarz',
    'resume/equal-distinct-space/proxgrad', 'resume/equal-distinct-space/osmlem',
    'resume/equal-distinct-space/steepest', 'resume/equal-distinct-space/pdhg',
    'resume/distinct-operator/pdhg', 'resume/float32/landweber,pdhg', 'start/equal-distinct-space/admm',
    'start/equal-distinct-space/adupdates', 'start/equal-distinct-space/dpdc',
    'oracle/steepest_descent+BacktrackingLineSearch resume/stateless',
    'oracle/steepest_descent+BacktrackingLineSearch resume/estimate_step',
    # round 4
    'model/proxgrad_lam/fresh', 'model/proxgrad_lam/resumed(shifted)', 'model/proxgrad_lam/schedule=varying',
    'model/proxgrad_lam/schedule=constant', 'resume/equal-distinct-space/proxgrad_lam',
    'model/pdhg_acc/gamma=primal', 'model/pdhg_acc/gamma=dual', 'model/pdhg_acc/gamma=none',
    'model/pdhg_acc/fresh', 'model/pdhg_acc/resumed(steps handed back)', 'model/pdhg_acc/exact-sqrt',
    'resume/equal-distinct-space/pdhg_acc',
    'model/cg_restart/cg', 'model/cg_restart/cgn', 'model/cg_restart/split=trivial',
    'model/cg_restart/split=proper', 'resume/equal-distinct-space/cg_restart',
    'model/kaczmarz_random/fresh', 'model/kaczmarz_random/resumed(remaining orders)',
    'model/pdhg_acc/nonlinear-op', 'model/pdhg_acc/linear-op',
    # round 5
    'model/dca/dca', 'model/dca/prox_dca', 'resume/equal-distinct-space/dca',
    'model/apg_restart/split=trivial', 'model/apg_restart/split=proper',
    'model/dr_restart/l-given', 'model/dr_restart/l=None', 'model/dr_restart/lam=callable',
    'model/dr_restart/lam=number', 'oracle/dr_restart/stepsize=both-default',
    'oracle/dr_restart/stepsize=tau-given', 'oracle/dr_restart/stepsize=sigma-given',
    'model/cg_restart/early-return(start is the solution)/cg', 'model/cg_restart/early-return(start is the solution)/cgn',
    'model/cg_restart/early-return(inner_p_d == 0)', 'model/dr_restart/no-operators',
    'oracle/gauss_newton/repeatability', 'oracle/gauss_newton/linear-op', 'oracle/gauss_newton/nonlinear-op',
    'oracle/adam/steps', 'oracle/adam/stopped-by-tol', 'oracle/pdhg default steps/both-default',
    'oracle/pdhg default steps/tau-given', 'oracle/pdhg default steps/sigma-given',
    'oracle/landweber default omega',
    # extra round (seeded C11-51 / C11-52)
    'pdhg_acc/one-go default x_relax,y/theta=0/gamma=none',
    'pdhg_acc/one-go default x_relax,y/theta=0/gamma=primal=0',
    'pdhg_acc/one-go default x_relax,y/theta=0/gamma=primal>0',
    'pdhg_acc/one-go default x_relax,y/theta=0/gamma=dual=0',
    'pdhg_acc/one-go default x_relax,y/theta=0/gamma=dual>0',
    'pdhg_acc/one-go default x_relax,y/theta=1/2/gamma=none',
    'pdhg_acc/one-go default x_relax,y/theta=1/2/gamma=primal=0',
    'pdhg_acc/one-go default x_relax,y/theta=1/2/gamma=primal>0',
    'pdhg_acc/one-go default x_relax,y/theta=1/2/gamma=dual=0',
    'pdhg_acc/one-go default x_relax,y/theta=1/2/gamma=dual>0',
    'pdhg_acc/one-go default x_relax,y/theta=1/gamma=none',
    'pdhg_acc/one-go default x_relax,y/theta=1/gamma=primal=0',
    'pdhg_acc/one-go default x_relax,y/theta=1/gamma=primal>0',
    'pdhg_acc/one-go default x_relax,y/theta=1/gamma=dual=0',
    'pdhg_acc/one-go default x_relax,y/theta=1/gamma=dual>0',
]
EXPECTED_BRANCHES += ['zoo_slots/{}/{}/{}/nonzero'.format(pair, slot, kind)
                      for pair in sorted(ZOO_SLOTS) for slot in ZOO_SLOTS[pair] for kind in ZOO_KINDS]
OPAQUE_FAMILIES = ('admm', 'adupdates', 'dpdc', 'proxgrad', 'pdhg')


class SeededRandom(random.Random):
    def __init__(self, cseed):
        random.Random.__init__(self, cseed)
        self.cseed = cseed


# ---------------------------------------------------------------------------

def is_exact(c):
    """exact comparison: short dyadic inputs and no irrational square root on the path"""
    return sl.line_exact(c.line) and not c.extra.get('_inexact')


def add_envelopes(cases, rerun):
    """For the cases that are NOT compared exactly: re-run the same family call under input
    perturbations of +-1e-9 (throw-away context) and attach the sensitivity envelope of every
    iterate / final state component.  `rerun()` returns the list of Cases of the same call."""
    need = [c.impl_status == 'ok' and not is_exact(c) for c in cases]
    if not any(need):
        return
    perts = []
    for eps in (1e-9, -1e-9):
        with sl.perturbation(eps):
            try:
                perts.append(rerun())
            except Exception:  # noqa
                perts.append(None)
    for i, c in enumerate(cases):
        if not need[i]:
            continue
        pcs = [pc[i] for pc in perts if pc is not None and len(pc) == len(cases)]
        if len(pcs) != 2 or any(q.impl_status != 'ok' for q in pcs):
            c.env_ok = False
            continue
        c.env = sl.envelope(c.impl_log, [q.impl_log for q in pcs])
        if c.env is None:
            c.env_ok = False
            continue
        last = c.env[-1] if c.env else 0.0
        for k, v in c.extra.items():
            if k.startswith('_') or not isinstance(v, np.ndarray):
                continue
            e = sl.envelope([v], [[q.extra.get(k)] if isinstance(q.extra.get(k), np.ndarray) else None
                                  for q in pcs])
            if e is None:
                c.env_ok = False
            else:
                c.env_extra[k] = max(last, e[0])


def compare_seq(ctx, c, impl_log, model_log, exact, rtol=1e-9):
    """exact stream: exact; otherwise per-iterate tolerance + sensitivity envelope; when no reliable
    envelope exists (perturbed runs take other branches) only the first three iterates are compared"""
    if exact:
        return sl.seq_mismatch(impl_log, model_log, exact=True, rtol=rtol)
    if not c.env_ok:
        ctx.hit('compare/no-reliable-envelope(first 3 iterates only)')
        k = min(3, len(impl_log), len(model_log))
        return sl.seq_mismatch(impl_log[:k], model_log[:k], exact=False, rtol=rtol)
    return sl.seq_mismatch(impl_log, model_log, exact=False, rtol=rtol, env=c.env)


def compare_extra(c, k, v, mv, exact):
    if exact:
        return sl.seq_mismatch([v], [mv], exact=True)
    if not c.env_ok:
        return None
    return sl.seq_mismatch([v], [mv], exact=False, env=[c.env_extra.get(k, c.env[-1] if c.env else 0.0)])


def plan(ctx, deep=False):
    """(family, cseed, exact, n, opaque) tuples for this run."""
    rng = ctx.rng
    quick = ctx.quick and not deep
    per = 40 if quick else 150
    nmax = 8 if quick else 60
    out = []
    for fam in sorted(FAMILIES):
        for i in range(per):
            exact = i % 3 != 2
            n = rng.randint(1, 5) if exact else rng.randint(1, nmax)
            out.append((fam, rng.getrandbits(48), exact, n, False))
        if fam in OPAQUE_FAMILIES:
            for i in range(per):
                out.append((fam, rng.getrandbits(48), False, rng.randint(1, nmax), True))
    return out


def run_one(ctx, fam, cseed, exact, n, opaque):
    r = SeededRandom(cseed)
    return FAMILIES[fam](ctx, r, exact, n, opaque=opaque)


def run(ctx, deep=False):
    cases = []
    for fam, cseed, exact, n, opaque in plan(ctx, deep):
        got = run_one(ctx, fam, cseed, exact, n, opaque)
        add_envelopes(got, lambda: run_one(core.Ctx(ctx.pid, ctx.tier, ctx.seed), fam, cseed, exact, n,
                                           opaque))
        cases.extend(got)
    import time
    t0 = time.time()
    ctx.extra['impl_s'] = round(ctx.elapsed(), 1)
    outs = core.run_driver('C11', [c.line for c in cases])
    ctx.extra['driver_s'] = round(time.time() - t0, 1)
    for c, ans in zip(cases, outs):
        fields = sl.parse_answer(ans)
        sample = None
        if len(ctx.samples) < 10 and c.sig is not None and len(c.desc['x0']) <= 3:
            sample = {'case': c.desc, 'line': c.line[:300], 'model_answer': ans[:200]}
        ctx.case(c.sig, sample)
        if fields is None:
            # the model has no error outcomes: the real code must not fail on these inputs
            ctx.disagree(c.desc, c.impl_status, ans[:200])
            continue
        if c.impl_status != 'ok':
            ctx.disagree(c.desc, c.impl_status, 'ok')
            continue
        d = None
        ex = is_exact(c)
        if ex and c.extra.get('_all_dyadic_or_tolerance'):
            # one verdict for the whole answer: a non-dyadic value anywhere (e.g. x = 4/3 while
            # x_relax = 3/2 x - 1/2 x_old happens to be dyadic) means float operations on the path rounded
            for k in ['log'] + sorted(c.extra):
                if k in fields and not k.startswith('_'):
                    for row in core.pfmat(fields[k]):
                        if any(sl.odd_bits(v) > 44 for v in row):
                            ex = False
        ctx.hit('compare/' + ('exact' if ex else 'tolerance'))
        stopped_early = False
        if c.impl_log is not None:
            mlog = core.pfmat(fields.get('log', '-'))
            ilog = c.impl_log
            if c.extra.get('_prefix_if_model_stopped') and fields.get('stopped') == 'true' \
                    and len(mlog) < len(ilog):
                ctx.hit('compare/cg: model stopped at an exactly zero residual (prefix compared)')
                ilog, stopped_early = ilog[:len(mlog)], True
            d = compare_seq(ctx, c, ilog, mlog, ex)
        for k, v in sorted(c.extra.items()):
            if d is None and k in fields and not stopped_early:
                d = compare_extra(c, k, v, core.pfl(fields[k]), ex)
                d = d and 'final {}: {}'.format(k, d)
        if d:
            ctx.disagree(c.desc, d, ans[:300])


def search(ctx, broken):
    """An obligation or the correspondence broke without an oracle failure in `run`:
    look harder with the oracle on the real code (more problems, more iterations)."""
    saved = ctx.tier
    ctx.tier = 'thorough'
    try:
        for fam, cseed, exact, n, opaque in plan(ctx, deep=True):
            run_one(ctx, fam, cseed, exact, n, opaque)
            ctx.evaluations += 1
            if len(ctx.violations) >= 5:
                break
    finally:
        ctx.tier = saved


def replay(ctx, case):
    """Re-run one recorded case (regenerated from its seed) on the real code."""
    fam = case.get('solver')
    if fam not in FAMILIES or 'cseed' not in case:
        return None
    sub = core.Ctx(ctx.pid, ctx.tier, ctx.seed)
    run_one(sub, fam, int(case['cseed']), bool(case.get('exact')), int(case.get('n', 1)),
            bool(case.get('opaque')))
    if sub.violations:
        return '; '.join('{}: {}'.format(v['key'], v['what']) for v in sub.violations[:3])
    return None
