"""C10 — proximals and solver building blocks are safe when `out` is aliased to the input.

Tie to /repo (C, hand-written model + correspondence):
  * every `_call` body of proximal_operators.py (+ ProximalSimplex / ProximalSum of
    default_functionals.py, + the default_ops applied in place) has a statement-for-statement
    model program in lean/OdlModel/Model/ProxProg.lean.  For every factory x {g none/given} x
    {sigma scalar/element} x spaces the real code is run as  P(x, out=z)  (z NaN-filled) and
    y = x.copy(); P(y, out=y);  the model program is executed for the same two alias patterns
    at K = Float and ALL final buffers (out, x, g, sigma, lower, upper) are compared, bit for
    bit where both sides perform the same IEEE operations, with a 1e-9 tolerance where an
    external routine (norm, exp, Lambert-W, pow) is involved.
  * history stream: one operator instance per factory/flag/space receives 5 calls (aliased,
    non-aliased, out-of-place, shuffled, at least two aliased) with different inputs; every
    call is compared with a freshly built operator and with the model program run from a fresh
    store (the straight-line programs are stateless; this stream ties that to the code);
  * the set of Operator classes of proximal_operators.py that take `out` is read from the AST
    and must be covered by the model's class table (and vice versa).
Oracle (independent of the model, on the real code): P(x) vs y = x.copy(); P(y, out=y) vs
P(x, out=NaN-filled z); returned object is `out`; x, g, sigma bitwise unchanged.  It is also
applied to the calculus wrappers (translation, scaling, quadratic perturbation, composition,
convex conjugate, combine_proximals) and to `.proximal` of every functional of
odl.solvers.functional that can be constructed (these are operator expression trees: theorem
C10.alias_safe_tree covers their combinators, their values are not compared with a model here).
"""
import ast
import os
import struct

import numpy as np

from vf import core

EXTRA_TARGETS = ('OdlModel.Model.ProxFloat',)   # imported by the driver only
RULE = ('factory x flags(g none/given, sigma scalar/element, lower/upper, product/array-weighted '
        'branch) x space kind (rn / uniform_discr with cell volume <1,=1,>1 / constant weight / '
        'array weight / power spaces of rn and of uniform_discr) x parameter draw x input class (generic, zeros, '
        'on-threshold, large); evaluated = one (aliased, non-aliased) pair on the real code and '
        'on the model; non-trivial = P(x) is neither 0 nor x; distinct = distinct '
        '(program, flags, space kind, branch signature) among non-trivial cases.')
TRUSTED = ['hand-written model programs Model/ProxProg.lean (tied by running them against the '
           'real classes on every run; no translator)',
           'NumPy element-wise ufuncs with out identical to an input are well defined; '
           'space.lincomb obeys its specification (that is property C01)']
ASSUMPTIONS = ['identity aliasing only (overlapping views of distinct objects are outside C10)',
               'the _call bodies are stateless: a model program runs from a fresh store with fresh '
               'temporaries; instance state kept between calls is outside the model and is tested by '
               'the history stream (sequences of calls on one instance vs fresh instances)',
               'element-wise functions, norms, proj_simplex, Lambert-W are uninterpreted in the '
               'theorems; the driver instantiates them with IEEE double implementations',
               'wrappers built by operator arithmetic are covered by the combinator theorems '
               '(C10.alias_safe_tree; C10.diagonal_alias_safe for combine_proximals) for leaves that '
               'satisfy the leaf contract; for leaf classes without a model program the contract is '
               'only tested; their model-vs-code comparison (trees and DiagonalOperator over proximal '
               'leaves, aliased mode) is part of the C03 run']

NAN_BITS = 0x7ff8000000000000


def bits(x):
    return struct.unpack('<Q', struct.pack('<d', float(x)))[0]


def unbits(n):
    return struct.unpack('<d', struct.pack('<Q', int(n)))[0]


def bl(arr):
    arr = np.asarray(arr, dtype=float).ravel()
    return ','.join(str(bits(v)) for v in arr.tolist()) if arr.size else '-'


def parse_bl(s):
    return [] if s in ('', '-') else [unbits(t) for t in s.split(',')]


def flat(x):
    import odl
    if isinstance(x.space, odl.ProductSpace):
        return np.concatenate([flat(p) for p in x])
    return np.asarray(x.asarray(), dtype=float).ravel(order='C')


def make_elem(space, vals):
    import odl
    vals = np.array(vals, dtype=float)  # always a copy: never share memory with the case data
    if isinstance(space, odl.ProductSpace):
        n = len(vals) // len(space)
        return space.element([make_elem(space[i], vals[i * n:(i + 1) * n])
                              for i in range(len(space))])
    return space.element(vals.reshape(space.shape))


# ---------------------------------------------------------------------------
# the program table: model id -> how to build the real operator

def _po():
    from odl.solvers.nonsmooth import proximal_operators as po
    return po


class Plan(object):
    """One (program, flags) combination."""

    def __init__(self, mid, flags, kinds, tol=False, needs=()):
        self.mid, self.flags, self.kinds, self.tol, self.needs = mid, flags, kinds, tol, needs


T = ('rn', 'discr', 'rnc', 'rnw')          # element-wise bodies: every tensor-like space
TC = ('rn', 'discr', 'rnc')                # bodies using the scalar norm weight
TP = ('rn', 'discr', 'rnc', 'rnw', 'pspace')
PS = ('pspace', 'pdiscr')


def plans():
    out = []
    for lo in (0, 1):
        for up in (0, 1):
            out.append(Plan('box', '{}{}'.format(lo, up), T))
    for g in (0, 1):
        out.append(Plan('l2', str(g), TC, tol=True))
        out.append(Plan('ccL1', str(g), TP))
        out.append(Plan('ccL1L2', str(g), PS))
        out.append(Plan('l1l2', str(g), PS))
        out.append(Plan('ccKL', str(g), T))
        out.append(Plan('ccKLCE', str(g), T, tol=True))
        for se in (0, 1):
            out.append(Plan('ccL2Sq', '{}{}'.format(se, g), T))
            out.append(Plan('l2Sq', '{}{}'.format(se, g), T))
            out.append(Plan('l1', '{}{}'.format(se, g), TP if not se else T))
    for mid in ('linfty', 'ccLinfty'):
        out.append(Plan(mid, '', T))
    out.append(Plan('huber', '0', T))
    out.append(Plan('huber', '1', PS))
    for mid in ('simplex', 'sumc'):
        out.append(Plan(mid, '0', TC))          # unweighted / constant weight branch
        out.append(Plan(mid, '1', ('rnw',)))    # array-weighted branch
    for mid in ('scaling', 'lincombOp', 'multiply', 'constant', 'zero'):
        out.append(Plan(mid, '', T))
    out.append(Plan('power', '', T, tol=True))
    return out


def grid(rng, n, lo=-24, hi=24, den=8.0):
    return np.array([rng.randint(lo, hi) for _ in range(n)], dtype=float) / den


def make_space(kind, rng):
    import odl
    if kind == 'rn':
        n = rng.choice([1, 2, 3, 5, 8])
        return odl.rn(n), n, 1, 1.0
    if kind == 'discr':
        n = rng.choice([2, 4, 8])
        sp = odl.uniform_discr(0, rng.choice([1, 2, 8, 32]), n)   # cell volume < 1, = 1, > 1
        return sp, n, 1, float(sp.cell_volume)
    if kind == 'rnc':
        n = rng.choice([1, 2, 3, 5])
        c = rng.choice([0.5, 2.0, 4.0, 0.25])
        return odl.rn(n, weighting=c), n, 1, c
    if kind == 'rnw':
        n = rng.choice([1, 2, 3, 5])
        wts = np.array([rng.choice([0.5, 1.0, 2.0, 4.0]) for _ in range(n)])
        return odl.rn(n, weighting=wts), n, 1, 1.0
    n = rng.choice([1, 2, 4])
    mc = rng.choice([2, 3])
    if kind == 'pdiscr':
        n = rng.choice([2, 4])
        return odl.ProductSpace(odl.uniform_discr(0, rng.choice([1, 2, 16]), n), mc), n, mc, 1.0
    return odl.ProductSpace(odl.rn(n), mc), n, mc, 1.0


def const_weight(space):
    """The constant the factories close over (`_const_weight(space)` of the module), read
    from the module when it exists."""
    po = _po()
    f = getattr(po, '_const_weight', None)
    return float(f(space)) if f is not None else 1.0


def build(plan, kind, rng, xclass):
    """Construct the real operator and the model line parameters for one case."""
    import odl
    po = _po()
    space, n, mc, w = make_space(kind, rng)
    N = n * mc
    mid, fl = plan.mid, plan.flags
    par = dict(lam=rng.choice([1.0, 0.5, 2.0]), sigma=rng.choice([1.0, 0.5, 2.0, 0.25]),
               gamma=rng.choice([0.5, 1.0, 2.0]), radius=rng.choice([1.0, 0.5, 2.0, 4.0]),
               eps=0.0, cw=const_weight(space), a=rng.choice([2.0, -1.0, 0.5, 0.0, 1.0, -3.0]),
               b=rng.choice([1.0, -2.0, 0.25, 0.0]), p=rng.choice([2.0, 3.0, 0.5, 1.5]))
    bufs = dict(g=None, sig=None, lo=None, up=None)
    x = grid(rng, N)
    if xclass == 'zero':
        x = np.zeros(N)
    elif xclass == 'large':
        x = x * 8
    elif xclass == 'small':
        x = x / 16
    gvals = grid(rng, N)
    sigvals = np.array([rng.choice([0.5, 1.0, 2.0, 4.0]) for _ in range(N)])
    lam, sigma = par['lam'], par['sigma']
    P = None
    if mid == 'box':
        lo_s, up_s = rng.random() < 0.5, rng.random() < 0.5
        lov = np.full(N, rng.choice([-1.0, 0.0, -0.5])) if lo_s else grid(rng, N, -16, 0)
        upv = np.full(N, rng.choice([1.0, 0.5, 2.0])) if up_s else grid(rng, N, 1, 16)
        lower = upper = None
        if fl[0] == '1':
            bufs['lo'] = lov
            lower = float(lov[0]) if lo_s else make_elem(space, lov)
        if fl[1] == '1':
            bufs['up'] = upv
            upper = float(upv[0]) if up_s else make_elem(space, upv)
        P = po.proximal_box_constraint(space, lower=lower, upper=upper)(sigma)
    elif mid in ('l2', 'ccL1', 'ccL1L2', 'l1l2', 'ccKL', 'ccKLCE'):
        g = None
        if fl[0] == '1':
            if mid in ('ccKL', 'ccKLCE'):
                gvals = np.abs(gvals) + 0.125
            bufs['g'] = gvals
            g = make_elem(space, gvals)
        fac = {'l2': po.proximal_l2, 'ccL1': po.proximal_convex_conj_l1,
               'ccL1L2': po.proximal_convex_conj_l1_l2, 'l1l2': po.proximal_l1_l2,
               'ccKL': po.proximal_convex_conj_kl,
               'ccKLCE': po.proximal_convex_conj_kl_cross_entropy}[mid]
        if mid == 'l2':
            par['eps'] = float(np.finfo(getattr(space, 'dtype', float)).resolution * 10)
            if xclass == 'thr' and g is None:
                pass
        P = fac(space, lam=lam, g=g)(sigma)
    elif mid in ('ccL2Sq', 'l2Sq', 'l1'):
        g = None
        if fl[1] == '1':
            bufs['g'] = gvals
            g = make_elem(space, gvals)
        s = sigma
        if fl[0] == '1':
            bufs['sig'] = sigvals
            s = make_elem(space, sigvals)
        fac = {'ccL2Sq': po.proximal_convex_conj_l2_squared, 'l2Sq': po.proximal_l2_squared,
               'l1': po.proximal_l1}[mid]
        if mid == 'l1' and xclass == 'thr':
            # entries exactly on the threshold |x - g| = sigma*lam
            sl = (sigvals if fl[0] == '1' else sigma) * lam
            x = (gvals if g is not None else 0) + sl * np.array(
                [rng.choice([-1.0, 1.0]) for _ in range(N)])
        P = fac(space, lam=lam, g=g)(s)
    elif mid == 'linfty':
        par['sigma'] = par['radius']
        P = po.proximal_linfty(space)(par['sigma'])
    elif mid == 'ccLinfty':
        P = po.proximal_convex_conj_linfty(space)(sigma)
    elif mid == 'huber':
        P = po.proximal_huber(space, par['gamma'])(sigma)
        if xclass == 'thr':
            x = (par['gamma'] + sigma) * np.array([rng.choice([-1.0, 1.0, 0.5]) for _ in range(N)])
    elif mid == 'simplex':
        if fl == '1':
            bufs['sig'] = np.asarray(space.weighting.array, dtype=float).ravel().copy()
        P = odl.solvers.IndicatorSimplex(space, diameter=par['radius']).proximal(sigma)
    elif mid == 'sumc':
        if fl == '1':
            bufs['sig'] = np.asarray(space.weighting.array, dtype=float).ravel().copy()
        P = odl.solvers.IndicatorSumConstraint(space, sum_value=par['radius']).proximal(sigma)
    elif mid == 'scaling':
        P = odl.ScalingOperator(space, par['a']) if par['a'] != 1.0 else odl.IdentityOperator(space)
    elif mid == 'lincombOp':
        bufs['g'] = gvals
        P = odl.LinCombOperator(space, par['a'], par['b'])
    elif mid == 'multiply':
        bufs['sig'] = sigvals
        P = odl.MultiplyOperator(make_elem(space, sigvals))
    elif mid == 'constant':
        bufs['g'] = gvals
        P = odl.ConstantOperator(make_elem(space, gvals))
    elif mid == 'zero':
        P = odl.ZeroOperator(space)
    elif mid == 'power':
        P = odl.PowerOperator(space, par['p'])
        if par['p'] not in (2.0, 3.0):
            x = np.abs(x) + 0.125
    else:
        raise KeyError(mid)
    if mid in ('ccL1', 'ccL1L2'):
        # the factory closes over lam * (1 - 10 * resolution): read the value actually used
        par['lam'] = closure_var(P, 'lam', lam)
    return dict(plan=plan, kind=kind, space=space, n=n, mc=mc, w=w, par=par, bufs=bufs, x=x,
                P=P, xclass=xclass)


def model_line(c, alias, junk):
    par = c['par']
    N = c['n'] * c['mc']
    b = c['bufs']
    return ('prox id={} flags={} alias={} n={} mc={} w={} p={} lam={} sigma={} gamma={} radius={} '
            'eps={} cw={} a={} b={} x={} j={} g={} sig={} lo={} up={}').format(
        c['plan'].mid, c['plan'].flags or '-', int(alias), c['n'], c['mc'], bits(c['w']),
        bits(par['p']), bits(par['lam']), bits(par['sigma']), bits(par['gamma']),
        bits(par['radius']), bits(par['eps']), bits(par['cw']), bits(par['a']), bits(par['b']),
        bl(c['x']), bl(junk), *[bl(b[k]) if b[k] is not None else '-' for k in
                                ('g', 'sig', 'lo', 'up')])


def same(a, b, tol):
    """compare two float arrays: bitwise (NaN == NaN) or within tolerance"""
    a = np.asarray(a, dtype=float)
    b = np.asarray(b, dtype=float)
    if a.shape != b.shape:
        return False
    if not tol:
        return bool(np.array_equal(a, b, equal_nan=True))
    if not np.array_equal(np.isnan(a), np.isnan(b)):
        return False
    ok = np.isnan(a)
    fin = np.isfinite(a) & np.isfinite(b)
    scale = max(1.0, float(np.max(np.abs(a[fin]))) if fin.any() else 1.0)
    ok = ok | (a == b)
    ok = ok | (fin & (np.abs(a - b) <= 1e-9 * scale + 1e-12))
    return bool(ok.all())


def junk_vals(n):
    """Previous content of a non-aliased `out`: NaN, so that any read of `out` before it is
    written shows up (since /repo 82e7c58 `set_zero` writes exact zeros; the theorems use no
    arithmetic law, so they cover NaN junk)."""
    return np.full(n, np.nan)


def closure_var(P, name, default):
    """Value of a variable closed over by the class's `_call` (e.g. the fudged `lam`)."""
    try:
        fn = type(P)._call
        idx = fn.__code__.co_freevars.index(name)
        return float(fn.__closure__[idx].cell_contents)
    except Exception:  # noqa
        return default


def call_real(P, x_elem, mode, space, lincomb_second=None):
    """mode: 'oop' | 'junk' | 'alias'.  Returns (status, result array, input-after array)."""
    try:
        arg = x_elem if lincomb_second is None else None
        if mode == 'oop':
            xin = x_elem.copy()
            a = xin if lincomb_second is None else P.domain.element([xin, lincomb_second])
            r = P(a)
            return 'ok', flat(r), flat(xin), (r in P.range)
        if mode == 'junk':
            xin = x_elem.copy()
            z = make_elem(space, junk_vals(flat(x_elem).size))
            a = xin if lincomb_second is None else P.domain.element([xin, lincomb_second])
            r = P(a, out=z)
            return 'ok', flat(z), flat(xin), (r is z)
        y = x_elem.copy()
        a = y if lincomb_second is None else P.domain.element([y, lincomb_second])
        r = P(a, out=y)
        return 'ok', flat(y), None, (r is y)
    except Exception as e:  # noqa
        return 'err:{}:{}'.format(type(e).__name__, str(e)[:100]), None, None, False


def oracle(ctx, key, desc, P, x_elem, space, tol, second=None, frames=()):
    """The property's oracle on the real code. Returns (results dict, problems list)."""
    res = {}
    problems = []
    pre = [(nm, flat(e).copy()) for nm, e in frames]
    for mode in ('oop', 'junk', 'alias'):
        res[mode] = call_real(P, x_elem, mode, space, second)
    st = {m: res[m][0] for m in res}
    if st['oop'] != 'ok':
        # not an aliasing question: the operator cannot be evaluated at all for this input;
        # it is a violation only if the in-place calls behave differently
        if st['alias'] == 'ok' or st['junk'] == 'ok':
            problems.append('P(x) raises ({}) but an in-place call succeeds'.format(st['oop']))
        return res, problems
    ref = res['oop'][1]
    for mode, what in (('junk', 'P(x, out=z) with NaN-filled z'),
                       ('alias', 'y = x.copy(); P(y, out=y)')):
        if st[mode] != 'ok':
            problems.append('{} raises {}'.format(what, st[mode]))
            continue
        if not res[mode][3]:
            problems.append('{} did not return the out object'.format(what))
        # bitwise identity is not required between the in-place and out-of-place paths
        # (lincomb may round differently); 1e-9 relative is
        if not same(res[mode][1], ref, True):
            bad = int(np.argmax(~np.isclose(res[mode][1], ref, rtol=1e-9, atol=1e-12,
                                            equal_nan=True)))
            problems.append('{} differs from P(x) at flat index {}: got {!r}, P(x) gives {!r}'
                            .format(what, bad, float(res[mode][1][bad]), float(ref[bad])))
    if not res['oop'][3]:
        problems.append('P(x) is not an element of the range')
    for mode in ('oop', 'junk'):
        if st[mode] == 'ok' and not np.array_equal(res[mode][2], flat(x_elem), equal_nan=True):
            problems.append('input x modified by the {} call'.format(
                'out-of-place' if mode == 'oop' else 'non-aliased in-place'))
    for (nm, before), (_, e) in zip(pre, frames):
        if not np.array_equal(before, flat(e), equal_nan=True):
            problems.append('closed-over data `{}` modified by a call'.format(nm))
    return res, problems


def module_classes():
    """Operator classes with an `out` parameter in `_call`, read from the AST."""
    found = {}
    files = [('odl/solvers/nonsmooth/proximal_operators.py', None),
             ('odl/solvers/functional/default_functionals.py', 'Prox')]
    for rel, name_filter in files:
        path = os.path.join(core.REPO, rel)
        with open(path) as f:
            tree = ast.parse(f.read())
        for node in ast.walk(tree):
            if not isinstance(node, ast.ClassDef):
                continue
            if not any((isinstance(b, ast.Name) and b.id == 'Operator') for b in node.bases):
                continue
            if name_filter and name_filter not in node.name:
                continue
            for fn in node.body:
                if isinstance(fn, ast.FunctionDef) and fn.name == '_call':
                    args = [a.arg for a in fn.args.args] + [a.arg for a in fn.args.kwonlyargs]
                    found[node.name] = ('out' in args)
    return found


def check_class_set(ctx):
    found = module_classes()
    names = sorted(found)
    outs = core.run_driver('C10', ['class name=' + nm for nm in names] + ['table'])
    uncovered, bridged = [], []
    for nm, ans in zip(names, outs[:-1]):
        if not found[nm]:
            bridged.append(nm)   # out-of-place only: in-place goes through the default bridge
            continue
        ctx.hit('class/' + nm)
        if not ans.startswith('ok prog='):
            uncovered.append(nm)
            ctx.disagree({'kind': 'class-set', 'class': nm},
                         'class with an in-place `_call` exists in /repo', 'no model program',
                         stream='class-set')
    table = outs[-1][len('ok classes='):].split(',') if outs[-1].startswith('ok classes=') else []
    default_ops = {'ScalingOperator', 'IdentityOperator', 'LinCombOperator', 'MultiplyOperator',
                   'ConstantOperator', 'ZeroOperator', 'PowerOperator'}
    import odl
    for nm in table:
        if nm in default_ops:
            if not hasattr(odl, nm):
                ctx.disagree({'kind': 'class-set', 'class': nm}, 'class no longer in odl',
                             'model program exists', stream='class-set')
        elif nm not in found:
            ctx.disagree({'kind': 'class-set', 'class': nm},
                         'class no longer in the module (renamed/removed)', 'model program exists',
                         stream='class-set')
    ctx.extra['proximal_classes_in_module'] = names
    ctx.extra['out_of_place_only_classes(default bridge)'] = bridged
    ctx.extra['uncovered_classes'] = uncovered


def describe(c):
    return {'kind': 'prog', 'id': c['plan'].mid, 'flags': c['plan'].flags, 'space': c['kind'],
            'n': c['n'], 'mc': c['mc'], 'xclass': c['xclass'],
            'par': {k: v for k, v in c['par'].items()},
            'x': [float(v) for v in c['x']],
            'bufs': {k: (None if v is None else [float(t) for t in v])
                     for k, v in c['bufs'].items()}}


def run_prog_case(ctx, c, lines, pending):
    import odl
    plan = c['plan']
    space = c['space']
    x_elem = make_elem(space, c['x'])
    second = make_elem(space, c['bufs']['g']) if plan.mid == 'lincombOp' else None
    res, problems = oracle(ctx, None, None, c['P'], x_elem, space, plan.tol, second)
    desc = describe(c)
    key = 'prox {} flags={} space={} xclass={}'.format(plan.mid, plan.flags or '-', c['kind'],
                                                       c['xclass'])
    if problems:
        ctx.violation(key, '; '.join(problems)[:600], desc)
    st = res['oop'][0]
    nontrivial = (st == 'ok' and np.any(res['oop'][1] != 0) and
                  not np.array_equal(res['oop'][1], c['x']))
    branch = ''
    if st == 'ok':
        r = res['oop'][1]
        branch = '{}{}{}'.format(int(np.any(r == 0)), int(np.any(r == c['x'])),
                                 int(np.any((r != 0) & (r != c['x']))))
    ctx.case((plan.mid, plan.flags, c['kind'], branch) if nontrivial else None,
             sample={'case': {k: desc[k] for k in ('id', 'flags', 'space', 'x', 'par')},
                     'P(x)': [float(v) for v in res['oop'][1]] if st == 'ok' else st}
             if c['n'] * c['mc'] <= 3 else None)
    ctx.hit('prog/{}/{}'.format(plan.mid, plan.flags or '-'))
    if st == 'ok' and plan.mid == 'l2':
        gz = c['bufs']['g'] if c['bufs']['g'] is not None else np.zeros_like(c['x'])
        ctx.hit('branch/l2/' + ('step>=1(set_zero|assign g)' if np.array_equal(res['oop'][1], gz)
                                else 'step<1(lincomb)'))
    if st == 'ok' and plan.mid in ('linfty', 'ccLinfty'):
        inside = np.sum(np.abs(c['x'])) <= (c['par']['sigma'] if plan.mid == 'linfty' else 1.0) \
            / c['par']['cw']
        ctx.hit('branch/proj_l1/' + ('inside-ball(copy)' if inside else 'outside(simplex)'))
    if st != 'ok':
        ctx.err(st.split(':')[1])
        return
    N = c['n'] * c['mc']
    lines.append(model_line(c, False, junk_vals(N)))
    lines.append(model_line(c, True, junk_vals(N)))
    pending.append((c, desc, res))


def compare_model(ctx, pending, outs):
    for k, (c, desc, res) in enumerate(pending):
        plan = c['plan']
        for alias, ans in ((False, outs[2 * k]), (True, outs[2 * k + 1])):
            mode = 'alias' if alias else 'junk'
            if res[mode][0] != 'ok':
                ctx.disagree(dict(desc, alias=alias), res[mode][0], ans[:200])
                continue
            if not ans.startswith('ok '):
                ctx.disagree(dict(desc, alias=alias), 'ok', ans[:200])
                continue
            f = dict(t.split('=', 1) for t in ans.split()[1:])
            mout = parse_bl(f['b0'] if alias else f['b1'])
            if not same(mout, res[mode][1], plan.tol):
                ctx.disagree(dict(desc, alias=alias),
                             'out = {}'.format([float(v) for v in res[mode][1]][:8]),
                             'out = {}'.format(mout[:8]))
                continue
            # frame on the model side: x (non-aliased) and data buffers unchanged
            if not alias and not same(parse_bl(f['b0']), c['x'], False):
                ctx.disagree(dict(desc, alias=alias), 'x unchanged', 'model writes x')
            for nm, bid in (('g', 'b2'), ('sig', 'b3'), ('lo', 'b4'), ('up', 'b5')):
                if c['bufs'][nm] is not None and not same(parse_bl(f[bid]), c['bufs'][nm], False):
                    ctx.disagree(dict(desc, alias=alias), nm + ' unchanged', 'model writes ' + nm)


# ---------------------------------------------------------------------------
# wrappers and functional-level proximals: oracle on the real code

def wrapper_cases(ctx, reps):
    import odl
    po = _po()
    rng = ctx.rng
    for rep in range(reps):
        for kind in ('rn', 'discr'):
            space, n, mc, w = make_space(kind, rng)
            N = n * mc
            g = make_elem(space, grid(rng, N))
            yv = make_elem(space, grid(rng, N))
            sig = rng.choice([0.5, 1.0, 2.0])
            bases = [
                ('l1', po.proximal_l1(space)), ('l1g', po.proximal_l1(space, g=g)),
                ('ccl1', po.proximal_convex_conj_l1(space, lam=0.5)),
                ('l2', po.proximal_l2(space)), ('l2sq', po.proximal_l2_squared(space, g=g)),
                ('box', po.proximal_box_constraint(space, -0.5, 1.0)),
                ('linf', po.proximal_linfty(space)),
                ('cckl', po.proximal_convex_conj_kl(space, g=space.one())),
                ('huber', po.proximal_huber(space, 0.5)),
            ]
            for bname, fac in bases:
                wr = [
                    ('convex_conj', lambda: po.proximal_convex_conj(fac)(sig)),
                    ('translation', lambda: po.proximal_translation(fac, yv)(sig)),
                    ('arg_scaling', lambda: po.proximal_arg_scaling(fac, rng.choice([2.0, -0.5]))(sig)),
                    ('arg_scaling0', lambda: po.proximal_arg_scaling(fac, 0)(sig)),
                    ('quad_pert', lambda: po.proximal_quadratic_perturbation(fac, 0.5)(sig)),
                    ('quad_pert_u', lambda: po.proximal_quadratic_perturbation(fac, 1.5, u=yv)(sig)),
                    ('composition', lambda: po.proximal_composition(
                        fac, odl.ScalingOperator(space, 2.0), 4.0)(sig)),
                    ('conj_conj', lambda: po.proximal_convex_conj(po.proximal_convex_conj(fac))(sig)),
                    ('trans_scal', lambda: po.proximal_translation(
                        po.proximal_arg_scaling(fac, 2.0), yv)(sig)),
                ]
                for wname, mk in wr:
                    yield ('wrapper {}({}) space={}'.format(wname, bname, kind), mk, space,
                           grid(rng, N), [('g', g), ('y', yv)])
            # combine_proximals on a product space
            ps = odl.ProductSpace(space, 2)
            yield ('wrapper combine_proximals(l1,ccl1) space=' + kind,
                   lambda: po.combine_proximals(po.proximal_l1(space),
                                                po.proximal_convex_conj_l1(space))(sig),
                   ps, grid(rng, 2 * N), [])
            yield ('wrapper combine_proximals(l2sq g,box) space=' + kind,
                   lambda: po.combine_proximals(po.proximal_l2_squared(space, g=g),
                                                po.proximal_box_constraint(space, 0, 1))(
                                                    [sig, 2 * sig]),
                   ps, grid(rng, 2 * N), [('g', g)])


def functional_cases(ctx, reps):
    """`.proximal(sigma)` of the functionals of odl.solvers (and of their calculus)."""
    import odl
    S = odl.solvers
    rng = ctx.rng
    for rep in range(reps):
        for kind in ('rn', 'discr'):
            space, n, mc, w = make_space(kind, rng)
            N = n
            g = make_elem(space, np.abs(grid(rng, N)) + 0.25)
            yv = make_elem(space, grid(rng, N))
            ps = odl.ProductSpace(space, 2)
            table = [
                ('L1Norm', lambda: S.L1Norm(space), space),
                ('L2Norm', lambda: S.L2Norm(space), space),
                ('L2NormSquared', lambda: S.L2NormSquared(space), space),
                ('LpNorm(inf)', lambda: S.LpNorm(space, float('inf')), space),
                ('GroupL1Norm', lambda: S.GroupL1Norm(ps), ps),
                ('IndicatorGroupL1UnitBall', lambda: S.IndicatorGroupL1UnitBall(ps), ps),
                ('IndicatorLpUnitBall(1)', lambda: S.IndicatorLpUnitBall(space, 1), space),
                ('IndicatorLpUnitBall(2)', lambda: S.IndicatorLpUnitBall(space, 2), space),
                ('IndicatorLpUnitBall(inf)', lambda: S.IndicatorLpUnitBall(space, float('inf')),
                 space),
                ('ConstantFunctional', lambda: S.ConstantFunctional(space, 2.0), space),
                ('ZeroFunctional', lambda: S.ZeroFunctional(space), space),
                ('IndicatorBox', lambda: S.IndicatorBox(space, -0.5, 1), space),
                ('IndicatorNonnegativity', lambda: S.IndicatorNonnegativity(space), space),
                ('IndicatorZero', lambda: S.IndicatorZero(space), space),
                ('KullbackLeibler', lambda: S.KullbackLeibler(space, prior=g), space),
                ('KullbackLeibler.convex_conj', lambda: S.KullbackLeibler(space, prior=g).convex_conj,
                 space),
                ('KullbackLeiblerCrossEntropy.convex_conj',
                 lambda: S.KullbackLeiblerCrossEntropy(space, prior=g).convex_conj, space),
                ('KullbackLeiblerCrossEntropy',
                 lambda: S.KullbackLeiblerCrossEntropy(space, prior=g), space),
                ('SeparableSum', lambda: S.SeparableSum(S.L1Norm(space), S.L2NormSquared(space)), ps),
                ('QuadraticForm', lambda: S.QuadraticForm(
                    operator=odl.ScalingOperator(space, 2.0), vector=yv, constant=1.0), space),
                ('IndicatorSimplex', lambda: S.IndicatorSimplex(space, 2.0), space),
                ('IndicatorSumConstraint', lambda: S.IndicatorSumConstraint(space, 2.0), space),
                ('Huber', lambda: S.Huber(space, 0.5), space),
                ('MoreauEnvelope', lambda: S.MoreauEnvelope(S.L1Norm(space)), space),
                ('L1Norm.convex_conj', lambda: S.L1Norm(space).convex_conj, space),
                ('L2Norm.convex_conj', lambda: S.L2Norm(space).convex_conj, space),
                ('L2NormSquared.convex_conj', lambda: S.L2NormSquared(space).convex_conj, space),
                ('L1Norm.translated', lambda: S.L1Norm(space).translated(yv), space),
                ('L2Norm.translated', lambda: S.L2Norm(space).translated(yv), space),
                ('3*L1Norm', lambda: 3.0 * S.L1Norm(space), space),
                ('L1Norm*2', lambda: S.L1Norm(space) * 2.0, space),
                ('L1Norm+<y,.>', lambda: S.L1Norm(space) + odl.solvers.QuadraticForm(vector=yv),
                 space),
                ('L2NormSquared.translated.convex_conj',
                 lambda: S.L2NormSquared(space).translated(yv).convex_conj, space),
                ('Huber.convex_conj', lambda: S.Huber(space, 0.5).convex_conj, space),
                ('L1Norm+quadratic_perturb', lambda: S.FunctionalQuadraticPerturb(
                    S.L1Norm(space), quadratic_coeff=0.5, linear_term=yv), space),
                ('IndicatorBox.translated*2', lambda: S.IndicatorBox(space, 0, 1).translated(yv) * 2.0,
                 space),
            ]
            for name, mk, sp in table:
                for sig in ([rng.choice([0.5, 1.0, 2.0])]):
                    def mkP(mk=mk, sig=sig):
                        return mk().proximal(sig)
                    xs = sp.size if hasattr(sp, 'size') else N
                    yield ('functional {}.proximal space={}'.format(name, kind), mkP, sp,
                           grid(rng, int(xs)), [('g', g), ('y', yv)])


def run_oracle_stream(ctx, gen, label):
    unavailable = {}
    for key, mk, space, xv, frames in gen:
        try:
            P = mk()
        except Exception as e:  # construction is not C10's question
            unavailable[key] = '{}: {}'.format(type(e).__name__, str(e)[:80])
            continue
        x_elem = make_elem(space, xv)
        res, problems = oracle(ctx, key, None, P, x_elem, space, True, None, frames)
        st = res['oop'][0]
        nontrivial = st == 'ok' and np.any(res['oop'][1] != 0) and \
            not np.array_equal(res['oop'][1], xv)
        ctx.case((label, key) if nontrivial else None)
        ctx.hit(label + '/' + key.split(' space=')[0].split(' ', 1)[1])
        if st != 'ok':
            ctx.err(st.split(':')[1])
        if problems:
            ctx.violation(key, '; '.join(problems)[:600],
                          {'kind': label, 'key': key, 'x': [float(v) for v in xv]})
        elif st == 'ok':
            repeated_alias(ctx, key, P, space, len(xv))
    if unavailable:
        ctx.extra.setdefault('not_constructible', {}).update(unavailable)


def prog_stream(ctx, reps):
    rng = ctx.rng
    lines, pending = [], []
    for plan in plans():
        for kind in plan.kinds:
            classes = ['gen'] * reps + ['zero', 'large', 'small', 'thr']
            for xclass in classes:
                try:
                    c = build(plan, kind, rng, xclass)
                except Exception as e:  # noqa
                    ctx.disagree({'kind': 'construct', 'id': plan.mid, 'flags': plan.flags,
                                  'space': kind},
                                 'cannot construct: {}: {}'.format(type(e).__name__, str(e)[:120]),
                                 'model program exists')
                    continue
                run_prog_case(ctx, c, lines, pending)
    return lines, pending


# ---------------------------------------------------------------------------
# history stream: ONE operator instance receives a sequence of calls with different inputs.
# The straight-line model programs are stateless (every run starts from a fresh store with
# fresh temporaries); this stream is what ties that assumption to the code: each call of the
# sequence is compared with a freshly built operator on the same input and with the model
# program run from a fresh store.

def history_stream(ctx, reps):
    rng = ctx.rng
    lines, pending = [], []
    for plan in plans():
        for kind in plan.kinds:
            for rep in range(reps):
                state = rng.getstate()
                try:
                    c = build(plan, kind, rng, 'gen')
                    after = rng.getstate()
                    rng.setstate(state)
                    fresh_c = build(plan, kind, rng, 'gen')   # identical parameters, new instance
                    rng.setstate(after)
                except Exception:  # reported by the prog stream
                    rng.setstate(state)
                    rng.random()
                    continue
                space, P = c['space'], c['P']
                N = c['n'] * c['mc']
                modes = ['alias', 'alias', 'junk', 'oop'] + [rng.choice(['alias', 'junk'])]
                rng.shuffle(modes)
                ctx.hit('history/{}/{}'.format(plan.mid, plan.flags or '-'))
                for k, mode in enumerate(modes):
                    scale = rng.choice([1.0, 1.0, 8.0, 0.0625])
                    xk = grid(rng, N) * scale
                    if plan.mid == 'power' and c['par']['p'] not in (2.0, 3.0):
                        xk = np.abs(xk) + 0.125
                    x_elem = make_elem(space, xk)
                    second = make_elem(space, c['bufs']['g']) if plan.mid == 'lincombOp' else None
                    got = call_real(P, x_elem, mode, space, second)
                    # a fresh instance for every comparison (it is called exactly once)
                    st2 = rng.getstate()
                    rng.setstate(state)
                    try:
                        ref_c = build(plan, kind, rng, 'gen')
                    finally:
                        rng.setstate(st2)
                    sec2 = make_elem(space, c['bufs']['g']) if plan.mid == 'lincombOp' else None
                    ref = call_real(ref_c['P'], make_elem(space, xk), 'oop', space, sec2)
                    desc = dict(describe(dict(c, x=xk)), kind='history', call=k, mode=mode,
                                modes=modes)
                    key = 'history {} flags={} space={} call#{} mode={} after={}'.format(
                        plan.mid, plan.flags or '-', kind, k, mode, ','.join(modes[:k]) or '-')
                    nontrivial = ref[0] == 'ok' and np.any(ref[1] != 0) and \
                        not np.array_equal(ref[1], xk)
                    ctx.case(('history', plan.mid, plan.flags, kind, mode, k > 0)
                             if nontrivial else None)
                    if ref[0] != 'ok':
                        continue
                    if got[0] != 'ok':
                        ctx.violation(key, 'call on the reused instance raises {} while a fresh '
                                      'instance gives a result'.format(got[0]), desc)
                        continue
                    if not same(got[1], ref[1], True):
                        bad = int(np.argmax(~np.isclose(got[1], ref[1], rtol=1e-9, atol=1e-12,
                                                        equal_nan=True)))
                        ctx.violation(key, 'call {} ({}) on an operator instance that was already '
                                      'called {} differs from a freshly built operator at flat index '
                                      '{}: got {!r}, fresh instance gives {!r}'.format(
                                          k, mode, modes[:k], bad, float(got[1][bad]),
                                          float(ref[1][bad])), desc)
                    if mode != 'oop':
                        ck = dict(c, x=xk)
                        lines.append(model_line(ck, mode == 'alias', junk_vals(N)))
                        pending.append((ck, desc, mode, got))
    outs = core.run_driver('C10', lines)
    for (ck, desc, mode, got), ans in zip(pending, outs):
        if not ans.startswith('ok '):
            ctx.disagree(desc, 'ok', ans[:200], stream='history')
            continue
        f = dict(t.split('=', 1) for t in ans.split()[1:])
        mout = parse_bl(f['b0'] if mode == 'alias' else f['b1'])
        if not same(mout, got[1], ck['plan'].tol):
            ctx.disagree(desc, 'out = {}'.format([float(v) for v in got[1]][:8]),
                         'out = {} (model program from a fresh store)'.format(mout[:8]),
                         stream='history')


def repeated_alias(ctx, key, P, space, n_inputs, frames_unused=None):
    """Wrappers / functional-level proximals: two more aliased calls with new inputs on the
    SAME instance, each compared with its own out-of-place result."""
    rng = ctx.rng
    for k in range(2):
        xk = grid(rng, n_inputs) * rng.choice([1.0, 8.0, 0.125])
        x_elem = make_elem(space, xk)
        ref = call_real(P, x_elem, 'oop', space)
        got = call_real(P, x_elem, 'alias', space)
        if ref[0] != 'ok':
            continue
        if got[0] != 'ok' or not same(got[1], ref[1], True):
            ctx.violation(key + ' repeated-alias#{}'.format(k + 2),
                          'aliased call number {} on the same instance differs from P(x): {} vs {}'
                          .format(k + 2, got[1][:6] if got[0] == 'ok' else got[0], ref[1][:6]),
                          {'kind': 'repeat', 'key': key, 'x': [float(v) for v in xk]})


def run(ctx):
    check_class_set(ctx)
    reps = 2 if ctx.quick else 40
    lines, pending = prog_stream(ctx, reps)
    outs = core.run_driver('C10', lines)
    compare_model(ctx, pending, outs)
    history_stream(ctx, 1 if ctx.quick else 8)
    run_oracle_stream(ctx, wrapper_cases(ctx, 1 if ctx.quick else 10), 'wrapper')
    run_oracle_stream(ctx, functional_cases(ctx, 1 if ctx.quick else 10), 'functional')


def search(ctx, broken):
    """A proof obligation / the class set / the correspondence broke but the oracle found
    nothing: run the oracle much harder on the real code (no model involved)."""
    rng = ctx.rng
    for plan in plans():
        for kind in plan.kinds:
            for xclass in ['gen'] * 25 + ['zero', 'large', 'small', 'thr'] * 3:
                try:
                    c = build(plan, kind, rng, xclass)
                except Exception:
                    continue
                space = c['space']
                x_elem = make_elem(space, c['x'])
                second = make_elem(space, c['bufs']['g']) if plan.mid == 'lincombOp' else None
                res, problems = oracle(ctx, None, None, c['P'], x_elem, space, plan.tol, second)
                ctx.evaluations += 1
                if problems:
                    ctx.violation('prox {} flags={} space={} xclass={}'.format(
                        plan.mid, plan.flags or '-', kind, xclass), '; '.join(problems)[:600],
                        describe(c))
    try:
        history_stream(ctx, 6)
    except core.DriverBroken:
        pass
    run_oracle_stream(ctx, wrapper_cases(ctx, 6), 'wrapper')
    run_oracle_stream(ctx, functional_cases(ctx, 6), 'functional')


def replay(ctx, case):
    import odl
    if case.get('kind') == 'prog':
        plan = [p for p in plans() if p.mid == case['id'] and p.flags == case['flags']]
        if not plan:
            return None
        plan = plan[0]
        # rebuild the same operator from the recorded parameters
        import random
        for seed in range(400):
            c = build(plan, case['space'], random.Random(seed), case['xclass'])
            if c['n'] == case['n'] and c['mc'] == case['mc']:
                break
        else:
            return None
        # overwrite with the recorded data by rebuilding through the same path
        c['x'] = np.array(case['x'], dtype=float)
        x_elem = make_elem(c['space'], c['x'])
        second = make_elem(c['space'], c['bufs']['g']) if plan.mid == 'lincombOp' else None
        _, problems = oracle(ctx, None, None, c['P'], x_elem, c['space'], plan.tol, second)
        return '; '.join(problems) if problems else None
    if case.get('kind') in ('history', 'repeat'):
        import random
        sub = core.Ctx('C10', 'quick', 0)
        sub.rng = random.Random(0)
        if case['kind'] == 'history':
            try:
                history_stream(sub, 3)
            except core.DriverBroken:
                pass
            hits = [v for v in sub.violations if v['replay'].get('id') == case.get('id') and
                    v['replay'].get('flags') == case.get('flags')]
        else:
            run_oracle_stream(sub, wrapper_cases(sub, 2), 'wrapper')
            run_oracle_stream(sub, functional_cases(sub, 2), 'functional')
            hits = [v for v in sub.violations if v['replay'].get('key') == case.get('key')]
        return hits[0]['what'] if hits else None
    if case.get('kind') in ('wrapper', 'functional'):
        gen = wrapper_cases(ctx, 3) if case['kind'] == 'wrapper' else functional_cases(ctx, 3)
        for key, mk, space, xv, frames in gen:
            if key == case['key']:
                try:
                    P = mk()
                except Exception:
                    continue
                xs = np.array(case['x'], dtype=float)
                if xs.size != xv.size:
                    xs = xv
                _, problems = oracle(ctx, key, None, P, make_elem(space, xs), space, True, None,
                                     frames)
                if problems:
                    return '; '.join(problems)
        return None
    return None
