"""C10 — proximals and solver building blocks are safe when `out` is aliased to the input.

Tie to /repo (C, hand-written model + correspondence):
  * every `_call` body of proximal_operators.py (+ ProximalSimplex / ProximalSum of
    default_functionals.py, + the default_ops applied in place) has a statement-for-statement
    model program in lean/OdlModel/Model/ProxProg.lean.  For every factory x {g none/given} x
    {sigma scalar/element} x spaces the real code is run as  P(x, out=z)  (z NaN-filled) and
    y = x.copy(); P(y, out=y);  the model program is executed for the same two alias patterns
    at K = Float and ALL final buffers (out, x, g, sigma, lower, upper) are compared, bit for
    bit where both sides perform the same IEEE operations, with a 1e-9 tolerance where an
    external routine (norm, exp, Lambert-W, pow) is involved.
  * history stream: one operator instance per factory/flag/space receives 5 calls (aliased,
    non-aliased, out-of-place, shuffled, at least two aliased) with different inputs; every
    call is compared with a freshly built operator and with the model program run from a fresh
    store (the straight-line programs are stateless; this stream ties that to the code);
  * cross-instance history: 2 instances from the SAME factory object (different scalar /
    element-valued step sizes) and one from a second factory call (plain operator classes: 3
    instances) receive interleaved aliased / non-aliased / out-of-place calls; every call is
    compared with an operator built by a NEW factory call and called once, and with the model;
  * the proximal Operator classes (any file under odl/solvers; name, location or enclosing
    function mentions `prox`) whose `_call` takes `out` are read from the AST and must be covered
    by the model's class table (and vice versa); the aliased call sites `f(a, out=a)` of the
    solver sources are extracted by AST on every run and each callee must be the application of a
    proximal operator (anything else is an uncovered obligation).
  * round 4: `PointwiseNorm._abs_pow_ufunc` (3 branches), the gradient operators of
    default_functionals.py through the default in-place bridge, `GroupL1Gradient` and
    `RosenbrockGradient` in place have model programs in Model/ProxAux.lean (`auxProg`, `rosenFixed`),
    executed by the driver op `aux` and compared exactly like the proximal bodies (streams
    aux-correspondence, aux-iterated-alias, incl. the raise path of KLCrossEntropyGradient); the
    element-wise bodies are also compared on 2-d spaces (prog-2d); gradient Operator classes under
    odl/solvers and EVERY call `f(a, out=a)` in odl (outside odl/solvers) are read from the AST and
    must be modelled or classified (aux-class-set, aliased-call-site-all).
Oracle (independent of the model, on the real code): P(x) vs y = x.copy(); P(y, out=y) vs
P(x, out=NaN-filled z); returned object is `out`; x, g, sigma bitwise unchanged.  It is also
applied to the calculus wrappers (translation, scaling, quadratic perturbation, composition,
convex conjugate, combine_proximals) and to `.proximal` of every functional of
odl.solvers.functional that can be constructed (these are operator expression trees: theorem
C10.alias_safe_tree covers their combinators, their values are not compared with a model here).
"""
import ast
import os
import struct

import numpy as np

from vf import core

EXTRA_TARGETS = ('OdlModel.Model.ProxFloat',)   # imported by the driver only
RULE = ('factory x flags(g none/given, sigma scalar/element, lower/upper, product/array-weighted '
        'branch) x space kind (rn / uniform_discr with cell volume <1,=1,>1 / constant weight / '
        'array weight / power spaces of rn and of uniform_discr) x parameter draw x input class (generic, zeros, '
        'on-threshold, large); evaluated = one (aliased, non-aliased) pair on the real code and '
        'on the model; non-trivial = P(x) is neither 0 nor x; distinct = distinct '
        '(program, flags, space kind, branch signature) among non-trivial cases.')
TRUSTED = ['hand-written model programs Model/ProxProg.lean (tied by running them against the '
           'real classes on every run; no translator)',
           'NumPy element-wise ufuncs with out identical to an input are well defined; '
           'space.lincomb obeys its specification (that is property C01)']
ASSUMPTIONS = ['identity aliasing only (overlapping views of distinct objects are outside C10)',
               'since the extra round the aliased call ON the closed-over element itself (x = out = g / sigma / '
               'bounds / prior / translation y / the vector of OperatorVectorSum) IS checked (stratum self-alias, '
               'P(e, out=e) vs P(e.copy())); overlapping views of distinct objects remain outside C10',
               'one NumPy/ODL call reads all its inputs before it writes `out` (ufuncs with out '
               'identical to an input; space.lincomb = property C01): for the 25 program variants '
               'whose only write to out is their last statement alias safety IS this assumption plus '
               'the correspondence test; the theorem has content of its own for the 17 variants '
               'that write out more than once (box 11, ccL2Sq 11, l2Sq 11, ccL1, l1, l1l2, linfty, '
               'ccLinfty, ccKL, sumc 0, power)',
               'the _call bodies are stateless: a model program runs from a fresh store with fresh '
               'temporaries; instance state kept between calls is outside the model and is tested by '
               'the history stream (sequences of calls on one instance vs fresh instances)',
               'element-wise functions, norms, sort / cumsum / argsort of proj_simplex, Lambert-W '
               'are uninterpreted in the theorems; the driver instantiates them with IEEE double '
               'implementations; the per-component loops of ProximalHuber / ConvexConjL1L2 / L1L2 '
               'are merged into one statement on the flattened element',
               'the Float64 model covers real float64 spaces (rn, uniform_discr, constant / array '
               'weights, power spaces; since round 4 also 2-d tensor and 2-d discretized spaces for '
               'the element-wise bodies: stream prog-2d, and complex spaces for the 14 arithmetic-only '
               'variants executed at K = complex doubles: stream complex-correspondence); the other '
               'bodies on complex spaces, float32 and nested product spaces are covered by the '
               'oracle only (extra_space_stream)',
               'round 4 bodies (Model/ProxAux.lean): the default in-place bridge is modelled on its '
               'small-size path (fewer than THRESHOLD_SMALL = 100 entries: out = 1*res + 0*res), the '
               'one all generated sizes take; GroupL1Gradient for exponent 2 and unweighted power '
               'spaces; the composite gradient classes FunctionalComposition/Product/QuotientGradient '
               'are listed, not modelled; the aliased call sites of odl/trafos (ndarray helper '
               'fast_1d_tensor_mult) are classified, not modelled',
               'wrappers built by operator arithmetic are covered by the combinator theorems '
               '(C10.alias_safe_tree; C10.diagonal_alias_safe for combine_proximals), which are '
               'conditional on the leaf contract; their model-vs-code comparison (trees and '
               'DiagonalOperator over proximal leaves, aliased mode) is part of the C03 run, not of '
               'this one; NuclearNormProximal (out-of-place only) is tested through the default '
               'bridge, not modelled; proximal classes of odl.contrib are listed, not covered']

NAN_BITS = 0x7ff8000000000000


def bits(x):
    return struct.unpack('<Q', struct.pack('<d', float(x)))[0]


def unbits(n):
    return struct.unpack('<d', struct.pack('<Q', int(n)))[0]


def bl(arr):
    arr = np.asarray(arr, dtype=float).ravel()
    return ','.join(str(bits(v)) for v in arr.tolist()) if arr.size else '-'


def parse_bl(s):
    return [] if s in ('', '-') else [unbits(t) for t in s.split(',')]


def flat(x):
    import odl
    if isinstance(x.space, odl.ProductSpace):
        return np.concatenate([flat(p) for p in x])
    a = np.asarray(x.asarray())
    return (a if np.iscomplexobj(a) else a.astype(float)).ravel(order='C')


def make_elem(space, vals):
    import odl
    vals = np.array(vals)  # always a copy: never share memory with the case data
    if not np.iscomplexobj(vals):
        vals = vals.astype(float)
    if isinstance(space, odl.ProductSpace):
        n = len(vals) // len(space)
        return space.element([make_elem(space[i], vals[i * n:(i + 1) * n])
                              for i in range(len(space))])
    return space.element(vals.astype(space.dtype).reshape(space.shape))


# ---------------------------------------------------------------------------
# the program table: model id -> how to build the real operator

def _po():
    from odl.solvers.nonsmooth import proximal_operators as po
    return po


class Plan(object):
    """One (program, flags) combination."""

    def __init__(self, mid, flags, kinds, tol=False, needs=(), aux=False):
        self.mid, self.flags, self.kinds, self.tol, self.needs = mid, flags, kinds, tol, needs
        self.aux = aux      # round 4: body of `auxProg` (Model/ProxAux.lean), protocol op `aux`

    @property
    def label(self):
        return ('aux/' if self.aux else 'prog/') + '{}/{}'.format(self.mid, self.flags or '-')


T = ('rn', 'discr', 'rnc', 'rnw')          # element-wise bodies: every tensor-like space
TC = ('rn', 'discr', 'rnc')                # bodies using the scalar norm weight
TP = ('rn', 'discr', 'rnc', 'rnw', 'pspace')
PS = ('pspace', 'pdiscr')


def plans():
    out = []
    for lo in (0, 1):
        for up in (0, 1):
            out.append(Plan('box', '{}{}'.format(lo, up), T))
    for g in (0, 1):
        out.append(Plan('l2', str(g), TC, tol=True))
        out.append(Plan('ccL1', str(g), TP))
        out.append(Plan('ccL1L2', str(g), PS))
        out.append(Plan('l1l2', str(g), PS))
        out.append(Plan('ccKL', str(g), T))
        out.append(Plan('ccKLCE', str(g), T, tol=True))
        for se in (0, 1):
            out.append(Plan('ccL2Sq', '{}{}'.format(se, g), T))
            out.append(Plan('l2Sq', '{}{}'.format(se, g), T))
            out.append(Plan('l1', '{}{}'.format(se, g), TP if not se else T))
    for mid in ('linfty', 'ccLinfty'):
        out.append(Plan(mid, '', T))
    out.append(Plan('huber', '0', T))
    out.append(Plan('huber', '1', PS))
    for mid in ('simplex', 'sumc'):
        out.append(Plan(mid, '0', TC))          # unweighted / constant weight branch
        out.append(Plan(mid, '1', ('rnw',)))    # array-weighted branch
    for mid in ('scaling', 'lincombOp', 'multiply', 'constant', 'zero'):
        out.append(Plan(mid, '', T))
    out.append(Plan('power', '', T, tol=True))
    return out


def aux_plans():
    """Round 4: `PointwiseNorm._abs_pow_ufunc` (3 branches) and the gradient operators of
    default_functionals.py (model: Model/ProxAux.lean, `auxProg`)."""
    out = [Plan('absPowSqrt', '', T, aux=True), Plan('absPowSq', '', T, aux=True),
           Plan('absPowGen', '', T, tol=True, aux=True),
           Plan('gradL1', '', T, aux=True), Plan('gradL2', '', TC, tol=True, aux=True)]
    for g in (0, 1):
        out.append(Plan('gradKL', str(g), T, aux=True))
        out.append(Plan('gradKLCC', str(g), T, aux=True))
        out.append(Plan('gradKLCE', str(g), T, tol=True, aux=True))
        out.append(Plan('gradKLCECC', str(g), T, tol=True, aux=True))
    out.append(Plan('gradHuber', '0', T, aux=True))
    out.append(Plan('gradHuber', '1', PS, aux=True))
    out.append(Plan('gradGroupL1', '', PS, aux=True))
    out.append(Plan('rosen', '', ('rn2p',), tol=True, aux=True))
    # the bodies are shape-polymorphic (element-wise on the flattened data): the same programs are
    # compared on 2-d tensor / discretized spaces too
    for p in out:
        if p.kinds in (T, TC):
            p.kinds = p.kinds + ('rn2d', 'discr2d')
            if p.mid.startswith('grad'):
                # round 5: the default bridge from THRESHOLD_SMALL = 100 entries on (plain copy)
                p.kinds = p.kinds + ('rnbig',)
    return out


COMPLEX_MIDS = ('ccL2Sq', 'l2Sq', 'scaling', 'lincombOp', 'multiply', 'constant', 'zero')


def plans_complex():
    """Round 4: the arithmetic-only bodies of `prog` (the model's `arithOnly`) executed at
    K = complex doubles and compared on cn / complex uniform_discr (oracle-only before)."""
    out = [Plan(p.mid, p.flags, ('cn', 'cdiscr'), tol=True) for p in plans()
           if p.mid in COMPLEX_MIDS]
    out.append(Plan('box', '00', ('cn', 'cdiscr'), tol=True))
    return out


def plans_2d():
    """Round 4: the element-wise bodies of `prog` (plans whose spaces are the tensor-like kinds)
    on 2-d spaces, which were oracle-only before: same programs, data flattened in C order."""
    return [Plan(p.mid, p.flags, ('rn2d', 'discr2d'), tol=p.tol) for p in plans()
            if p.kinds in (T, TC)]


def all_plans():
    return plans() + aux_plans()


class MethodOp(object):
    """`PointwiseNorm._abs_pow_ufunc(fi, out, p)` presented with the calling convention of an
    operator (the method has no out-of-place form: `P(x)` writes into a new element)."""

    def __init__(self, pn, space, p):
        self.pn, self.domain, self.range, self.p = pn, space, space, p

    def __call__(self, x, out=None):
        if out is None:
            out = self.range.element()
        self.pn._abs_pow_ufunc(x, out=out, p=self.p)
        return out


def grid(rng, n, lo=-24, hi=24, den=8.0):
    return np.array([rng.randint(lo, hi) for _ in range(n)], dtype=float) / den


def make_space(kind, rng):
    import odl
    if kind == 'rn':
        n = rng.choice([1, 2, 3, 5, 8])
        return odl.rn(n), n, 1, 1.0
    if kind == 'discr':
        n = rng.choice([2, 4, 8])
        sp = odl.uniform_discr(0, rng.choice([1, 2, 8, 32]), n)   # cell volume < 1, = 1, > 1
        return sp, n, 1, float(sp.cell_volume)
    if kind == 'rnc':
        n = rng.choice([1, 2, 3, 5])
        c = rng.choice([0.5, 2.0, 4.0, 0.25])
        return odl.rn(n, weighting=c), n, 1, c
    if kind == 'rn2p':
        n = rng.choice([2, 3, 4, 6])
        return odl.rn(n), n, 1, 1.0
    if kind == 'rnbig':
        n = rng.choice([100, 101, 128])
        return odl.rn(n), n, 1, 1.0
    if kind == 'rnw':
        n = rng.choice([1, 2, 3, 5])
        wts = np.array([rng.choice([0.5, 1.0, 2.0, 4.0]) for _ in range(n)])
        return odl.rn(n, weighting=wts), n, 1, 1.0
    n = rng.choice([1, 2, 4])
    mc = rng.choice([2, 3])
    if kind == 'pdiscr':
        n = rng.choice([2, 4])
        return odl.ProductSpace(odl.uniform_discr(0, rng.choice([1, 2, 16]), n), mc), n, mc, 1.0
    return odl.ProductSpace(odl.rn(n), mc), n, mc, 1.0


ORACLE_ONLY_KINDS = ('cn', 'f32', 'rn2d', 'discr2d', 'cdiscr', 'nested')


def make_space_extra(kind, rng):
    """Spaces inside C10's quantifier that the Float64 model does not cover (complex, float32,
    2-d, nested products): oracle only."""
    import odl
    if kind == 'cn':
        n = rng.choice([1, 3, 4])
        return odl.cn(n), n, 1, 1.0
    if kind == 'f32':
        n = rng.choice([2, 5])
        return odl.rn(n, dtype='float32'), n, 1, 1.0
    if kind == 'rn2d':
        return odl.rn((2, 3)), 6, 1, 1.0
    if kind == 'discr2d':
        sp = odl.uniform_discr([0, 0], [1, 2], (2, 4))
        return sp, 8, 1, float(sp.cell_volume)
    if kind == 'cdiscr':
        sp = odl.uniform_discr(0, 2, 4, dtype='complex128')
        return sp, 4, 1, float(sp.cell_volume)
    return odl.ProductSpace(odl.ProductSpace(odl.rn(2), 2), 2), 2, 4, 1.0


def const_weight(space):
    """The constant the factories close over (`_const_weight(space)` of the module), read
    from the module when it exists."""
    po = _po()
    f = getattr(po, '_const_weight', None)
    return float(f(space)) if f is not None else 1.0


def build(plan, kind, rng, xclass):
    """Construct the real operator and the model line parameters for one case."""
    import odl
    po = _po()
    if isinstance(rng, int):
        import random
        rng = random.Random(rng)       # a recorded case seed: the case is rebuilt exactly
    space, n, mc, w = make_space_extra(kind, rng) if kind in ORACLE_ONLY_KINDS else \
        make_space(kind, rng)
    N = n * mc
    mid, fl = plan.mid, plan.flags
    elems = {}
    par = dict(lam=rng.choice([1.0, 0.5, 2.0]), sigma=rng.choice([1.0, 0.5, 2.0, 0.25]),
               gamma=rng.choice([0.5, 1.0, 2.0]), radius=rng.choice([1.0, 0.5, 2.0, 4.0]),
               eps=0.0, cw=const_weight(space), a=rng.choice([2.0, -1.0, 0.5, 0.0, 1.0, -3.0]),
               b=rng.choice([1.0, -2.0, 0.25, 0.0]), p=rng.choice([2.0, 3.0, 0.5, 1.5]))
    bufs = dict(g=None, sig=None, lo=None, up=None)
    x = grid(rng, N)
    if kind in ('cn', 'cdiscr'):
        x = x + 1j * grid(rng, N)
    if xclass == 'zero':
        x = np.zeros(N)
    elif xclass == 'large':
        x = x * 8
        x[0] = x[0] + 64        # far outside every ball / threshold, whatever was drawn: the
        #                         `step < 1` / `outside the l1 ball` branches are reached on purpose
    elif xclass == 'small':
        x = x / 16
    gvals = grid(rng, N)
    if kind in ('cn', 'cdiscr'):
        gvals = gvals + 1j * grid(rng, N)
    sigvals = np.array([rng.choice([0.5, 1.0, 2.0, 4.0]) for _ in range(N)])
    lam, sigma = par['lam'], par['sigma']
    P = None
    F = None            # the factory object (sigma -> operator), when the class comes from one
    skind = 'scalar'    # kind of step size the created instance received
    if mid == 'box':
        lo_s, up_s = rng.random() < 0.5, rng.random() < 0.5
        lov = np.full(N, rng.choice([-1.0, 0.0, -0.5])) if lo_s else grid(rng, N, -16, 0)
        upv = np.full(N, rng.choice([1.0, 0.5, 2.0])) if up_s else grid(rng, N, 1, 16)
        lower = upper = None
        if fl[0] == '1':
            bufs['lo'] = lov
            lower = float(lov[0]) if lo_s else make_elem(space, lov)
            elems['lo'] = lower
        if fl[1] == '1':
            bufs['up'] = upv
            upper = float(upv[0]) if up_s else make_elem(space, upv)
            elems['up'] = upper
        F = po.proximal_box_constraint(space, lower=lower, upper=upper)
        P = F(sigma)
    elif mid in ('l2', 'ccL1', 'ccL1L2', 'l1l2', 'ccKL', 'ccKLCE'):
        g = None
        if fl[0] == '1':
            if mid in ('ccKL', 'ccKLCE'):
                gvals = np.abs(gvals) + 0.125
            bufs['g'] = gvals
            g = make_elem(space, gvals)
            elems['g'] = g
        fac = {'l2': po.proximal_l2, 'ccL1': po.proximal_convex_conj_l1,
               'ccL1L2': po.proximal_convex_conj_l1_l2, 'l1l2': po.proximal_l1_l2,
               'ccKL': po.proximal_convex_conj_kl,
               'ccKLCE': po.proximal_convex_conj_kl_cross_entropy}[mid]
        if mid == 'l2':
            par['eps'] = float(np.finfo(getattr(space, 'dtype', float)).resolution * 10)
            if xclass == 'thr':
                # exactly on the branch point ||x - g|| = sigma * lam (one non-zero entry)
                e0 = np.zeros(N)
                e0[rng.randrange(N)] = sigma * lam * rng.choice([-1.0, 1.0]) / np.sqrt(w)
                x = (gvals if g is not None else 0) + e0
        F = fac(space, lam=lam, g=g)
        P = F(sigma)
    elif mid in ('ccL2Sq', 'l2Sq', 'l1'):
        g = None
        if fl[1] == '1':
            bufs['g'] = gvals
            g = make_elem(space, gvals)
            elems['g'] = g
        s = sigma
        if fl[0] == '1':
            bufs['sig'] = sigvals
            s = make_elem(space, sigvals)
            elems['sig'] = s
        fac = {'ccL2Sq': po.proximal_convex_conj_l2_squared, 'l2Sq': po.proximal_l2_squared,
               'l1': po.proximal_l1}[mid]
        if mid == 'l1' and xclass == 'thr':
            # entries exactly on the threshold |x - g| = sigma*lam
            sl = (sigvals if fl[0] == '1' else sigma) * lam
            x = (gvals if g is not None else 0) + sl * np.array(
                [rng.choice([-1.0, 1.0]) for _ in range(N)])
        F = fac(space, lam=lam, g=g)
        skind = 'element' if fl[0] == '1' else 'scalar'
        P = F(s)
    elif mid == 'linfty':
        par['sigma'] = par['radius']
        F = po.proximal_linfty(space)
        P = F(par['sigma'])
        if xclass == 'thr':
            x = l1_threshold(N, par['sigma'] / par['cw'], rng)   # ||x||_1 = radius exactly
    elif mid == 'ccLinfty':
        F = po.proximal_convex_conj_linfty(space)
        P = F(sigma)
        if xclass == 'thr':
            x = l1_threshold(N, 1.0 / par['cw'], rng)
    elif mid == 'huber':
        F = po.proximal_huber(space, par['gamma'])
        P = F(sigma)
        if xclass == 'thr':
            x = (par['gamma'] + sigma) * np.array([rng.choice([-1.0, 1.0, 0.5]) for _ in range(N)])
    elif mid == 'simplex':
        if fl == '1':
            bufs['sig'] = np.asarray(space.weighting.array, dtype=float).ravel().copy()
        F = odl.solvers.IndicatorSimplex(space, diameter=par['radius']).proximal
        P = F(sigma)
    elif mid == 'sumc':
        if fl == '1':
            bufs['sig'] = np.asarray(space.weighting.array, dtype=float).ravel().copy()
        F = odl.solvers.IndicatorSumConstraint(space, sum_value=par['radius']).proximal
        P = F(sigma)
    elif mid == 'scaling':
        P = odl.ScalingOperator(space, par['a']) if par['a'] != 1.0 else odl.IdentityOperator(space)
    elif mid == 'lincombOp':
        bufs['g'] = gvals
        P = odl.LinCombOperator(space, par['a'], par['b'])
    elif mid == 'multiply':
        bufs['sig'] = sigvals
        elems['sig'] = make_elem(space, sigvals)
        P = odl.MultiplyOperator(elems['sig'])
    elif mid == 'constant':
        bufs['g'] = gvals
        elems['g'] = make_elem(space, gvals)
        P = odl.ConstantOperator(elems['g'])
    elif mid == 'zero':
        P = odl.ZeroOperator(space)
    elif mid == 'power':
        P = odl.PowerOperator(space, par['p'])
        if par['p'] not in (2.0, 3.0):
            x = np.abs(x) + 0.125
    elif mid in ('absPowSqrt', 'absPowSq', 'absPowGen'):
        # the method of a PointwiseNorm on ProductSpace(space, 2); exponent chosen so that the
        # library's own aliased call `_abs_pow_ufunc(out, out=out, p=1/exponent)` takes this branch
        # where one exists (0.5 <- exponent 2, 0.25 <- exponent 4)
        p = {'absPowSqrt': 0.5, 'absPowSq': 2.0}.get(mid) or rng.choice([3.0, 1.5, 0.25])
        par['p'] = p
        pn = odl.PointwiseNorm(odl.ProductSpace(space, 2),
                               exponent={0.5: 2.0, 0.25: 4.0}.get(p, 3.0))
        P = MethodOp(pn, space, p)
    elif mid in ('gradL1', 'gradL2'):
        P = (odl.solvers.L1Norm(space) if mid == 'gradL1' else odl.solvers.L2Norm(space)).gradient
    elif mid in ('gradKL', 'gradKLCC', 'gradKLCE', 'gradKLCECC'):
        prior = None
        if fl[0] == '1':
            gvals = np.abs(gvals) + 0.125
            bufs['g'] = gvals
            prior = make_elem(space, gvals)
            elems['g'] = prior
        if mid in ('gradKLCE',) and xclass not in ('zero',):
            x = np.abs(x) + 0.125          # the gradient raises for non-positive entries
        if mid == 'gradKLCC':
            x = np.where(x == 1.0, 0.5, x)
            if prior is not None and np.any(gvals == 1.0):   # prior / (1 - prior) must stay finite
                gvals = np.where(gvals == 1.0, 0.5, gvals)
                bufs['g'] = gvals
                prior = make_elem(space, gvals)
                elems['g'] = prior
        S = odl.solvers
        fun = S.KullbackLeibler(space, prior=prior) if mid in ('gradKL', 'gradKLCC') else \
            S.KullbackLeiblerCrossEntropy(space, prior=prior)
        P = (fun if mid in ('gradKL', 'gradKLCE') else fun.convex_conj).gradient
    elif mid == 'gradHuber':
        P = odl.solvers.Huber(space, par['gamma']).gradient
        if xclass == 'thr':
            x = par['gamma'] * np.array([rng.choice([-1.0, 1.0, 0.5]) for _ in range(N)])
    elif mid == 'gradGroupL1':
        P = odl.solvers.GroupL1Norm(space).gradient
    elif mid == 'rosen':
        par['a'] = rng.choice([1.0, 2.0, 0.5, 100.0])
        P = odl.solvers.RosenbrockFunctional(space, scale=par['a']).gradient
    else:
        raise KeyError(mid)
    if mid in ('ccL1', 'ccL1L2'):
        # the factory closes over lam * (1 - 10 * resolution): read the value actually used
        par['lam'] = closure_var(P, 'lam', lam)
    return dict(plan=plan, kind=kind, space=space, n=n, mc=mc, w=w, par=par, bufs=bufs, x=x,
                P=P, xclass=xclass, elems=elems, F=F, skind=skind)


def l1_threshold(N, r, rng):
    """x with ||x||_1 == r exactly (r a dyadic rational): r/2, -r/2 on two entries (r on one)."""
    x = np.zeros(N)
    if N == 1:
        x[0] = r * rng.choice([-1.0, 1.0])
    else:
        i, j = rng.sample(range(N), 2)
        x[i], x[j] = r / 2, -r / 2
    return x


def model_line(c, alias, junk):
    par = c['par']
    N = c['n'] * c['mc']
    b = c['bufs']
    return ('{} id={} flags={} alias={} n={} mc={} w={} p={} lam={} sigma={} gamma={} radius={} '
            'eps={} cw={} a={} b={} x={} j={} g={} sig={} lo={} up={}').format(
        'aux' if c['plan'].aux else 'prox', c['plan'].mid, c['plan'].flags or '-', int(alias), c['n'], c['mc'], bits(c['w']),
        bits(par['p']), bits(par['lam']), bits(par['sigma']), bits(par['gamma']),
        bits(par['radius']), bits(par['eps']), bits(par['cw']), bits(par['a']), bits(par['b']),
        bl(c['x']), bl(junk), *[bl(b[k]) if b[k] is not None else '-' for k in
                                ('g', 'sig', 'lo', 'up')])


def cmodel_line(c, alias):
    """Protocol line of the complex driver op `cprox` (real and imaginary parts separately)."""
    par = c['par']
    N = c['n'] * c['mc']
    parts = ['cprox id={} flags={} alias={} n={}'.format(c['plan'].mid, c['plan'].flags or '-',
                                                        int(alias), N)]
    for k in ('lam', 'sigma', 'gamma', 'radius', 'eps', 'cw', 'a', 'b'):
        parts.append('{}={}'.format(k, bits(par[k])))
    bufs = dict(c['bufs'], x=c['x'], j=np.full(N, np.nan) + 1j * np.full(N, np.nan))
    for k in ('x', 'j', 'g', 'sig', 'lo', 'up'):
        v = bufs[k]
        if v is None:
            parts.append('{}=- {}i=-'.format(k, k))
        else:
            v = np.asarray(v, dtype=complex)
            parts.append('{}={} {}i={}'.format(k, bl(v.real), k, bl(v.imag)))
    return ' '.join(parts)


def complex_stream(ctx, reps):
    """The programs at K = complex: real code on cn / complex uniform_discr (non-aliased with
    NaN-filled out, and aliased) vs the model program executed over complex doubles; the oracle
    runs on every case as well."""
    lines, pending = [], []
    for plan in plans_complex():
        for kind in plan.kinds:
            for rep in range(reps):
                cseed = ctx.rng.getrandbits(48)
                try:
                    c = build(plan, kind, cseed, 'gen')
                    c['cseed'] = cseed
                except Exception as e:  # noqa
                    ctx.disagree({'kind': 'construct', 'id': plan.mid, 'flags': plan.flags,
                                  'space': kind}, 'cannot construct: {}: {}'.format(
                                      type(e).__name__, str(e)[:120]), 'model program exists',
                                 stream='complex-correspondence')
                    continue
                space = c['space']
                x_elem = make_elem(space, c['x'])
                second = make_elem(space, c['bufs']['g']) if plan.mid == 'lincombOp' else None
                frames = [(nm, e) for nm, e in c['elems'].items() if hasattr(e, 'space')]
                res, problems = oracle(ctx, None, None, c['P'], x_elem, space, True, second, frames)
                desc = describe(c)
                key = 'prox {} flags={} space={} xclass=gen'.format(plan.mid, plan.flags or '-', kind)
                if problems:
                    ctx.violation(key, '; '.join(problems)[:600], desc)
                st = res['oop'][0]
                ctx.case(('complex', plan.mid, plan.flags, kind) if st == 'ok' and
                         np.any(res['oop'][1] != 0) and np.any(np.imag(res['oop'][1]) != 0)
                         else None)
                ctx.hit('complex/{}/{}'.format(plan.mid, plan.flags or '-'))
                if st != 'ok':
                    ctx.err('complex:' + st.split(':')[1])
                    continue
                lines.append(cmodel_line(c, False))
                lines.append(cmodel_line(c, True))
                pending.append((c, desc, res))
    outs = core.run_driver('C10', lines)
    for k, (c, desc, res) in enumerate(pending):
        for alias, ans in ((False, outs[2 * k]), (True, outs[2 * k + 1])):
            mode = 'alias' if alias else 'junk'
            if res[mode][0] != 'ok' or not ans.startswith('ok '):
                ctx.disagree(dict(desc, alias=alias), res[mode][0], ans[:200],
                             stream='complex-correspondence')
                continue
            f = dict(t.split('=', 1) for t in ans.split()[1:])

            def cbuf(i):
                return np.array(parse_bl(f['b%d' % i])) + 1j * np.array(parse_bl(f['c%d' % i]))
            mout = cbuf(0 if alias else 1)
            if not same(mout, res[mode][1], True):
                ctx.disagree(dict(desc, alias=alias),
                             'out = {}'.format([complex(v) for v in res[mode][1]][:6]),
                             'out = {}'.format([complex(v) for v in mout][:6]),
                             stream='complex-correspondence')
                continue
            if not alias and not same(cbuf(0), c['x'], False):
                ctx.disagree(dict(desc, alias=alias), 'x unchanged', 'model writes x',
                             stream='complex-correspondence')
            for nm, bid in (('g', 2), ('sig', 3)):
                if c['bufs'][nm] is not None and not same(cbuf(bid), c['bufs'][nm], False):
                    ctx.disagree(dict(desc, alias=alias), nm + ' unchanged', 'model writes ' + nm,
                                 stream='complex-correspondence')


def same(a, b, tol):
    """compare two float arrays: bitwise (NaN == NaN) or within tolerance"""
    if np.iscomplexobj(a) or np.iscomplexobj(b):
        a, b = np.asarray(a, dtype=complex), np.asarray(b, dtype=complex)
        return same(a.real, b.real, tol) and same(a.imag, b.imag, tol)
    a = np.asarray(a, dtype=float)
    b = np.asarray(b, dtype=float)
    if a.shape != b.shape:
        return False
    if not tol:
        return bool(np.array_equal(a, b, equal_nan=True))
    if not np.array_equal(np.isnan(a), np.isnan(b)):
        return False
    ok = np.isnan(a)
    fin = np.isfinite(a) & np.isfinite(b)
    scale = max(1.0, float(np.max(np.abs(a[fin]))) if fin.any() else 1.0)
    ok = ok | (a == b)
    ok = ok | (fin & (np.abs(a - b) <= 1e-9 * scale + 1e-12))
    return bool(ok.all())


def junk_vals(n):
    """Previous content of a non-aliased `out`: NaN, so that any read of `out` before it is
    written shows up (since /repo 82e7c58 `set_zero` writes exact zeros; the theorems use no
    arithmetic law, so they cover NaN junk)."""
    return np.full(n, np.nan)


def closure_var(P, name, default):
    """Value of a variable closed over by the class's `_call` (e.g. the fudged `lam`)."""
    try:
        fn = type(P)._call
        idx = fn.__code__.co_freevars.index(name)
        return float(fn.__closure__[idx].cell_contents)
    except Exception:  # noqa
        return default


def call_real(P, x_elem, mode, space, lincomb_second=None):
    """mode: 'oop' | 'junk' | 'alias'.  Returns (status, result array, input-after array)."""
    try:
        arg = x_elem if lincomb_second is None else None
        if mode == 'oop':
            xin = x_elem.copy()
            a = xin if lincomb_second is None else P.domain.element([xin, lincomb_second])
            r = P(a)
            return 'ok', flat(r), flat(xin), (r in P.range)
        if mode == 'junk':
            xin = x_elem.copy()
            z = make_elem(space, junk_vals(flat(x_elem).size))
            a = xin if lincomb_second is None else P.domain.element([xin, lincomb_second])
            r = P(a, out=z)
            return 'ok', flat(z), flat(xin), (r is z)
        y = x_elem.copy()
        a = y if lincomb_second is None else P.domain.element([y, lincomb_second])
        r = P(a, out=y)
        return 'ok', flat(y), None, (r is y)
    except Exception as e:  # noqa
        return 'err:{}:{}'.format(type(e).__name__, str(e)[:100]), None, None, False


def call_real_keep(P, x_elem, mode, space):
    """Like `call_real` for the in-place modes, but the buffers are reported also when the call
    raises (what an exception leaves behind in `out` / `x`)."""
    xin = x_elem.copy()
    out = xin if mode == 'alias' else make_elem(space, junk_vals(flat(x_elem).size))
    try:
        P(xin, out=out)
        st = 'ok'
    except Exception as e:  # noqa
        st = 'raised:{}'.format(type(e).__name__)
    return st, flat(out), (None if mode == 'alias' else flat(xin)), True


def only_inf_to_nan(res):
    """True iff the ONLY difference between the in-place results and P(x) is the one of finding
    C10-F3 / C01-F3: entries where P(x) is +-inf arrive as NaN, everything else agrees."""
    if res['oop'][0] != 'ok' or np.all(np.isfinite(res['oop'][1])):
        return False
    ref = np.asarray(res['oop'][1], dtype=float)
    inf = np.isinf(ref)
    for mode in ('junk', 'alias'):
        if res[mode][0] != 'ok' or not res[mode][3]:
            return False
        got = np.asarray(res[mode][1], dtype=float)
        if got.shape != ref.shape or not np.all(np.isnan(got[inf])) or \
                not same(got[~inf], ref[~inf], True):
            return False
        if mode == 'junk' and not np.array_equal(res[mode][2], res['oop'][2], equal_nan=True):
            return False
    return True


def oracle(ctx, key, desc, P, x_elem, space, tol, second=None, frames=()):
    """The property's oracle on the real code. Returns (results dict, problems list)."""
    res = {}
    problems = []
    pre = [(nm, flat(e).copy()) for nm, e in frames]
    for mode in ('oop', 'junk', 'alias'):
        res[mode] = call_real(P, x_elem, mode, space, second)
    st = {m: res[m][0] for m in res}
    if st['oop'] != 'ok':
        # not an aliasing question: the operator cannot be evaluated at all for this input;
        # it is a violation only if the in-place calls behave differently
        if st['alias'] == 'ok' or st['junk'] == 'ok':
            problems.append('P(x) raises ({}) but an in-place call succeeds'.format(st['oop']))
        return res, problems
    ref = res['oop'][1]
    for mode, what in (('junk', 'P(x, out=z) with NaN-filled z'),
                       ('alias', 'y = x.copy(); P(y, out=y)')):
        if st[mode] != 'ok':
            problems.append('{} raises {}'.format(what, st[mode]))
            continue
        if not res[mode][3]:
            problems.append('{} did not return the out object'.format(what))
        # bitwise identity is not required between the in-place and out-of-place paths
        # (lincomb may round differently); 1e-9 relative is
        if not same(res[mode][1], ref, True):
            bad = int(np.argmax(~np.isclose(res[mode][1], ref, rtol=1e-9, atol=1e-12,
                                            equal_nan=True)))
            problems.append('{} differs from P(x) at flat index {}: got {!r}, P(x) gives {!r}'
                            .format(what, bad, float(res[mode][1][bad]), float(ref[bad])))
    if not res['oop'][3]:
        problems.append('P(x) is not an element of the range')
    for mode in ('oop', 'junk'):
        if st[mode] == 'ok' and not np.array_equal(res[mode][2], flat(x_elem), equal_nan=True):
            problems.append('input x modified by the {} call'.format(
                'out-of-place' if mode == 'oop' else 'non-aliased in-place'))
    for (nm, before), (_, e) in zip(pre, frames):
        if not np.array_equal(before, flat(e), equal_nan=True):
            problems.append('closed-over data `{}` modified by a call'.format(nm))
    return res, problems


def _py_files(*rel_dirs):
    for rel in rel_dirs:
        root = os.path.join(core.REPO, rel)
        for d, _, files in os.walk(root):
            if os.sep + 'test' in d or 'examples' in d:
                continue
            for fn in sorted(files):
                if fn.endswith('.py'):
                    yield os.path.relpath(os.path.join(d, fn), core.REPO)


def module_classes():
    """Operator classes that are proximal operators, with whether `_call` takes `out`, read from
    the AST of EVERY source file under odl/solvers: a class is a proximal class when it lives
    in proximal_operators.py, or its name contains `Prox`, or it is defined inside a function /
    property whose name contains `prox`; its bases must name an Operator (any spelling)."""
    found, where = {}, {}

    def visit(node, rel, in_prox):
        for child in ast.iter_child_nodes(node):
            if isinstance(child, (ast.FunctionDef, ast.AsyncFunctionDef)):
                visit(child, rel, in_prox or 'prox' in child.name.lower())
            elif isinstance(child, ast.ClassDef):
                bases = [ast.unparse(b) for b in child.bases]
                is_op = any(b.split('.')[-1].endswith('Operator') for b in bases)
                prox_cls = in_prox or 'prox' in child.name.lower() or \
                    rel.endswith('proximal_operators.py')
                if is_op and prox_cls:
                    for fn in child.body:
                        if isinstance(fn, ast.FunctionDef) and fn.name == '_call':
                            args = [a.arg for a in fn.args.args] + \
                                [a.arg for a in fn.args.kwonlyargs]
                            found[child.name] = ('out' in args)
                            where[child.name] = '{}:{}'.format(rel, child.lineno)
                visit(child, rel, in_prox)
            else:
                visit(child, rel, in_prox)
    for rel in _py_files('odl/solvers'):
        with open(os.path.join(core.REPO, rel)) as f:
            visit(ast.parse(f.read()), rel, False)
    contrib = {}
    for rel in _py_files('odl/contrib'):
        try:
            with open(os.path.join(core.REPO, rel)) as f:
                tree = ast.parse(f.read())
        except Exception:
            continue
        for node in ast.walk(tree):
            if isinstance(node, ast.ClassDef) and 'prox' in node.name.lower():
                contrib[node.name] = '{}:{}'.format(rel, node.lineno)
    return found, where, contrib


def aliased_call_sites():
    """`f(a, out=a)` and `f(a.lincomb(...), out=a)` (lincomb returns `a`) in the solver sources,
    by AST: the calls whose aliasing C10 is about."""
    sites = []
    for rel in list(_py_files('odl/solvers')) + list(_py_files('odl/contrib/solvers')):
        try:
            with open(os.path.join(core.REPO, rel)) as f:
                tree = ast.parse(f.read())
        except Exception:
            continue
        for node in ast.walk(tree):
            if not isinstance(node, ast.Call) or not node.args:
                continue
            outs = [k.value for k in node.keywords if k.arg == 'out']
            if not outs:
                continue
            out_src = ast.unparse(outs[0])
            a0 = node.args[0]
            aliased = ast.unparse(a0) == out_src or (
                isinstance(a0, ast.Call) and isinstance(a0.func, ast.Attribute) and
                a0.func.attr in ('lincomb', 'assign', 'set_zero') and
                ast.unparse(a0.func.value) == out_src)
            if aliased and not isinstance(node.func, ast.Attribute) or \
                    (aliased and isinstance(node.func, ast.Attribute) and
                     node.func.attr not in ('divide', 'multiply', 'lincomb', 'maximum', 'minimum',
                                            'absolute', 'sqrt', 'square', 'sign', 'exp', 'log')):
                sites.append({'site': '{}:{}'.format(rel, node.lineno),
                              'callee': ast.unparse(node.func)[:80], 'arg': out_src})
    return sites


def check_class_set(ctx):
    found, where, contrib = module_classes()
    names = sorted(found)
    outs = core.run_driver('C10', ['class name=' + nm for nm in names] + ['table'])
    uncovered, bridged = [], []
    for nm, ans in zip(names, outs[:-1]):
        if not found[nm]:
            bridged.append(nm)   # out-of-place only: in-place goes through the default bridge
            continue
        ctx.hit('class/' + nm)
        if not ans.startswith('ok prog='):
            uncovered.append(nm)
            ctx.disagree({'kind': 'class-set', 'class': nm},
                         'class with an in-place `_call` exists in /repo', 'no model program',
                         stream='class-set')
    table = outs[-1][len('ok classes='):].split(',') if outs[-1].startswith('ok classes=') else []
    default_ops = {'ScalingOperator', 'IdentityOperator', 'LinCombOperator', 'MultiplyOperator',
                   'ConstantOperator', 'ZeroOperator', 'PowerOperator'}
    import odl
    for nm in table:
        if nm in default_ops:
            if not hasattr(odl, nm):
                ctx.disagree({'kind': 'class-set', 'class': nm}, 'class no longer in odl',
                             'model program exists', stream='class-set')
        elif nm not in found:
            ctx.disagree({'kind': 'class-set', 'class': nm},
                         'class no longer in the module (renamed/removed)', 'model program exists',
                         stream='class-set')
    # aliased call sites of the solvers: every callee must be the application of a proximal
    # operator (covered by the programs, alias_safe_tree, diagonal_alias_safe); anything else
    # applied with out = its own input is an uncovered obligation
    sites = aliased_call_sites()
    for st in sites:
        st['covered'] = bool(__import__('re').search(r'prox', st['callee'], flags=2))
        if not st['covered'] and 'contrib' not in st['site']:
            ctx.disagree({'kind': 'aliased-call-site', 'site': st['site'], 'callee': st['callee']},
                         'a solver applies `{}` with out identical to its input'.format(st['callee']),
                         'not an application of a proximal operator: no theorem covers it',
                         stream='aliased-call-site')
    ctx.extra['aliased_call_sites'] = sites
    ctx.extra['proximal_class_locations'] = where
    ctx.extra['contrib_proximal_classes(not modelled, not tested)'] = contrib
    ctx.extra['proximal_classes_in_module'] = names
    ctx.extra['out_of_place_only_classes(default bridge)'] = bridged
    ctx.extra['uncovered_classes'] = uncovered


ALL_ODL_SITES = {
    # (file, enclosing definition, callee) of every `f(a, out=a)` on a non-ufunc callee outside
    # odl/solvers, with what covers it. A site not listed here breaks the obligation.
    ('odl/operator/tensor_ops.py', 'PointwiseNorm._call_vecfield_p', 'self._abs_pow_ufunc'):
        'model programs absPowSqrt / absPowSq / absPowGen (theorem C10.aux_alias_safe)',
    ('odl/trafos/fourier.py', 'FourierTransform._call_numpy', 'self._postprocess'):
        'ndarray helper (dft_postprocess_data -> fast_1d_tensor_mult): not modelled in C10',
    ('odl/trafos/fourier.py', 'FourierTransform._call_pyfftw', 'self._postprocess'):
        'ndarray helper (dft_postprocess_data -> fast_1d_tensor_mult): not modelled in C10',
    ('odl/trafos/fourier.py', 'FourierTransformInverse._call_numpy', 'self._postprocess'):
        'ndarray helper (dft_postprocess_data -> fast_1d_tensor_mult): not modelled in C10',
    ('odl/trafos/fourier.py', 'FourierTransformInverse._call_pyfftw', 'self._postprocess'):
        'ndarray helper (dft_postprocess_data -> fast_1d_tensor_mult): not modelled in C10',
    ('odl/trafos/util/ft_utils.py', 'dft_preprocess_data', 'fast_1d_tensor_mult'):
        'ndarray helper (`out[:] = ndarr` self-assignment, then `out *= ...`): not modelled in C10',
    ('odl/trafos/util/ft_utils.py', 'dft_postprocess_data', 'fast_1d_tensor_mult'):
        'ndarray helper (`out[:] = ndarr` self-assignment, then `out *= ...`): not modelled in C10',
}
UFUNC_LIKE = ('divide', 'multiply', 'lincomb', 'maximum', 'minimum', 'absolute', 'sqrt', 'square',
              'sign', 'exp', 'log', 'power', 'add', 'subtract')


def all_odl_aliased_sites():
    """Every call in odl (outside odl/solvers, odl/contrib, tests) in which the `out=` keyword is
    syntactically one of the positional arguments, except NumPy / space ufunc-like methods
    (one call reading its inputs before writing: the stated assumption)."""
    sites = []
    for rel in _py_files('odl'):
        if rel.startswith(('odl/solvers', 'odl/contrib')):
            continue
        try:
            with open(os.path.join(core.REPO, rel)) as f:
                tree = ast.parse(f.read())
        except Exception:
            continue
        parents = {}
        for node in ast.walk(tree):
            for ch in ast.iter_child_nodes(node):
                parents[ch] = node
        for node in ast.walk(tree):
            if not isinstance(node, ast.Call):
                continue
            outs = [k.value for k in node.keywords if k.arg == 'out']
            if not outs or ast.unparse(outs[0]) not in [ast.unparse(a) for a in node.args]:
                continue
            if isinstance(node.func, ast.Attribute) and node.func.attr in UFUNC_LIKE:
                continue
            if isinstance(node.func, ast.Attribute) and \
                    ast.unparse(node.func.value) in ('np', 'numpy'):
                continue
            enc, q = [], node
            while q in parents:
                q = parents[q]
                if isinstance(q, (ast.FunctionDef, ast.ClassDef)):
                    enc.append(q.name)
            sites.append((rel, '.'.join(reversed(enc)), ast.unparse(node.func), node.lineno))
    return sites


def gradient_classes():
    """Operator classes defined inside a `gradient` property/method anywhere under odl/solvers
    (by AST), with whether `_call` takes `out`."""
    found = {}

    def visit(node, rel, in_grad):
        for child in ast.iter_child_nodes(node):
            if isinstance(child, (ast.FunctionDef, ast.AsyncFunctionDef)):
                visit(child, rel, in_grad or child.name == 'gradient')
            elif isinstance(child, ast.ClassDef):
                bases = [ast.unparse(b) for b in child.bases]
                if in_grad and any(b.split('.')[-1].endswith('Operator') for b in bases):
                    for fn in child.body:
                        if isinstance(fn, ast.FunctionDef) and fn.name == '_call':
                            found[child.name] = ('{}:{}'.format(rel, child.lineno),
                                                 'out' in [a.arg for a in fn.args.args])
                visit(child, rel, in_grad)
            else:
                visit(child, rel, in_grad)
    for rel in _py_files('odl/solvers'):
        with open(os.path.join(core.REPO, rel)) as f:
            visit(ast.parse(f.read()), rel, False)
    return found


NOT_MODELLED_GRADIENTS = {
    'FunctionalCompositionGradient': 'out-of-place composite `op.adjoint(func.gradient(op(x)))`: '
                                     'operator calls, default bridge; oracle only',
    'FunctionalProductGradient': 'out-of-place composite of two functionals and their gradients '
                                 '(element arithmetic); default bridge; not modelled',
    'FunctionalQuotientGradient': 'out-of-place composite of two functionals and their gradients '
                                  '(element arithmetic); default bridge; not modelled',
}


def check_aux_class_set(ctx):
    """Round 4 obligations: (1) every gradient Operator class of odl/solvers has a model body
    (and every model body names an existing class); (2) every aliased call site of ALL of odl is
    classified."""
    found = gradient_classes()
    ans = core.run_driver('C10', ['auxtable'])[0]
    table = ans[len('ok classes='):].split(',') if ans.startswith('ok classes=') else []
    for nm in sorted(found):
        ctx.hit('aux-class/' + nm)
        if nm not in table and nm not in NOT_MODELLED_GRADIENTS:
            ctx.disagree({'kind': 'aux-class-set', 'class': nm, 'where': found[nm][0]},
                         'gradient operator class exists in /repo', 'no model body',
                         stream='aux-class-set')
    for nm in table:
        if nm == 'PointwiseNorm._abs_pow_ufunc':
            import odl
            if not hasattr(odl.PointwiseNorm, '_abs_pow_ufunc'):
                ctx.disagree({'kind': 'aux-class-set', 'class': nm}, 'method no longer exists',
                             'model body exists', stream='aux-class-set')
        elif nm not in found:
            ctx.disagree({'kind': 'aux-class-set', 'class': nm},
                         'gradient class no longer in odl/solvers (renamed/removed)',
                         'model body exists', stream='aux-class-set')
    sites = all_odl_aliased_sites()
    listed = []
    for rel, enc, callee, line in sites:
        cover = ALL_ODL_SITES.get((rel, enc, callee))
        listed.append({'site': '{}:{}'.format(rel, line), 'in': enc, 'callee': callee,
                       'covered_by': cover})
        ctx.hit('aliased-site-all/' + ('classified' if cover else 'unclassified'))
        if cover is None:
            ctx.disagree({'kind': 'aliased-call-site-all', 'site': '{}:{}'.format(rel, line),
                          'in': enc, 'callee': callee},
                         '`{}` is applied with out identical to its argument'.format(callee),
                         'site not classified: no model body / theorem covers it',
                         stream='aliased-call-site-all')
    seen = {(r, e, c) for r, e, c, _ in sites}
    for k in ALL_ODL_SITES:
        if k not in seen:
            ctx.disagree({'kind': 'aliased-call-site-all', 'site': list(k)},
                         'site no longer present in /repo', 'listed in ALL_ODL_SITES',
                         stream='aliased-call-site-all')
    ctx.extra['aliased_call_sites_all_odl'] = listed
    ctx.extra['gradient_operator_classes'] = {k: v[0] for k, v in found.items()}
    ctx.extra['gradient_classes_not_modelled'] = {k: v for k, v in NOT_MODELLED_GRADIENTS.items()
                                                  if k in found}


def describe(c):
    return {'kind': 'prog', 'id': c['plan'].mid, 'flags': c['plan'].flags, 'space': c['kind'],
            'cseed': c.get('cseed'), 'n': c['n'], 'mc': c['mc'], 'xclass': c['xclass'],
            'par': {k: v for k, v in c['par'].items()},
            'x': [str(v) for v in c['x']] if np.iscomplexobj(c['x']) else [float(v) for v in c['x']],
            'bufs': {k: (None if v is None else
                         [str(t) for t in v] if np.iscomplexobj(v) else [float(t) for t in v])
                     for k, v in c['bufs'].items()}}


def run_prog_case(ctx, c, lines, pending):
    import odl
    plan = c['plan']
    space = c['space']
    x_elem = make_elem(space, c['x'])
    second = make_elem(space, c['bufs']['g']) if plan.mid == 'lincombOp' else None
    frames = [(nm, e) for nm, e in c.get('elems', {}).items() if hasattr(e, 'space')]
    res, problems = oracle(ctx, None, None, c['P'], x_elem, space, plan.tol, second, frames)
    desc = describe(c)
    key = '{} {} flags={} space={} xclass={}'.format('aux' if plan.aux else 'prox', plan.mid,
                                                     plan.flags or '-', c['kind'], c['xclass'])
    if problems and plan.aux and only_inf_to_nan(res):
        key += ' nonfinite-result'
    if problems:
        ctx.violation(key, '; '.join(problems)[:600], desc)
    st = res['oop'][0]
    nontrivial = (st == 'ok' and np.any(res['oop'][1] != 0) and
                  not np.array_equal(res['oop'][1], c['x']))
    branch = ''
    if st == 'ok':
        r = res['oop'][1]
        branch = '{}{}{}'.format(int(np.any(r == 0)), int(np.any(r == c['x'])),
                                 int(np.any((r != 0) & (r != c['x']))))
    ctx.case((plan.mid, plan.flags, c['kind'], branch) if nontrivial else None,
             sample={'case': {k: desc[k] for k in ('id', 'flags', 'space', 'x', 'par')},
                     'P(x)': [float(v) for v in res['oop'][1]] if st == 'ok' else st}
             if c['n'] * c['mc'] <= 3 else None)
    ctx.hit(plan.label)
    if plan.aux:
        aux_branch_hits(ctx, c, st)
    if st == 'ok' and plan.mid == 'l2':
        gz = c['bufs']['g'] if c['bufs']['g'] is not None else np.zeros_like(c['x'])
        ctx.hit('branch/l2/' + ('step>=1(set_zero|assign g)' if np.array_equal(res['oop'][1], gz)
                                else 'step<1(lincomb)'))
    if st == 'ok' and plan.mid in ('linfty', 'ccLinfty'):
        inside = np.sum(np.abs(c['x'])) <= (c['par']['sigma'] if plan.mid == 'linfty' else 1.0) \
            / c['par']['cw']
        ctx.hit('branch/proj_l1/' + ('inside-ball(copy)' if inside else 'outside(simplex)'))
    if st != 'ok' and plan.mid == 'gradKLCE' and 'ValueError' in st:
        # the raise path of the body: what the exception leaves in `out` / `x` is compared with
        # the model (theorem C10.klce_gradient_raise_writes_nothing)
        res = dict(res, junk=call_real_keep(c['P'], x_elem, 'junk', space),
                   alias=call_real_keep(c['P'], x_elem, 'alias', space))
        for mode in ('junk', 'alias'):
            if not res[mode][0].startswith('raised'):
                ctx.violation(key, 'P(x) raises but the {} call does not'.format(mode), desc)
                return
            res[mode] = ('ok',) + res[mode][1:]
        if not np.all(np.isnan(res['junk'][1])) or not same(res['alias'][1], c['x'], False) or \
                not same(res['junk'][2], c['x'], False):
            ctx.violation(key + ' raise-path', 'the raising call modified out or x: out={} x={}'
                          .format(res['junk'][1][:6], res['alias'][1][:6]), desc)
    elif st != 'ok':
        ctx.err(st.split(':')[1])
        return
    N = c['n'] * c['mc']
    lines.append(model_line(c, False, junk_vals(N)))
    lines.append(model_line(c, True, junk_vals(N)))
    # K aliased calls on the same element (solver-like iteration): the executed `aliasedCalls`
    # of the model (theorem C10.history_invariant) vs the real operator
    it = None
    if plan.mid not in ('lincombOp', 'rosen'):   # rosen: the aliased iterates overflow
        try:
            y = make_elem(space, c['x'])
            for _ in range(3):
                c['P'](y, out=y)
            it = ('ok', flat(y))
        except Exception as e:  # noqa
            it = ('err:{}'.format(type(e).__name__), None)
            if plan.mid == 'gradKLCE' and isinstance(e, ValueError):
                # a raising call writes nothing, so do the following ones: the model's
                # `aliasedCalls 3` must hold what the last successful call left
                it = ('ok', flat(y))
    lines.append(model_line(c, True, junk_vals(N)) + ' iters=3')
    pending.append((c, desc, res, it))
    if plan.mid != 'lincombOp':
        got = self_alias_check(ctx, key.split(' nonfinite-result')[0],
                               'aux' if plan.aux else 'prog', c['P'], frames, desc)
        for nm, arr in got:
            if nm in SELF_BUF and not plan.aux:
                SELF_PENDING.append((model_line(c, True, junk_vals(N)) + ' self={}'.format(
                    SELF_BUF[nm]), c, desc, nm, arr))


def aux_branch_hits(ctx, c, st):
    """Branches of the round-4 bodies, determined from the INPUT (not from the model)."""
    mid, x = c['plan'].mid, np.asarray(c['x'], dtype=float)
    if mid.startswith('grad') and mid != 'gradGroupL1':
        ctx.hit('aux-branch/bridge/' + ('size>=100(copy)' if x.size >= 100 else 'size<100(1*r+0*r)'))
    if mid == 'gradL2':
        ctx.hit('aux-branch/gradL2/' + ('norm==0(zero)' if not np.any(x) else 'norm!=0(x/norm)'))
    elif mid == 'gradKLCE':
        ctx.hit('aux-branch/gradKLCE/' + ('raise' if st != 'ok' else 'finite'))
    elif mid == 'gradHuber':
        nrm = np.abs(x) if c['mc'] == 1 else np.sqrt((x.reshape(c['mc'], c['n']) ** 2).sum(0))
        if np.any(nrm >= c['par']['gamma']):
            ctx.hit('aux-branch/gradHuber/large(x/norm)')
        if np.any(nrm < c['par']['gamma']):
            ctx.hit('aux-branch/gradHuber/small(x/gamma)')
    elif mid == 'gradGroupL1':
        nrm = np.sqrt((x.reshape(c['mc'], c['n']) ** 2).sum(0))
        ctx.hit('aux-branch/gradGroupL1/' + ('some-zero-norm' if np.any(nrm == 0) else 'nonzero'))
    elif mid.startswith('absPow'):
        ctx.hit('aux-branch/absPow/p={}'.format(c['par']['p']))


SELF_BUF = {'g': 2, 'sig': 3, 'lo': 4, 'up': 5}
SELF_PENDING = []


def compare_self_alias(ctx):
    """Model runs with x = out = the data buffer (`self=d`, `run P d d m`) vs the real call
    P(e, out=e) on the closed-over element (theorem C10.self_alias_safe_repaired)."""
    todo = list(SELF_PENDING)
    del SELF_PENDING[:]
    outs = core.run_driver('C10', [t[0] for t in todo])
    for (line, c, desc, nm, arr), ans in zip(todo, outs):
        ctx.hit('self-alias-model/' + nm)
        if not ans.startswith('ok '):
            ctx.disagree(dict(desc, self_alias=nm), 'ok', ans[:200], stream='self-alias-model')
            continue
        f = dict(t.split('=', 1) for t in ans.split()[1:])
        mout = parse_bl(f['b%d' % SELF_BUF[nm]])
        if not same(mout, arr, True if c['plan'].tol else False) and not same(mout, arr, c['plan'].tol):
            ctx.disagree(dict(desc, self_alias=nm),
                         '{} after P({}, out={}) = {}'.format(nm, nm, nm, [float(v) for v in arr][:8]),
                         'model run with x = out = buffer {}: {}'.format(SELF_BUF[nm], mout[:8]),
                         stream='self-alias-model')


def compare_model(ctx, pending, outs):
    compare_self_alias(ctx)
    for k, (c, desc, res, it) in enumerate(pending):
        plan = c['plan']
        pre = 'aux-' if plan.aux else ''
        ans3 = outs[3 * k + 2]
        if it is not None:
            if it[0] != 'ok' or not ans3.startswith('ok '):
                if not (it[0] != 'ok' and res['alias'][0] != 'ok'):
                    ctx.disagree(dict(desc, iters=3), it[0], ans3[:120],
                                 stream=pre + 'iterated-alias')
            else:
                f3 = dict(t.split('=', 1) for t in ans3.split()[1:])
                if not same(parse_bl(f3['b0']), it[1], True if plan.tol else 1e-300) and \
                        not same(parse_bl(f3['b0']), it[1], plan.tol):
                    ctx.disagree(dict(desc, iters=3),
                                 'x after 3 aliased calls = {}'.format([float(v) for v in it[1]][:8]),
                                 'aliasedCalls 3 = {}'.format(parse_bl(f3['b0'])[:8]),
                                 stream=pre + 'iterated-alias')
            ctx.hit('{}iterated-alias/{}/{}'.format(pre, plan.mid, plan.flags or '-'))
        for alias, ans in ((False, outs[3 * k]), (True, outs[3 * k + 1])):
            mode = 'alias' if alias else 'junk'
            if res[mode][0] != 'ok':
                ctx.disagree(dict(desc, alias=alias), res[mode][0], ans[:200], stream=pre + 'correspondence')
                continue
            if not ans.startswith('ok '):
                ctx.disagree(dict(desc, alias=alias), 'ok', ans[:200], stream=pre + 'correspondence')
                continue
            f = dict(t.split('=', 1) for t in ans.split()[1:])
            mout = parse_bl(f['b0'] if alias else f['b1'])
            if not same(mout, res[mode][1], plan.tol):
                ctx.disagree(dict(desc, alias=alias),
                             'out = {}'.format([float(v) for v in res[mode][1]][:8]),
                             'out = {}'.format(mout[:8]), stream=pre + 'correspondence')
                continue
            # frame on the model side: x (non-aliased) and data buffers unchanged
            if not alias and not same(parse_bl(f['b0']), c['x'], False):
                ctx.disagree(dict(desc, alias=alias), 'x unchanged', 'model writes x',
                             stream=pre + 'correspondence')
            for nm, bid in (('g', 'b2'), ('sig', 'b3'), ('lo', 'b4'), ('up', 'b5')):
                if c['bufs'][nm] is not None and not same(parse_bl(f[bid]), c['bufs'][nm], False):
                    ctx.disagree(dict(desc, alias=alias), nm + ' unchanged', 'model writes ' + nm,
                                 stream=pre + 'correspondence')


# ---------------------------------------------------------------------------
# wrappers and functional-level proximals: oracle on the real code

def wrapper_cases(ctx, reps, seeds=None):
    import odl
    import random
    po = _po()
    for rep in range(reps if seeds is None else len(seeds)):
        rs = ctx.rng.getrandbits(48) if seeds is None else seeds[rep]
        rng = random.Random(rs)      # everything of this repetition is a function of `rs`
        for kind in ('rn', 'discr'):
            space, n, mc, w = make_space(kind, rng)
            N = n * mc
            g = make_elem(space, grid(rng, N))
            yv = make_elem(space, grid(rng, N))
            sig = rng.choice([0.5, 1.0, 2.0])
            bases = [
                ('l1', po.proximal_l1(space)), ('l1g', po.proximal_l1(space, g=g)),
                ('ccl1', po.proximal_convex_conj_l1(space, lam=0.5)),
                ('l2', po.proximal_l2(space)), ('l2sq', po.proximal_l2_squared(space, g=g)),
                ('box', po.proximal_box_constraint(space, -0.5, 1.0)),
                ('linf', po.proximal_linfty(space)),
                ('cckl', po.proximal_convex_conj_kl(space, g=space.one())),
                ('huber', po.proximal_huber(space, 0.5)),
            ]
            sig_el = make_elem(space, np.array([rng.choice([0.5, 1.0, 2.0]) for _ in range(N)]))
            for bname, fac in (('l1', po.proximal_l1(space)), ('l2sq g', po.proximal_l2_squared(
                    space, g=g)), ('ccl2sq', po.proximal_convex_conj_l2_squared(space))):
                # element-valued step size through the calculus wrappers
                for wname, mk in (
                        ('convex_conj[sigma element]', lambda fac=fac: po.proximal_convex_conj(fac)(sig_el)),
                        ('translation[sigma element]',
                         lambda fac=fac: po.proximal_translation(fac, yv)(sig_el)),
                        ('arg_scaling[sigma element]',
                         lambda fac=fac: po.proximal_arg_scaling(fac, 2.0)(sig_el)),
                        ('quad_pert[sigma element]',
                         lambda fac=fac: po.proximal_quadratic_perturbation(fac, 0.5)(sig_el))):
                    yield ('wrapper {}({}) space={}'.format(wname, bname, kind), mk, space,
                           grid(rng, N), [('g', g), ('y', yv), ('sigma', sig_el)], rs)
            for bname, fac in bases:
                wr = [
                    ('convex_conj', lambda: po.proximal_convex_conj(fac)(sig)),
                    ('translation', lambda: po.proximal_translation(fac, yv)(sig)),
                    ('arg_scaling', lambda: po.proximal_arg_scaling(fac, rng.choice([2.0, -0.5]))(sig)),
                    ('arg_scaling0', lambda: po.proximal_arg_scaling(fac, 0)(sig)),
                    ('quad_pert', lambda: po.proximal_quadratic_perturbation(fac, 0.5)(sig)),
                    ('quad_pert_u', lambda: po.proximal_quadratic_perturbation(fac, 1.5, u=yv)(sig)),
                    ('composition', lambda: po.proximal_composition(
                        fac, odl.ScalingOperator(space, 2.0), 4.0)(sig)),
                    ('conj_conj', lambda: po.proximal_convex_conj(po.proximal_convex_conj(fac))(sig)),
                    ('trans_scal', lambda: po.proximal_translation(
                        po.proximal_arg_scaling(fac, 2.0), yv)(sig)),
                ]
                for wname, mk in wr:
                    yield ('wrapper {}({}) space={}'.format(wname, bname, kind), mk, space,
                           grid(rng, N), [('g', g), ('y', yv)], rs)
            # combine_proximals on a product space
            ps = odl.ProductSpace(space, 2)
            yield ('wrapper combine_proximals(l1,ccl1) space=' + kind,
                   lambda: po.combine_proximals(po.proximal_l1(space),
                                                po.proximal_convex_conj_l1(space))(sig),
                   ps, grid(rng, 2 * N), [], rs)
            yield ('wrapper combine_proximals(l2sq g,box) space=' + kind,
                   lambda: po.combine_proximals(po.proximal_l2_squared(space, g=g),
                                                po.proximal_box_constraint(space, 0, 1))(
                                                    [sig, 2 * sig]),
                   ps, grid(rng, 2 * N), [('g', g)], rs)


def functional_cases(ctx, reps, seeds=None):
    """`.proximal(sigma)` of the functionals of odl.solvers (and of their calculus)."""
    import odl
    S = odl.solvers
    import random
    for rep in range(reps if seeds is None else len(seeds)):
        rs = ctx.rng.getrandbits(48) if seeds is None else seeds[rep]
        rng = random.Random(rs)
        for kind in ('rn', 'discr'):
            space, n, mc, w = make_space(kind, rng)
            N = n
            g = make_elem(space, np.abs(grid(rng, N)) + 0.25)
            yv = make_elem(space, grid(rng, N))
            ps = odl.ProductSpace(space, 2)
            mspace = odl.ProductSpace(odl.ProductSpace(space, 2), 2)   # 2x2-matrix valued
            table = [
                ('L1Norm', lambda: S.L1Norm(space), space),
                ('L2Norm', lambda: S.L2Norm(space), space),
                ('L2NormSquared', lambda: S.L2NormSquared(space), space),
                ('LpNorm(inf)', lambda: S.LpNorm(space, float('inf')), space),
                ('GroupL1Norm', lambda: S.GroupL1Norm(ps), ps),
                ('IndicatorGroupL1UnitBall', lambda: S.IndicatorGroupL1UnitBall(ps), ps),
                ('IndicatorLpUnitBall(1)', lambda: S.IndicatorLpUnitBall(space, 1), space),
                ('IndicatorLpUnitBall(2)', lambda: S.IndicatorLpUnitBall(space, 2), space),
                ('IndicatorLpUnitBall(inf)', lambda: S.IndicatorLpUnitBall(space, float('inf')),
                 space),
                ('ConstantFunctional', lambda: S.ConstantFunctional(space, 2.0), space),
                ('ZeroFunctional', lambda: S.ZeroFunctional(space), space),
                ('IndicatorBox', lambda: S.IndicatorBox(space, -0.5, 1), space),
                ('IndicatorNonnegativity', lambda: S.IndicatorNonnegativity(space), space),
                ('IndicatorZero', lambda: S.IndicatorZero(space), space),
                ('KullbackLeibler', lambda: S.KullbackLeibler(space, prior=g), space),
                ('KullbackLeibler.convex_conj', lambda: S.KullbackLeibler(space, prior=g).convex_conj,
                 space),
                ('KullbackLeiblerCrossEntropy.convex_conj',
                 lambda: S.KullbackLeiblerCrossEntropy(space, prior=g).convex_conj, space),
                ('KullbackLeiblerCrossEntropy',
                 lambda: S.KullbackLeiblerCrossEntropy(space, prior=g), space),
                ('SeparableSum', lambda: S.SeparableSum(S.L1Norm(space), S.L2NormSquared(space)), ps),
                ('IndicatorSimplex', lambda: S.IndicatorSimplex(space, 2.0), space),
                ('IndicatorSumConstraint', lambda: S.IndicatorSumConstraint(space, 2.0), space),
                ('Huber', lambda: S.Huber(space, 0.5), space),
                ('L1Norm.convex_conj', lambda: S.L1Norm(space).convex_conj, space),
                ('L2Norm.convex_conj', lambda: S.L2Norm(space).convex_conj, space),
                ('L2NormSquared.convex_conj', lambda: S.L2NormSquared(space).convex_conj, space),
                ('L1Norm.translated', lambda: S.L1Norm(space).translated(yv), space),
                ('L2Norm.translated', lambda: S.L2Norm(space).translated(yv), space),
                ('3*L1Norm', lambda: 3.0 * S.L1Norm(space), space),
                ('L1Norm*2', lambda: S.L1Norm(space) * 2.0, space),
                ('L2NormSquared.translated.convex_conj',
                 lambda: S.L2NormSquared(space).translated(yv).convex_conj, space),
                ('Huber.convex_conj', lambda: S.Huber(space, 0.5).convex_conj, space),
                ('L1Norm+quadratic_perturb', lambda: S.FunctionalQuadraticPerturb(
                    S.L1Norm(space), quadratic_coeff=0.5, linear_term=yv), space),
                ('IndicatorBox.translated*2', lambda: S.IndicatorBox(space, 0, 1).translated(yv) * 2.0,
                 space),
                ('L1Norm*0', lambda: S.L1Norm(space) * 0.0, space),
                ('0*L1Norm', lambda: 0.0 * S.L1Norm(space), space),
                ('BregmanDistance(L2NormSquared)', lambda: S.BregmanDistance(
                    S.L2NormSquared(space), yv, S.L2NormSquared(space).gradient(yv)), space),
                ('NuclearNorm', lambda: S.NuclearNorm(mspace), mspace),
                ('NuclearNorm(1,inf)', lambda: S.NuclearNorm(mspace, outer_exp=1,
                                                             singular_vector_exp=float('inf')), mspace),
                ('IndicatorNuclearNormUnitBall', lambda: S.IndicatorNuclearNormUnitBall(mspace, outer_exp=1,
                                                       singular_vector_exp=2), mspace),
            ]
            def mk_sep():
                return S.SeparableSum(S.L1Norm(space), S.L2NormSquared(space)).proximal([0.5, 2.0])
            yield ('functional SeparableSum.proximal[list sigma] space=' + kind, mk_sep, ps,
                   grid(rng, len(flat(ps.zero()))), [], rs)
            for name, mk, sp in table:
                for sig in ([rng.choice([0.5, 1.0, 2.0])]):
                    def mkP(mk=mk, sig=sig):
                        return mk().proximal(sig)
                    xs = len(flat(sp.zero()))
                    yield ('functional {}.proximal space={}'.format(name, kind), mkP, sp,
                           grid(rng, int(xs)), [('g', g), ('y', yv)], rs)


# ---------------------------------------------------------------------------
# round 5: expression classes of operator.py that the proximal calculus never builds, their
# adjoint / inverse / derivative, and the shipped solvers that contain the aliased call sites

def expr_cases(ctx, reps, seeds=None):
    """Operators with domain == range built by EVERY arithmetic class / dunder of
    odl/operator/operator.py over proximal and default_ops leaves, and the operators their
    `adjoint`, `inverse`, `derivative(x0)` return: the oracle (aliased vs non-aliased vs
    out-of-place) on each."""
    import odl
    import random
    from odl.operator import operator as O
    po = _po()
    for rep in range(reps if seeds is None else len(seeds)):
        rs = ctx.rng.getrandbits(48) if seeds is None else seeds[rep]
        rng = random.Random(rs)
        for kind in ('rn', 'discr'):
            space, n, mc, w = make_space(kind, rng)
            N = n * mc
            vec = make_elem(space, grid(rng, N))
            pos = make_elem(space, np.abs(grid(rng, N)) + 0.5)
            x0 = make_elem(space, grid(rng, N))
            c = rng.choice([2.0, -0.5, 4.0])
            A = po.proximal_l1(space)(0.5)              # non-linear, in-place `_call`
            H = po.proximal_huber(space, 0.5)(1.0)
            Pw = odl.PowerOperator(space, 2)            # non-linear with derivative
            S = odl.ScalingOperator(space, c)
            S2 = odl.ScalingOperator(space, 0.25)
            M = odl.MultiplyOperator(pos)
            ip = odl.InnerProductOperator(vec)          # linear functional
            l2 = odl.solvers.L2NormSquared(space)       # non-linear functional
            table = [
                ('A*scalar', lambda: A * c), ('A*0', lambda: A * 0.0),
                ('(A*scalar)*scalar', lambda: (A * c) * 2.0),
                ('RightScalarMult(A,c,tmp)', lambda: O.OperatorRightScalarMult(A, c, tmp=space.element())),
                ('A*vec', lambda: A * vec), ('vec*A', lambda: vec * A),
                ('A/scalar', lambda: A / c), ('scalar*A', lambda: c * A),
                ('-A', lambda: -A), ('+A', lambda: +A),
                ('A+H', lambda: A + H), ('A-H', lambda: A - H),
                ('OperatorSum(A,H,tmps)', lambda: O.OperatorSum(A, H, space.element(), space.element())),
                ('vec+A', lambda: vec + A), ('vec-A', lambda: vec - A), ('A+vec', lambda: A + vec),
                ('A@S', lambda: A @ S), ('S**3', lambda: S ** 3), ('S**1', lambda: S ** 1),
                ('PointwiseProduct(A,H)', lambda: O.OperatorPointwiseProduct(A, H)),
                ('vec*functional', lambda: vec * l2), ('vec*ip', lambda: vec * ip),
                ('OperatorComp(A,H,tmp)', lambda: O.OperatorComp(A, H, tmp=space.element())),
                ('RightScalarMult(RightScalarMult(A,c),2)',
                 lambda: O.OperatorRightScalarMult(O.OperatorRightScalarMult(A, c), 2.0)),
                ('A+scalar', lambda: A + 2.0), ('OperatorVectorSum(A,vec)', lambda: O.OperatorVectorSum(A, vec)),
                # adjoint / inverse of the classes over linear leaves
                ('(S*M).adjoint', lambda: (S * M).adjoint), ('(S*S2).inverse', lambda: (S * S2).inverse),
                ('(S+M).adjoint', lambda: (S + M).adjoint),
                ('(c*M).adjoint', lambda: (c * M).adjoint), ('(c*S).inverse', lambda: (c * S).inverse),
                ('RightScalarMult(M,c).adjoint', lambda: O.OperatorRightScalarMult(M, c).adjoint),
                ('RightScalarMult(S,c).inverse', lambda: O.OperatorRightScalarMult(S, c).inverse),
                ('RightScalarMult(M,c)', lambda: O.OperatorRightScalarMult(M, c)),
                ('(M*vec).adjoint', lambda: O.OperatorRightVectorMult(M, pos).adjoint),
                ('(S*vec).inverse', lambda: O.OperatorRightVectorMult(S, pos).inverse),
                ('(vec*M).adjoint', lambda: O.OperatorLeftVectorMult(M, pos).adjoint),
                ('(vec*S).inverse', lambda: O.OperatorLeftVectorMult(S, pos).inverse),
                ('(vec*ip).adjoint', lambda: (vec * ip).adjoint),
                ('M.adjoint', lambda: M.adjoint), ('S.inverse', lambda: S.inverse),
                # derivatives
                ('(Pw*c).derivative', lambda: (Pw * c).derivative(x0)),
                ('(c*Pw).derivative', lambda: (c * Pw).derivative(x0)),
                ('(Pw+Pw).derivative', lambda: (Pw + Pw).derivative(x0)),
                ('(Pw+vec).derivative', lambda: (Pw + vec).derivative(x0)),
                ('(Pw*Pw).derivative', lambda: (Pw * Pw).derivative(x0)),
                ('(Pw*vec).derivative', lambda: (Pw * vec).derivative(x0)),
                ('(vec*Pw).derivative', lambda: (vec * Pw).derivative(x0)),
                ('PointwiseProduct(Pw,Pw).derivative',
                 lambda: O.OperatorPointwiseProduct(Pw, Pw).derivative(x0)),
                ('(vec*functional).derivative', lambda: (vec * l2).derivative(x0)),
                ('S.derivative', lambda: S.derivative(x0)),
            ]
            for name, mk in table:
                yield ('expr {} space={}'.format(name, kind), mk, space, grid(rng, N),
                       [('vec', vec), ('pos', pos), ('x0', x0)], rs)


EXPR_NAMES = None


def expr_names():
    global EXPR_NAMES
    if EXPR_NAMES is None:
        sub = core.Ctx('C10', 'quick', 0)
        EXPR_NAMES = sorted({k.split(' space=')[0].split(' ', 1)[1]
                             for k, _, _, _, _, _ in expr_cases(sub, 1, seeds=[1])})
    return EXPR_NAMES


def _ref_solver(name, x, y, f, g, L, phi, par, niter, l=None):
    """The documented recursion of a solver written with OUT-OF-PLACE calls only (fresh
    objects everywhere): what the in-place / aliased implementation must reproduce.
    forward_backward_pd follows the code as it is (`x_old = x` is the same object, finding of
    C12: y = x after the proximal step)."""
    x = x.copy()
    if name == 'admm_linearized':
        tau, sigma = par
        z, u = L.range.zero(), L.range.zero()
        for _ in range(niter):
            x = f.proximal(tau)(x - (tau / sigma) * L.adjoint(L(x) + u - z))
            z = g.proximal(sigma)(L(x) + u)
            u = L(x) + u - z
        return x
    if name == 'dca':
        for _ in range(niter):
            x = f.convex_conj.gradient(g.gradient(x))
        return x
    if name == 'prox_dca':
        gamma, = par
        for _ in range(niter):
            x = f.proximal(gamma)(x + gamma * g.gradient(x))
        return x
    if name == 'doubleprox_dc':
        gamma, mu = par
        y = y.copy()
        for _ in range(niter):
            x = f.proximal(gamma)(x + gamma * (L.adjoint(y) - phi.gradient(x)))
            y = g.convex_conj.proximal(mu)(y + mu * L(x))
        return np.concatenate([flat(x), flat(y)])
    if name == 'forward_backward_pd':
        tau, sigma = par
        v = [Li.range.zero() for Li in L]
        for _ in range(niter):
            tmp = phi.gradient(x) + sum(Li.adjoint(vi) for Li, vi in zip(L, v))
            x = f.proximal(tau)(x - tau * tmp)
            yy = 2.0 * x - x          # the code: x_old is x itself
            for i in range(len(L)):
                t2 = sigma[i] * (L[i](yy) - (l[i].convex_conj.gradient(v[i]) if l else 0 * v[i]))
                v[i] = g[i].convex_conj.proximal(sigma[i])(v[i] + t2)
        return x
    raise KeyError(name)


SOLVERS = ('admm_linearized', 'admm_linearized_simple', 'dca', 'prox_dca', 'doubleprox_dc',
           'doubleprox_dc_simple', 'forward_backward_pd', 'forward_backward_pd[l]')


def solver_case(rs, name, kind):
    """Everything of one solver case is a function of (rs, name, kind)."""
    import odl
    import random
    import hashlib
    S = odl.solvers
    rng = random.Random(hashlib.sha256('{}:{}:{}'.format(rs, name, kind).encode()).digest())
    space, n, mc, w = make_space(kind, rng)
    N = n * mc
    gel = make_elem(space, grid(rng, N))
    xv = grid(rng, N)
    yv = grid(rng, N)
    fs = [('L1', lambda: S.L1Norm(space)), ('L2sq-t', lambda: S.L2NormSquared(space).translated(gel)),
          ('Box', lambda: S.IndicatorBox(space, -0.5, 1.0)), ('Huber', lambda: S.Huber(space, 0.5)),
          ('L2', lambda: S.L2Norm(space))]
    smooth = [('L2sq', lambda: S.L2NormSquared(space)), ('Huber', lambda: S.Huber(space, 0.5)),
              ('L2sq-t', lambda: S.L2NormSquared(space).translated(gel))]
    Ls = [('Id', lambda: odl.IdentityOperator(space)), ('Scal', lambda: odl.ScalingOperator(space, 0.5)),
          ('Mult', lambda: odl.MultiplyOperator(make_elem(space, np.abs(gel.asarray().ravel()) * 0.25 + 0.25)))]
    fn, f = rng.choice(fs)
    gn, g = rng.choice(fs)
    pn, phi = rng.choice(smooth)
    Ln, L = rng.choice(Ls)
    niter = rng.choice([1, 2, 3, 5])
    tau, sigma = rng.choice([0.25, 0.5, 1.0]), rng.choice([0.5, 1.0, 2.0])
    base = name.split('[')[0].replace('_simple', '')
    if base in ('dca',):
        fn, f = ('L2sq-t', fs[1][1])         # f* must have a gradient
        gn, g = rng.choice(smooth)
    if base == 'prox_dca':
        gn, g = rng.choice(smooth)
    desc = 'f={} g={} phi={} L={} niter={} tau={} sigma={}'.format(fn, gn, pn, Ln, niter, tau, sigma)
    return dict(space=space, x=xv, y=yv, f=f(), g=g(), phi=phi(), L=L(), niter=niter, tau=tau,
                sigma=sigma, desc=desc, base=base, withl=name.endswith('[l]'), N=N,
                lfun=S.L2NormSquared(space))


class _Solvers(object):
    """odl.solvers plus the non-exported `_simple` variants of the anchored modules."""

    def __getattr__(self, nm):
        import odl
        from odl.solvers.nonsmooth import admm, difference_convex
        for mod in (odl.solvers, admm, difference_convex):
            if hasattr(mod, nm):
                return getattr(mod, nm)
        raise AttributeError(nm)


def run_solver_case(ctx, rs, name, kind):
    """The shipped solver (in-place, with its aliased `prox(x, out=x)` sites) against the same
    recursion computed with out-of-place calls only. Returns a problem string or None."""
    import odl
    S = _Solvers()
    c = solver_case(rs, name, kind)
    space = c['space']
    x = make_elem(space, c['x'])
    y = make_elem(space, c['y'])
    f, g, phi, L = c['f'], c['g'], c['phi'], c['L']
    base = c['base']
    seen = []
    cb = {'callback': (lambda it: seen.append(it is x))} if rs % 2 and name != 'doubleprox_dc_simple' \
        else {}
    try:
        if base == 'admm_linearized':
            par = (c['tau'], c['sigma'])
            ref = flat(_ref_solver(base, x, None, f, g, L, None, par, c['niter']))
            getattr(S, name)(x, f, g, L, c['tau'], c['sigma'], c['niter'], **cb)
            got = flat(x)
        elif base == 'dca':
            ref = flat(_ref_solver(base, x, None, f, g, None, None, (), c['niter']))
            S.dca(x, f, g, c['niter'], **cb)
            got = flat(x)
        elif base == 'prox_dca':
            ref = flat(_ref_solver(base, x, None, f, g, None, None, (c['tau'],), c['niter']))
            S.prox_dca(x, f, g, c['niter'], c['tau'], **cb)
            got = flat(x)
        elif base == 'doubleprox_dc':
            ref = _ref_solver(base, x, y, f, g, L, phi, (c['tau'], c['sigma']), c['niter'])
            getattr(S, name)(x, y, f, phi, g, L, c['niter'], c['tau'], c['sigma'], **cb)
            got = np.concatenate([flat(x), flat(y)])
        else:
            Ls2 = [L, odl.IdentityOperator(space)]
            gs = [g, S.L1Norm(space)]
            sig = [c['sigma'], 0.5]
            ls = [c['lfun'], S.L2NormSquared(space).translated(make_elem(space, c['y']))] \
                if c['withl'] else None
            ref = flat(_ref_solver(base, x, None, f, gs, Ls2, phi, (c['tau'], sig), c['niter'],
                                   l=ls))
            kw = dict({'l': ls} if ls else {}, **cb)
            S.forward_backward_pd(x, f, gs, Ls2, phi, c['tau'], sig, c['niter'], **kw)
            got = flat(x)
    except Exception as e:  # noqa
        return c, 'raises {}: {}'.format(type(e).__name__, str(e)[:120]), None
    if cb and (len(seen) != c['niter'] or not all(seen)):
        return c, 'callback called {} times in {} iterations, with the iterate object: {}'.format(
            len(seen), c['niter'], seen), got
    if not same(got, ref, True):
        bad = int(np.argmax(~np.isclose(got, ref, rtol=1e-9, atol=1e-12, equal_nan=True)))
        return c, ('in-place solver differs from the out-of-place recursion at flat index {}: got '
                   '{!r}, reference {!r}'.format(bad, float(got[bad]), float(ref[bad]))), got
    return c, None, got


def solver_validation(ctx):
    """Argument validation of the solvers: must raise and leave `x` untouched."""
    import odl
    S = odl.solvers
    sp = odl.rn(3)
    f, L = S.L1Norm(sp), odl.IdentityOperator(sp)
    sp2 = odl.rn(2)
    bad = [
        ('admm tau<=0', lambda x: S.admm_linearized(x, f, f, L, 0.0, 1.0, 2), ValueError),
        ('admm sigma<=0', lambda x: S.admm_linearized(x, f, f, L, 1.0, -1.0, 2), ValueError),
        ('admm niter<0', lambda x: S.admm_linearized(x, f, f, L, 1.0, 1.0, -1), ValueError),
        ('admm niter non-integer', lambda x: S.admm_linearized(x, f, f, L, 1.0, 1.0, 1.5), ValueError),
        ('admm callback', lambda x: S.admm_linearized(x, f, f, L, 1.0, 1.0, 1, callback=3), TypeError),
        ('dca domains', lambda x: S.dca(x, f, S.L1Norm(sp2), 1), ValueError),
        ('prox_dca domains', lambda x: S.prox_dca(x, f, S.L1Norm(sp2), 1, 1.0), ValueError),
        ('doubleprox phi domain', lambda x: S.doubleprox_dc(
            x, x.copy(), f, S.L2NormSquared(sp2), f, L, 1, 1.0, 1.0), ValueError),
        ('doubleprox K domain', lambda x: S.doubleprox_dc(
            x, x.copy(), f, S.L2NormSquared(sp), f, odl.IdentityOperator(sp2), 1, 1.0, 1.0), ValueError),
        ('doubleprox K range', lambda x: S.doubleprox_dc(
            x, x.copy(), f, S.L2NormSquared(sp), S.L1Norm(sp2), L, 1, 1.0, 1.0), ValueError),
        ('fbpd L not operators', lambda x: S.forward_backward_pd(
            x, f, [f], [3], S.L2NormSquared(sp), 1.0, [1.0], 1), ValueError),
        ('fbpd L non-linear', lambda x: S.forward_backward_pd(
            x, f, [f], [odl.PowerOperator(sp, 2)], S.L2NormSquared(sp), 1.0, [1.0], 1), ValueError),
        ('fbpd x not in domain', lambda x: S.forward_backward_pd(
            x, f, [f], [odl.IdentityOperator(sp2)], S.L2NormSquared(sp), 1.0, [1.0], 1), ValueError),
        ('fbpd len(sigma)', lambda x: S.forward_backward_pd(
            x, f, [f], [L], S.L2NormSquared(sp), 1.0, [1.0, 2.0], 1), ValueError),
        ('fbpd len(g)', lambda x: S.forward_backward_pd(
            x, f, [f, f], [L], S.L2NormSquared(sp), 1.0, [1.0], 1), ValueError),
        ('fbpd len(l)', lambda x: S.forward_backward_pd(
            x, f, [f], [L], S.L2NormSquared(sp), 1.0, [1.0], 1, l=[f, f]), ValueError),
        ('fbpd unexpected kwarg', lambda x: S.forward_backward_pd(
            x, f, [f], [L], S.L2NormSquared(sp), 1.0, [1.0], 1, foo=1), TypeError),
    ]
    for name, call, exc in bad:
        x = sp.element([1.0, -2.0, 0.5])
        ctx.hit('solver-validation/' + name)
        try:
            call(x)
            outcome = 'no exception'
        except exc:
            outcome = 'ok'
        except Exception as e:  # noqa
            outcome = 'raised {} instead of {}'.format(type(e).__name__, exc.__name__)
        ctx.case(None)
        if outcome != 'ok' or not np.array_equal(flat(x), [1.0, -2.0, 0.5]):
            ctx.violation('solver-validation ' + name,
                          '{}; x afterwards = {}'.format(outcome, flat(x)),
                          {'kind': 'solver-validation', 'name': name})


def solver_stream(ctx, reps):
    solver_validation(ctx)
    for rep in range(reps):
        rs = ctx.rng.getrandbits(48)
        for name in SOLVERS:
            for kind in ('rn', 'discr'):
                c, problem, got = run_solver_case(ctx, rs, name, kind)
                ctx.hit('solver/' + name)
                ctx.case(('solver', name, kind, c['desc'].split(' niter')[0])
                         if got is not None and np.any(got != 0) else None)
                if problem and problem.startswith('raises'):
                    ctx.err('solver:' + problem.split(':')[0])
                    ctx.extra.setdefault('solver_cases_raising', {})[
                        '{} {}'.format(name, c['desc'])] = problem
                elif problem:
                    ctx.violation('solver {} space={} {}'.format(name, kind, c['desc']), problem,
                                  {'kind': 'solver', 'rs': rs, 'name': name, 'space': kind})


class FnOp(object):
    """A module-level projection `fn(x, radius, out=None)` with the calling convention of an
    operator."""

    def __init__(self, fn, space, r):
        self.fn, self.domain, self.range, self.r = fn, space, space, r

    def __call__(self, x, out=None):
        return self.fn(x, self.r, out)


def ReturnsArray(space):
    """An operator whose out-of-place `_call` returns a plain ndarray (cast by `Operator.__call__`
    with `range.element`, written through the default bridge when `out` is given)."""
    import odl

    class _ReturnsArray(odl.Operator):
        def __init__(self):
            super(_ReturnsArray, self).__init__(space, space)

        def _call(self, x):
            return 2.0 * x.asarray() + 1.0
    return _ReturnsArray()


def option_cases(ctx, reps, seeds=None):
    """Construction options of the factories of proximal_operators.py that no other stream uses
    (array-like bounds / step sizes, sequences of step sizes through the calculus,
    proximal_nonnegativity, proj_l1 / proj_simplex with and without `out`): the oracle on each."""
    import odl
    import random
    po = _po()
    for rep in range(reps if seeds is None else len(seeds)):
        rs = ctx.rng.getrandbits(48) if seeds is None else seeds[rep]
        rng = random.Random(rs)
        for kind in ('rn', 'discr'):
            space, n, mc, w = make_space(kind, rng)
            N = n * mc
            ps = odl.ProductSpace(space, 2)
            lo = [-0.5 - 0.125 * i for i in range(N)]
            up = np.array([0.75 + 0.25 * i for i in range(N)])
            sigs = [rng.choice([0.5, 1.0, 2.0]) for _ in range(N)]
            comb = po.combine_proximals(po.proximal_l1(space), po.proximal_l2_squared(space))
            r = rng.choice([0.5, 1.0, 2.0])
            table = [
                ('nonnegativity', lambda: po.proximal_nonnegativity(space)(1.0), space),
                ('box array-like bounds',
                 lambda: po.proximal_box_constraint(space, lower=lo, upper=up)(1.0), space),
                ('ccL1 sigma array-like', lambda: po.proximal_convex_conj_l1(space)(sigs), space),
                ('convex_conj(l1)[list of point-wise sigmas]',
                 lambda: po.proximal_convex_conj(po.proximal_l1(space))(sigs), space),
                ('arg_scaling(combine)[list sigma]',
                 lambda: po.proximal_arg_scaling(comb, 2.0)([0.5, 2.0]), ps),
                ('oop _call returning an array', lambda: ReturnsArray(space), space),
                ('vec@Id', lambda: (make_elem(space, up) @ odl.IdentityOperator(space)), space),
                ('proj_l1', lambda: FnOp(po.proj_l1, space, r), space),
                ('proj_simplex', lambda: FnOp(po.proj_simplex, space, r), space),
            ]
            for name, mk, sp in table:
                yield ('option {} space={}'.format(name, kind), mk, sp,
                       grid(rng, len(flat(sp.zero()))), [], rs)


OPTION_NAMES = ('oop _call returning an array', 'vec@Id', 'nonnegativity', 'box array-like bounds', 'ccL1 sigma array-like',
                'convex_conj(l1)[list of point-wise sigmas]', 'arg_scaling(combine)[list sigma]',
                'proj_l1', 'proj_simplex')


def rejection_cases():
    """(name, callable(x, out), expected exception): invalid constructions / calls of the anchored
    code. Each must raise exactly that exception and leave `x` and `out` untouched."""
    import odl
    from odl.operator import operator as O
    po = _po()
    S = odl.solvers
    sp, sp2 = odl.rn(3), odl.rn(2)
    g2 = sp2.element([1.0, 2.0])
    A = po.proximal_l1(sp)(0.5)
    A2 = po.proximal_l1(sp2)(0.5)
    M = odl.MultiplyOperator(sp.element([1.0, 2.0, 4.0]))
    fnl = S.L1Norm(sp)

    class ReturnsOther(odl.Operator):
        def __init__(self):
            super(ReturnsOther, self).__init__(sp, sp)

        def _call(self, x, out):
            return x.copy()

    cases = [
        ('arg_scaling complex', lambda x, o: po.proximal_arg_scaling(po.proximal_l1(sp), 1 + 1j), ValueError),
        ('quadratic_perturbation a<0', lambda x, o: po.proximal_quadratic_perturbation(po.proximal_l1(sp), -1.0), ValueError),
        ('quadratic_perturbation u', lambda x, o: po.proximal_quadratic_perturbation(po.proximal_l1(sp), 1.0, u=[1, 2, 3]), TypeError),
        ('box lower>upper', lambda x, o: po.proximal_box_constraint(sp, lower=2.0, upper=1.0), ValueError),
        ('Operator.__call__ out not in range', lambda x, o: A(x, out=sp2.element([7.0, 7.0])), odl.OpRangeError),
        ('Operator.__call__ out for functional', lambda x, o: fnl(x, out=o), TypeError),
        ('Operator.__call__ returns other than out', lambda x, o: ReturnsOther()(x, out=o), ValueError),
        ('Operator.__call__ x not castable', lambda x, o: A('abc', out=o), odl.OpDomainError),
        ('Operator.__call__ x not castable oop', lambda x, o: A([1.0, 2.0]), odl.OpDomainError),
        ('Operator.__init__ domain', lambda x, o: odl.Operator(3, sp), TypeError),
        ('Operator.__init__ range', lambda x, o: odl.Operator(sp, 'r'), TypeError),
        ('Operator.__init__ linear non-LinearSpace domain',
         lambda x, o: odl.Operator(odl.IntervalProd(0, 1), sp, linear=True), TypeError),
        ('Operator.__init__ linear non-LinearSpace range',
         lambda x, o: odl.Operator(sp, odl.IntervalProd(0, 1), linear=True), TypeError),
        ('A + str', lambda x, o: A + 'abc', TypeError),
        ('Operator.adjoint not implemented', lambda x, o: odl.Operator(sp, sp, linear=True).adjoint,
         odl.OpNotImplementedError),
        ('Operator.inverse not implemented', lambda x, o: odl.Operator(sp, sp, linear=True).inverse,
         odl.OpNotImplementedError),
        ('Operator._call not implemented', lambda x, o: odl.Operator(sp, sp)(x, out=o),
         NotImplementedError),
        ('OperatorSum ranges', lambda x, o: O.OperatorSum(A, odl.Operator(sp, sp2)), odl.OpTypeError),
        ('OperatorSum domains', lambda x, o: O.OperatorSum(A, odl.Operator(sp2, sp)), odl.OpTypeError),
        ('OperatorSum tmp_ran', lambda x, o: O.OperatorSum(A, A, tmp_ran=g2), odl.OpRangeError),
        ('OperatorSum tmp_dom', lambda x, o: O.OperatorSum(A, A, tmp_dom=g2), odl.OpDomainError),
        ('PointwiseProduct ranges', lambda x, o: O.OperatorPointwiseProduct(A, odl.Operator(sp, sp2)), odl.OpTypeError),
        ('PointwiseProduct domains', lambda x, o: O.OperatorPointwiseProduct(A, odl.Operator(sp2, sp)), odl.OpTypeError),
        ('RightScalarMult scalar', lambda x, o: O.OperatorRightScalarMult(A, 'a'), TypeError),
        ('RightScalarMult tmp', lambda x, o: O.OperatorRightScalarMult(A, 2.0, tmp=g2), odl.OpDomainError),
        ('admm L not operator', lambda x, o: S.admm_linearized(x, fnl, fnl, 3, 1.0, 1.0, 1), TypeError),
        ('admm x not in L.domain', lambda x, o: S.admm_linearized(x, fnl, fnl, odl.IdentityOperator(sp2), 1.0, 1.0, 1), odl.OpDomainError),
    ]
    for nm, fac in (('l2', po.proximal_l2), ('l2_squared', po.proximal_l2_squared),
                    ('cc_l2_squared', po.proximal_convex_conj_l2_squared),
                    ('cc_l1', po.proximal_convex_conj_l1), ('l1', po.proximal_l1),
                    ('cc_kl', po.proximal_convex_conj_kl),
                    ('cc_kl_cross_entropy', po.proximal_convex_conj_kl_cross_entropy)):
        # (proximal_l2_squared has no check in the factory: its `_call` raises, before writing)
        cases.append(('g not in space ' + nm,
                      lambda x, o, fac=fac: fac(sp, g=g2)(1.0)(x, out=o), TypeError))
    psp = odl.ProductSpace(sp, 2)
    for nm, fac in (('cc_l1_l2', po.proximal_convex_conj_l1_l2), ('l1_l2', po.proximal_l1_l2)):
        cases.append(('g not in space ' + nm, lambda x, o, fac=fac: fac(psp, g=g2), TypeError))
    return cases


def rejection_stream(ctx):
    import odl
    sp = odl.rn(3)
    for name, call, exc in rejection_cases():
        x = sp.element([1.0, -2.0, 0.5])
        o = sp.element([9.0, 9.0, 9.0])
        ctx.hit('rejection/' + name)
        try:
            call(x, o)
            outcome = 'no exception'
        except exc:
            outcome = 'ok'
        except Exception as e:  # noqa
            outcome = 'raised {}: {} instead of {}'.format(type(e).__name__, str(e)[:80], exc.__name__)
        ctx.case(None)
        if outcome != 'ok' or not np.array_equal(flat(x), [1.0, -2.0, 0.5]) or \
                not np.array_equal(flat(o), [9.0, 9.0, 9.0]):
            ctx.violation('rejection ' + name, '{}; x = {}, out = {} afterwards'.format(
                outcome, flat(x), flat(o)), {'kind': 'rejection', 'name': name})


def self_alias_check(ctx, key, label, P, frames, replay_case):
    """x = out = the VERY OBJECT the operator closes over (translation y, data term g, bounds,
    prior, element-valued sigma): `P(e, out=e)` must leave in `e` what the non-aliased call on a
    copy, `P(e.copy())`, returns; every OTHER closed-over element stays bitwise unchanged.
    The element is restored afterwards (later calls of the stream use the same operator)."""
    dom = getattr(P, 'domain', None)
    results = []
    for nm, e in frames:
        if not hasattr(e, 'space') or dom is None or e.space != dom:
            continue
        saved = flat(e).copy()
        others = [(n2, e2, flat(e2).copy()) for n2, e2 in frames if e2 is not e and
                  hasattr(e2, 'space')]
        try:
            ref = ('ok', flat(P(e.copy())))
        except Exception as ex:  # noqa
            ref = ('err:' + type(ex).__name__, None)
        if not np.array_equal(flat(e), saved, equal_nan=True):
            ctx.violation(key + ' self-alias=' + nm, 'P(copy of `{}`) modified `{}` itself'.format(
                nm, nm), dict(replay_case, self_alias=nm))
        try:
            r = P(e, out=e)
            got = ('ok', flat(e).copy(), r is e)
        except Exception as ex:  # noqa
            got = ('err:{}:{}'.format(type(ex).__name__, str(ex)[:80]), None, False)
        ctx.hit('self-alias/{}/{}'.format(label, nm))
        ctx.case((label, 'self-alias', nm, key.split(' space=')[0]) if ref[0] == 'ok' and
                 np.any(ref[1] != 0) else None)
        problems = []
        if ref[0] == 'ok':
            if got[0] != 'ok':
                problems.append('P(e, out=e) on the closed-over `{}` raises {} while P(copy) works'
                                .format(nm, got[0]))
            else:
                if not got[2]:
                    problems.append('did not return the out object')
                if not same(got[1], ref[1], True):
                    bad = int(np.argmax(~np.isclose(got[1], ref[1], rtol=1e-9, atol=1e-12,
                                                    equal_nan=True)))
                    problems.append(
                        'P(e, out=e) with e the closed-over `{}` (value {}) differs from P(e.copy()) '
                        'at flat index {}: got {!r}, P(copy) gives {!r}'.format(
                            nm, [float(v) for v in np.real(saved[:6])], bad, float(np.real(got[1][bad])),
                            float(np.real(ref[1][bad]))))
        elif got[0] == 'ok':
            problems.append('P(copy of `{}`) raises {} but the aliased call succeeds'.format(nm, ref[0]))
        for n2, e2, before in others:
            if not np.array_equal(flat(e2), before, equal_nan=True):
                problems.append('closed-over `{}` modified by the call aliased to `{}`'.format(n2, nm))
        if problems:
            ctx.violation(key + ' self-alias=' + nm, '; '.join(problems)[:600],
                          dict(replay_case, self_alias=nm))
        if got[0] == 'ok':
            results.append((nm, got[1]))
        # restore the closed-over element
        try:
            e.assign(make_elem(e.space, saved))
        except Exception:  # noqa
            pass
    return results


def run_oracle_stream(ctx, gen, label, only=None, fixed_x=None):
    unavailable = {}
    for key, mk, space, xv, frames, rs in gen:
        if only is not None and key != only:
            continue
        if fixed_x is not None:
            xv = np.array(fixed_x, dtype=float)
        try:
            P = mk()
        except Exception as e:  # construction is not C10's question
            unavailable[key] = '{}: {}'.format(type(e).__name__, str(e)[:80])
            continue
        x_elem = make_elem(space, xv)
        res, problems = oracle(ctx, key, None, P, x_elem, space, True, None, frames)
        st = res['oop'][0]
        nontrivial = st == 'ok' and np.any(res['oop'][1] != 0) and \
            not np.array_equal(res['oop'][1], xv)
        ctx.case((label, key) if nontrivial else None)
        ctx.hit(label + '/' + key.split(' space=')[0].split(' ', 1)[1])
        if st != 'ok':
            ctx.err(st.split(':')[1])
        if problems:
            ctx.violation(key, '; '.join(problems)[:600],
                          {'kind': label, 'key': key, 'rs': rs, 'x': [float(v) for v in xv]})
        elif st == 'ok':
            repeated_alias(ctx, key, P, space, len(xv), rs, label)
        if st == 'ok':
            self_alias_check(ctx, key, label, P, frames,
                             {'kind': label, 'key': key, 'rs': rs, 'x': [float(v) for v in xv]})
    if unavailable:
        ctx.extra.setdefault('not_constructible', {}).update(unavailable)


def prog_stream(ctx, reps, plan_list=None):
    rng = ctx.rng
    lines, pending = [], []
    for plan in (plans() if plan_list is None else plan_list):
        for kind in plan.kinds:
            classes = ['gen'] * reps + ['zero', 'large', 'small', 'thr']
            for xclass in classes:
                cseed = rng.getrandbits(48)
                try:
                    c = build(plan, kind, cseed, xclass)
                    c['cseed'] = cseed
                except Exception as e:  # noqa
                    ctx.disagree({'kind': 'construct', 'id': plan.mid, 'flags': plan.flags,
                                  'space': kind},
                                 'cannot construct: {}: {}'.format(type(e).__name__, str(e)[:120]),
                                 'model program exists')
                    continue
                run_prog_case(ctx, c, lines, pending)
    return lines, pending


def extra_space_stream(ctx, reps):
    """Every program on the spaces the Float64 model does not cover (complex, float32, 2-d,
    complex discretisation, nested product): the oracle only."""
    rng = ctx.rng
    skipped = {}
    for plan in plans():
        if plan.mid in ('simplex', 'sumc') and plan.flags == '1':
            continue    # array-weighted branch needs an array-weighted space
        needs_product = plan.kinds == PS
        for kind in ORACLE_ONLY_KINDS:
            if needs_product != (kind == 'nested'):
                continue
            for rep in range(reps):
                cseed = rng.getrandbits(48)
                try:
                    c = build(plan, kind, cseed, 'gen')
                    c['cseed'] = cseed
                except Exception as e:  # noqa: the factory refuses this space
                    skipped['{}/{}/{}'.format(plan.mid, plan.flags or '-', kind)] = \
                        '{}: {}'.format(type(e).__name__, str(e)[:60])
                    break
                x_elem = make_elem(c['space'], c['x'])
                second = make_elem(c['space'], c['bufs']['g']) if plan.mid == 'lincombOp' else None
                frames = [(nm, e) for nm, e in c['elems'].items() if hasattr(e, 'space')]
                res, problems = oracle(ctx, None, None, c['P'], x_elem, c['space'], True, second,
                                       frames)
                st = res['oop'][0]
                ctx.case(('extra', plan.mid, plan.flags, kind) if st == 'ok' and
                         np.any(res['oop'][1] != 0) else None)
                ctx.hit('extra-space/' + kind)
                if st != 'ok':
                    ctx.err('extra:' + st.split(':')[1])
                    skipped['{}/{}/{}'.format(plan.mid, plan.flags or '-', kind)] = st[:80]
                if problems:
                    ctx.violation('prox {} flags={} space={} xclass=gen'.format(
                        plan.mid, plan.flags or '-', kind), '; '.join(problems)[:600], describe(c))
    ctx.extra['extra_spaces_not_supported'] = skipped


# ---------------------------------------------------------------------------
# history stream: ONE operator instance receives a sequence of calls with different inputs.
# The straight-line model programs are stateless (every run starts from a fresh store with
# fresh temporaries); this stream is what ties that assumption to the code: each call of the
# sequence is compared with a freshly built operator on the same input and with the model
# program run from a fresh store.

def history_sequence(ctx, plan, kind, hseed, lines, pending):
    """One sequence of 5 calls on one instance; everything is a function of `hseed`."""
    import random
    rng = random.Random(hseed)
    cseed = rng.getrandbits(48)
    try:
        c = build(plan, kind, cseed, 'gen')
    except Exception:  # reported by the prog stream
        return
    space, P = c['space'], c['P']
    N = c['n'] * c['mc']
    modes = ['alias', 'alias', 'junk', 'oop'] + [rng.choice(['alias', 'junk'])]
    rng.shuffle(modes)
    ctx.hit('history/{}/{}'.format(plan.mid, plan.flags or '-'))
    for k, mode in enumerate(modes):
        scale = rng.choice([1.0, 1.0, 8.0, 0.0625])
        xk = grid(rng, N) * scale
        if plan.mid == 'power' and c['par']['p'] not in (2.0, 3.0):
            xk = np.abs(xk) + 0.125
        x_elem = make_elem(space, xk)
        second = make_elem(space, c['bufs']['g']) if plan.mid == 'lincombOp' else None
        got = call_real(P, x_elem, mode, space, second)
        # a fresh instance with identical parameters for every comparison (called once)
        ref_c = build(plan, kind, cseed, 'gen')
        sec2 = make_elem(space, c['bufs']['g']) if plan.mid == 'lincombOp' else None
        ref = call_real(ref_c['P'], make_elem(space, xk), 'oop', space, sec2)
        desc = dict(describe(dict(c, x=xk)), kind='history', hseed=hseed, call=k, mode=mode,
                    modes=modes)
        key = 'history {} flags={} space={} call#{} mode={} after={}'.format(
            plan.mid, plan.flags or '-', kind, k, mode, ','.join(modes[:k]) or '-')
        nontrivial = ref[0] == 'ok' and np.any(ref[1] != 0) and not np.array_equal(ref[1], xk)
        ctx.case(('history', plan.mid, plan.flags, kind, mode, k > 0) if nontrivial else None)
        if ref[0] != 'ok':
            continue
        if got[0] != 'ok':
            ctx.violation(key, 'call on the reused instance raises {} while a fresh '
                          'instance gives a result'.format(got[0]), desc)
            continue
        if not same(got[1], ref[1], True):
            bad = int(np.argmax(~np.isclose(got[1], ref[1], rtol=1e-9, atol=1e-12,
                                            equal_nan=True)))
            ctx.violation(key, 'call {} ({}) on an operator instance that was already '
                          'called {} differs from a freshly built operator at flat index '
                          '{}: got {!r}, fresh instance gives {!r}'.format(
                              k, mode, modes[:k], bad, float(got[1][bad]),
                              float(ref[1][bad])), desc)
        if mode != 'oop' and lines is not None:
            ck = dict(c, x=xk)
            lines.append(model_line(ck, mode == 'alias', junk_vals(N)))
            pending.append((ck, desc, mode, got))


def sibling(c, rng):
    """Another instance from the SAME factory object with a different step size (same kind:
    scalar or element-valued); returns the case dict describing it for the model."""
    F = c['F']
    N = c['n'] * c['mc']
    par, bufs = dict(c['par']), dict(c['bufs'])
    if c['skind'] == 'element':
        sv = np.array([rng.choice([0.25, 0.5, 1.0, 2.0, 4.0, 8.0]) for _ in range(N)])
        bufs['sig'] = sv
        P = F(make_elem(c['space'], sv))
    else:
        s2 = rng.choice([v for v in (0.25, 0.5, 1.0, 2.0, 4.0) if v != par['sigma']])
        par['sigma'] = s2
        P = F(s2)
    return dict(c, par=par, bufs=bufs, P=P)


def cross_instance_sequence(ctx, plan, kind, hseed, lines, pending):
    """Several instances of one class — 2 from the SAME factory object with different step
    sizes, 1 from a second factory call with other data (for plain operator classes: 3 instances
    with different parameters) — receive interleaved aliased / non-aliased / out-of-place calls.
    State shared at class or factory-closure level (class attributes, closure variables,
    default-argument objects) makes a later instance wrong. Reference for every call: an
    operator built by a NEW factory call with the same parameters (a new class object, called
    exactly once) — and the model program from a fresh store."""
    import random
    rng = random.Random(hseed)
    cseed, cseed2 = rng.getrandbits(48), rng.getrandbits(48)
    try:
        c1 = build(plan, kind, cseed, 'gen')
        c3 = build(plan, kind, cseed2, 'gen')
        insts = [('A', c1, cseed, None), ('C', c3, cseed2, None)]
        if c1['F'] is not None:
            sseed = rng.getrandbits(48)
            insts.insert(1, ('B', sibling(c1, random.Random(sseed)), cseed, sseed))
        else:
            cseed3 = rng.getrandbits(48)
            insts.insert(1, ('B', build(plan, kind, cseed3, 'gen'), cseed3, None))
    except Exception:  # reported by the prog stream
        return
    ctx.hit('history/cross-instance/{}/{}'.format(plan.mid, plan.flags or '-'))
    order = []
    for k in range(9):
        order.append((rng.randrange(len(insts)), rng.choice(['alias', 'alias', 'junk', 'oop'])))
    # make sure every instance is called aliased at least once, in instance order A, B, C first
    order = [(i, 'alias') for i in range(len(insts))] + order
    done = []
    for k, (i, mode) in enumerate(order):
        name, c, seed_i, sseed = insts[i]
        space = c['space']
        N = c['n'] * c['mc']
        xk = grid(rng, N) * rng.choice([1.0, 1.0, 8.0, 0.0625])
        if plan.mid == 'power' and c['par']['p'] not in (2.0, 3.0):
            xk = np.abs(xk) + 0.125
        second = make_elem(space, c['bufs']['g']) if plan.mid == 'lincombOp' else None
        got = call_real(c['P'], make_elem(space, xk), mode, space, second)
        # isolated reference: a NEW factory call (new class object / closure), one call
        ref_c = build(plan, kind, seed_i, 'gen')
        if sseed is not None:
            ref_c = sibling(ref_c, random.Random(sseed))
        sec2 = make_elem(space, c['bufs']['g']) if plan.mid == 'lincombOp' else None
        ref = call_real(ref_c['P'], make_elem(space, xk), 'oop', space, sec2)
        desc = dict(describe(dict(c, x=xk)), kind='cross', hseed=hseed, call=k, mode=mode,
                    instance=name, before=['{}:{}'.format(insts[j][0], m) for j, m in done])
        key = 'history/cross-instance {} flags={} space={} call#{} instance={} mode={}'.format(
            plan.mid, plan.flags or '-', kind, k, name, mode)
        done.append((i, mode))
        ctx.case(('cross', plan.mid, plan.flags, kind, name, mode)
                 if ref[0] == 'ok' and np.any(ref[1] != 0) else None)
        if ref[0] != 'ok':
            continue
        if got[0] != 'ok':
            ctx.violation(key, 'call raises {} while an isolated instance gives a result'.format(
                got[0]), desc)
            continue
        if not same(got[1], ref[1], True):
            bad = int(np.argmax(~np.isclose(got[1], ref[1], rtol=1e-9, atol=1e-12, equal_nan=True)))
            ctx.violation(key, 'instance {} ({} call) after the calls {} on sibling instances of '
                          'the same class / factory differs from an operator built in isolation '
                          'at flat index {}: got {!r}, isolated {!r}'.format(
                              name, mode, desc['before'][-6:], bad, float(got[1][bad]),
                              float(ref[1][bad])), desc)
        if mode != 'oop' and lines is not None:
            ck = dict(c, x=xk)
            lines.append(model_line(ck, mode == 'alias', junk_vals(N)))
            pending.append((ck, desc, mode, got))


def history_stream(ctx, reps):
    lines, pending = [], []
    for plan in plans():
        for kind in plan.kinds:
            for rep in range(reps):
                history_sequence(ctx, plan, kind, ctx.rng.getrandbits(48), lines, pending)
        # instances of one class interleaved (first space kind of the plan; all in thorough)
        for kind in (plan.kinds[:1] if ctx.quick else plan.kinds):
            for rep in range(reps):
                cross_instance_sequence(ctx, plan, kind, ctx.rng.getrandbits(48), lines, pending)
    outs = core.run_driver('C10', lines)
    for (ck, desc, mode, got), ans in zip(pending, outs):
        if not ans.startswith('ok '):
            ctx.disagree(desc, 'ok', ans[:200], stream='history')
            continue
        f = dict(t.split('=', 1) for t in ans.split()[1:])
        mout = parse_bl(f['b0'] if mode == 'alias' else f['b1'])
        if not same(mout, got[1], ck['plan'].tol):
            ctx.disagree(desc, 'out = {}'.format([float(v) for v in got[1]][:8]),
                         'out = {} (model program from a fresh store)'.format(mout[:8]),
                         stream='history')


def repeated_alias(ctx, key, P, space, n_inputs, rs, label):
    """Wrappers / functional-level proximals: two more aliased calls with new inputs on the
    SAME instance, each compared with its own out-of-place result. Inputs are a function of
    (rs, key), so the case can be replayed exactly."""
    import hashlib
    import random
    rng = random.Random(hashlib.sha256('{}:{}'.format(rs, key).encode()).digest())
    for k in range(2):
        xk = grid(rng, n_inputs) * rng.choice([1.0, 8.0, 0.125])
        x_elem = make_elem(space, xk)
        ref = call_real(P, x_elem, 'oop', space)
        got = call_real(P, x_elem, 'alias', space)
        if ref[0] != 'ok':
            continue
        if got[0] != 'ok' or not same(got[1], ref[1], True):
            ctx.violation(key + ' repeated-alias#{}'.format(k + 2),
                          'aliased call number {} on the same instance differs from P(x): {} vs {}'
                          .format(k + 2, got[1][:6] if got[0] == 'ok' else got[0], ref[1][:6]),
                          {'kind': 'repeat', 'label': label, 'key': key, 'rs': rs,
                           'x': [float(v) for v in xk]})


def report_unhit(ctx):
    expected = ['prog/{}/{}'.format(p.mid, p.flags or '-') for p in plans()] + \
        ['history/{}/{}'.format(p.mid, p.flags or '-') for p in plans()] + \
        ['history/cross-instance/{}/{}'.format(p.mid, p.flags or '-') for p in plans()] + \
        ['branch/l2/step<1(lincomb)', 'branch/l2/step>=1(set_zero|assign g)',
         'branch/proj_l1/inside-ball(copy)', 'branch/proj_l1/outside(simplex)'] + \
        [p.label for p in aux_plans()] + \
        ['aux-iterated-alias/{}/{}'.format(p.mid, p.flags or '-') for p in aux_plans()
         if p.mid != 'rosen'] + \
        ['aux-branch/gradL2/norm==0(zero)', 'aux-branch/gradL2/norm!=0(x/norm)',
         'aux-branch/gradKLCE/raise', 'aux-branch/gradKLCE/finite',
         'aux-branch/gradHuber/large(x/norm)', 'aux-branch/gradHuber/small(x/gamma)',
         'aux-branch/gradGroupL1/some-zero-norm', 'aux-branch/gradGroupL1/nonzero',
         'aux-branch/absPow/p=0.5', 'aux-branch/absPow/p=2.0', 'aux-branch/absPow/p=0.25',
         'aux-branch/bridge/size>=100(copy)', 'aux-branch/bridge/size<100(1*r+0*r)'] + \
        ['prog-2d/{}/{}'.format(p.mid, k) for p in plans_2d() for k in p.kinds] + \
        ['complex/{}/{}'.format(p.mid, p.flags or '-') for p in plans_complex()] + \
        ['expr/' + nm for nm in expr_names()] + ['solver/' + nm for nm in SOLVERS] + \
        ['option/' + nm for nm in OPTION_NAMES] + \
        ['self-alias/prog/' + nm for nm in ('g', 'sig', 'lo', 'up')] + \
        ['self-alias-model/' + nm for nm in ('g', 'sig', 'lo', 'up')] + \
        ['self-alias/aux/g', 'self-alias/wrapper/y', 'self-alias/wrapper/g',
         'self-alias/wrapper/sigma', 'self-alias/functional/y', 'self-alias/functional/g',
         'self-alias/expr/vec'] + \
        ['rejection/' + nm for nm, _, _ in rejection_cases()]
    unhit = [b for b in expected if not ctx.branches.get(b)]
    ctx.extra['unhit_model_branches'] = unhit
    if unhit and not ctx.quick:
        ctx.disagree({'kind': 'unhit-model-branch', 'branches': unhit},
                     'never generated in this run', 'model branch exists',
                     stream='unhit-model-branch')


def run(ctx):
    check_class_set(ctx)
    reps = 2 if ctx.quick else 40
    lines, pending = prog_stream(ctx, reps)
    outs = core.run_driver('C10', lines)
    compare_model(ctx, pending, outs)
    history_stream(ctx, 1 if ctx.quick else 8)
    extra_space_stream(ctx, 1 if ctx.quick else 6)
    run_oracle_stream(ctx, wrapper_cases(ctx, 1 if ctx.quick else 10), 'wrapper')
    run_oracle_stream(ctx, functional_cases(ctx, 1 if ctx.quick else 10), 'functional')
    # round 4 (after the older streams: their random draws are unchanged)
    check_aux_class_set(ctx)
    lines, pending = prog_stream(ctx, reps, aux_plans())
    outs = core.run_driver('C10', lines)
    compare_model(ctx, pending, outs)
    lines, pending = prog_stream(ctx, 1 if ctx.quick else 10, plans_2d())
    for c, _, _, _ in pending:
        ctx.hit('prog-2d/{}/{}'.format(c['plan'].mid, c['kind']))
    outs = core.run_driver('C10', lines)
    compare_model(ctx, pending, outs)
    complex_stream(ctx, 2 if ctx.quick else 20)
    # round 5
    run_oracle_stream(ctx, expr_cases(ctx, 1 if ctx.quick else 8), 'expr')
    run_oracle_stream(ctx, option_cases(ctx, 1 if ctx.quick else 8), 'option')
    rejection_stream(ctx)
    solver_stream(ctx, 4 if ctx.quick else 25)
    report_unhit(ctx)


def search(ctx, broken):
    """A proof obligation / the class set / the correspondence broke but the oracle found
    nothing: run the oracle much harder on the real code (no model involved)."""
    rng = ctx.rng
    for plan in all_plans():
        for kind in plan.kinds:
            for xclass in ['gen'] * 25 + ['zero', 'large', 'small', 'thr'] * 3:
                try:
                    c = build(plan, kind, rng, xclass)
                except Exception:
                    continue
                space = c['space']
                x_elem = make_elem(space, c['x'])
                second = make_elem(space, c['bufs']['g']) if plan.mid == 'lincombOp' else None
                res, problems = oracle(ctx, None, None, c['P'], x_elem, space, plan.tol, second)
                ctx.evaluations += 1
                if problems:
                    skey = '{} {} flags={} space={} xclass={}'.format(
                        'aux' if plan.aux else 'prox', plan.mid, plan.flags or '-', kind, xclass)
                    if plan.aux and only_inf_to_nan(res):
                        skey += ' nonfinite-result'
                    ctx.violation(skey, '; '.join(problems)[:600], describe(c))
                if plan.mid != 'lincombOp' and res['oop'][0] == 'ok':
                    self_alias_check(ctx, '{} {} flags={} space={} xclass={}'.format(
                        'aux' if plan.aux else 'prox', plan.mid, plan.flags or '-', kind, xclass),
                        'aux' if plan.aux else 'prog', c['P'],
                        [(nm, e) for nm, e in c.get('elems', {}).items() if hasattr(e, 'space')],
                        describe(c))
    try:
        history_stream(ctx, 6)
    except core.DriverBroken:
        pass
    run_oracle_stream(ctx, wrapper_cases(ctx, 6), 'wrapper')
    run_oracle_stream(ctx, functional_cases(ctx, 6), 'functional')


def replay(ctx, case):
    """Re-run exactly the recorded case (its seed determines space, parameters, data, x)."""
    plan = [p for p in all_plans() if p.mid == case.get('id') and p.flags == case.get('flags')]
    sub = core.Ctx('C10', 'quick', 0)
    if case.get('kind') == 'prog' and plan and case.get('cseed') is not None:
        c = build(plan[0], case['space'], case['cseed'], case['xclass'])
        recorded = np.array([complex(v) for v in case['x']]) if c['x'].dtype.kind == 'c' else \
            np.array(case['x'], dtype=float)
        if not np.array_equal(np.asarray(c['x']), recorded, equal_nan=True):
            return 'replay: the rebuilt case differs from the recorded one (harness changed)'
        x_elem = make_elem(c['space'], c['x'])
        second = make_elem(c['space'], c['bufs']['g']) if plan[0].mid == 'lincombOp' else None
        frames = [(nm, e) for nm, e in c['elems'].items() if hasattr(e, 'space')]
        _, problems = oracle(sub, None, None, c['P'], x_elem, c['space'], plan[0].tol, second,
                             frames)
        if case.get('self_alias'):
            self_alias_check(sub, 'replay', 'prog', c['P'], frames, {})
            hits = [v for v in sub.violations if v['key'].endswith('self-alias=' + case['self_alias'])]
            return hits[0]['what'] if hits else None
        return '; '.join(problems) if problems else None
    if case.get('kind') == 'cross' and plan and case.get('hseed') is not None:
        cross_instance_sequence(sub, plan[0], case['space'], case['hseed'], None, None)
        hits = [v for v in sub.violations if v['replay'].get('call') == case.get('call')] or \
            sub.violations
        return hits[0]['what'] if hits else None
    if case.get('kind') == 'history' and plan and case.get('hseed') is not None:
        history_sequence(sub, plan[0], case['space'], case['hseed'], None, None)
        hits = [v for v in sub.violations if v['replay'].get('call') == case.get('call')] or \
            sub.violations
        return hits[0]['what'] if hits else None
    if case.get('kind') == 'solver' and case.get('rs') is not None:
        _, problem, _ = run_solver_case(sub, case['rs'], case['name'], case['space'])
        return problem
    if case.get('kind') == 'rejection':
        rejection_stream(sub)
        hits = [v for v in sub.violations if v['replay'].get('name') == case.get('name')]
        return hits[0]['what'] if hits else None
    if case.get('kind') == 'solver-validation':
        solver_validation(sub)
        hits = [v for v in sub.violations if v['replay'].get('name') == case.get('name')]
        return hits[0]['what'] if hits else None
    if case.get('kind') in ('wrapper', 'functional', 'repeat', 'expr', 'option') and \
            case.get('rs') is not None:
        label = case.get('label', case['kind'])
        gen = wrapper_cases(sub, 1, seeds=[case['rs']]) if label == 'wrapper' else \
            expr_cases(sub, 1, seeds=[case['rs']]) if label == 'expr' else \
            option_cases(sub, 1, seeds=[case['rs']]) if label == 'option' else \
            functional_cases(sub, 1, seeds=[case['rs']])
        key = case['key']
        fixed = case['x'] if case['kind'] != 'repeat' else None
        run_oracle_stream(sub, gen, label, only=key, fixed_x=fixed)
        if case.get('self_alias'):
            hits = [v for v in sub.violations if v['key'].endswith('self-alias=' + case['self_alias'])]
            return hits[0]['what'] if hits else None
        return sub.violations[0]['what'] if sub.violations else None
    return None
