"""C15 — sampling and interpolation.

Tie to /repo:
  (T) tools/extract/interp.py regenerates Gen/InterpEdges.lean (the masked-assignment programs of
      _compute_linear/nearest_weights_edge, the nearest index rule, the node search constants)
      from the live source; Props/C15.lean proves they compute the model functions.
  (C) correspondence:
  the real `nearest_interpolator`, `linear_interpolator`, `per_axis_interpolator`,
  `Resampling` and `linear_deform` are run on generated grids / values / points in every
  calling convention and compared EXACTLY (dyadic inputs) or within the tolerance of
  DESIGN section 4 (decimal grids) with the Lean execution of `Model/Interp.lean`
  (`Drivers/C15.lean`).  The dispatch table of the sampling wrapper (signature class -> which
  variant of the user's callable is invoked, with or without `out`) is compared with the
  model through instrumented callables; the table of value-dtype classes with np.can_cast and
  the real outcome of nearest_interpolator.
  (E) end-to-end streams (round 4): `uniform_discr(...).grid`, `Resampling(...)(x)` and
      `linear_deform(...)` against the model ops `grid` / `resample` / `deform`, which receive only
      interval, shape, nodes_on_bdry, schemes, values and displacement and compute the grids
      (`uniformNode`, `uniformNodeBdry`), the range mesh and the displaced points themselves.
Oracle (independent of the model, on the real code):
  * e2e: nodes = cell midpoints (resp. equispaced with the requested boundary nodes); results =
    textbook interpolant at the range midpoints / at x + v(x) computed from the specification
    alone; same grid / zero displacement = identity; affine data exact inside the hull; nearest
    resampling to a k-fold refinement = piecewise-constant prolongation;
  * textbook reference with exact Fractions: nearest = closest node, right one on ties,
    clamped outside; linear = multilinear blend of the surrounding nodes, with one ghost
    node of value 0 one cell outside (the documented zero extension); mixed per axis;
  * node values reproduced exactly; affine data reproduced exactly inside the hull;
  * single point / point array / mesh grid / out= give identical entries;
  * `space.element(callable)` and `sampling_function(...)` equal the callable at the grid
    points (exact rational evaluation of the polynomial) in every calling convention.
"""
import bisect
import itertools
import random
import warnings
from fractions import Fraction as Fr

import numpy as np

from vf import core
from vf.core import fs
from extract import interp as extract_interp

RULE = ('interpolation: api(nearest/linear/per-axis) x dimension 1-3 x per-axis scheme tuple x '
        'per-axis coordinate kind (uniform / power-of-two non-uniform / dyadic non-uniform / '
        'decimal / large offset 2^12..2^20 strides) x value dtype x calling convention (point/array/mesh, out given or not); '
        'points per axis drawn from nodes, exact midpoints, cell interior, one cell outside '
        '(low/high), far outside. sampling: callable kind x dimension x dtype x input '
        'convention. end-to-end (e2e/grid, e2e/resample, e2e/deform): uniform_discr grids (default and all four '
        'nodes_on_bdry combinations, n = 1, 2, > 2), Resampling (uniform / non-uniform domain x coarsen / same / '
        'refine x schemes x dimension 1-3) and linear_deform (zero / inside / outside displacement) with the model '
        'computing grids and points from interval, shape and displacement alone, plus cases meeting the '
        'hypotheses of the round-4 theorems. A case is non-trivial when the expected output is not constant; distinct = '
        'distinct such signatures together with the set of point categories hit.')
TRUSTED = ['translator tools/extract/interp.py (AST of the edge/weight helpers, nearest rule and '
           '_find_indices -> Gen/InterpEdges.lean; for the nearest rule and _find_indices sound '
           'normalisations, else a behavioural probe of the live class that must equal the model on a '
           'branch-covering exact grid — tools/extract/interp_probe.py; the source of each artefact is '
           'recorded as extraction_source)',
           'np.searchsorted(side=left) on an ascending vector = number of nodes < p; NumPy '
           'advanced indexing/broadcasting of the per-axis index arrays (modelled as position-wise '
           'resp. cartesian combination); Python index -1 = last node',
           'sampling: NumPy assignment/broadcast_to/equal-size reshape (the parameter `fit` of the '
           'dispatch model), np.vectorize; the values produced by sampling are NOT modelled but '
           'compared on the real code with the exact polynomial at every grid point',
           'end-to-end streams: np.linspace = arange * step + start with the last entry overwritten (exact '
           'on the dyadic stream), RectGrid.points() = C-order cartesian product, ndarray.T, reshape',
           'python reference oracle in tools/harness/c15.py (exact Fractions)']
ASSUMPTIONS = ['floating-point rounding is outside the model: on the exact stream all inputs are '
               'few-bit dyadic rationals with points placed at dyadic fractions of a cell, so every '
               'operation on the path is exact and outputs are compared exactly; on the decimal / '
               'non-power-of-two streams outputs agree within 1e-9*scale+1e-12 (float64) / 2^-19*scale '
               '(float32, ~8 ulp) and no point is placed near a branch point except exactly on it',
               'coordinate vectors strictly increasing with at least two nodes per axis in the model '
               'and the theorems; a single-node axis (linear interpolation gives nan at the node) is '
               'exercised on the real code only and recorded as open finding C15-F6',
               'the cast of the evaluation points to the value dtype in _find_indices is the '
               'identity on real points for float/complex/object values and is not performed for '
               'float32/complex64/int/narrow-string values (table castSafe, tied to np.can_cast)',
               'interpolation of integer or string values is inside the property for nearest on every '
               'axis (nearest_interpolator and per_axis_interpolator); with a linear axis it is outside '
               '(weighted sums in the value dtype: the code raises UFuncTypeError)',
               'a vectorize-decorated callable without otypes takes its output dtype from the first '
               'evaluated point (documented np.vectorize behaviour): the callable as decorated is what '
               'is sampled, outside the property',
               'complex values: the points are cast to complex and the normalised distance is a complex '
               'division, which NumPy does not always round correctly (z/z can differ from 1 by 1 ulp): on '
               'non-dyadic (decimal) grids node values of complex data are reproduced within about 1 ulp, '
               'not bitwise — inside the stated tolerance; bitwise exactness is claimed (and tested) on the '
               'dyadic streams only',
               'NaN/inf values and points are outside the model']

SCH_NAME = {'n': 'nearest', 'l': 'linear'}
INSIDE_T = [Fr(1, 8), Fr(1, 4), Fr(3, 8), Fr(5, 8), Fr(3, 4), Fr(7, 8)]
# fine positions in a cell (far below float32 resolution on an offset grid), incl. just beside
# the midpoint and just beside the nodes
# (12 fractional bits: blends of few-bit values stay exact in single precision)
FINE_T = [Fr(1027, 4096), Fr(3001, 4096), Fr(2047, 4096), Fr(2049, 4096), Fr(1, 4096), Fr(4095, 4096),
          Fr(2047, 4096), Fr(2049, 4096)]
# index rule only (no arithmetic on the values): closer still to the midpoint
FINER_T = [Fr(1, 2) - Fr(1, 2 ** 20), Fr(1, 2) + Fr(1, 2 ** 20), Fr(1, 2) - Fr(1, 2 ** 30),
           Fr(1, 2) + Fr(1, 2 ** 30), Fr(1, 2 ** 20), 1 - Fr(1, 2 ** 20)]
OUT1_T = [Fr(1, 8), Fr(1, 4), Fr(1, 2), Fr(3, 4), Fr(1)]
FAR_T = [Fr(5, 4), Fr(3, 2), Fr(2), Fr(3)]


# ---------------------------------------------------------------------------
# wire helpers

def ctok(z):
    """canonical token of a real/complex number given as (re, im) Fractions"""
    re, im = z
    return fs(re) if im == 0 else fs(re) + ':' + fs(im)


def parse_c(tok):
    if ':' in tok:
        a, b = tok.split(':')
        return (core.pfrac(a), core.pfrac(b))
    return (core.pfrac(tok), Fr(0))


def num_pair(z):
    """exact (re, im) of a numpy / python number; None if not finite"""
    if isinstance(z, (complex, np.complexfloating)):
        z = complex(z)
        if z != z or abs(z) == float('inf'):
            return None
        return (Fr(z.real), Fr(z.imag))
    if isinstance(z, (float, np.floating)):
        z = float(z)
        if z != z or abs(z) == float('inf'):
            return None
        return (Fr(z), Fr(0))
    if isinstance(z, (int, np.integer, bool, np.bool_)):
        return (Fr(int(z)), Fr(0))
    raise TypeError(type(z))


def frs(x):
    return str(x)


def pfr(s):
    return Fr(s)


# ---------------------------------------------------------------------------
# generators (everything from ctx.rng; cases are JSON-able dicts)

def gen_coords(rng, n, kind):
    start = Fr(rng.randint(-8, 8), 4)
    if kind == 'uniform':
        hs = [Fr(rng.choice([1, 2, 4, 8]), 4)] * (n - 1)
    elif kind == 'pow2':
        while True:
            hs = [Fr(rng.choice([1, 2, 4, 8]), 4) for _ in range(n - 1)]
            if n <= 2 or len(set(hs)) > 1:
                break
    elif kind == 'dyadic':
        while True:
            hs = [Fr(rng.choice([1, 3, 5, 6, 7, 10, 12]), 8) for _ in range(n - 1)]
            if n <= 2 or len(set(hs)) > 1:
                break
    elif kind == 'offset':
        # grid far from the origin: offset = 2^12 .. 2^20 strides, all dyadic, so that every
        # coordinate and point is exact in float64 but NOT representable in float32
        h = Fr(rng.choice([1, 2, 4]), 4)
        m = rng.randint(12, 20)
        start = rng.choice([1, 1, -1]) * h * (2 ** m + rng.randint(0, 5))
        if rng.random() < 0.5:
            hs = [h] * (n - 1)
        else:
            hs = [h * rng.choice([1, 2, 4]) for _ in range(n - 1)]
    elif kind == 'decimal':
        # what uniform_partition produces for "round" decimal domains; floats, not dyadic
        h = rng.choice([0.1, 0.2, 0.3, 0.4, 0.7])
        s = rng.choice([0.0, 0.05, -0.3, 0.1])
        return [Fr(float(s + (k + 0.5) * h)) for k in range(n)]
    else:
        raise KeyError(kind)
    c = [start]
    for h in hs:
        c.append(c[-1] + h)
    return c


def gen_axis_points(rng, c, exact, count, want=None, fine=False, finer=False):
    """points on one axis with their categories"""
    n = len(c)
    h0, hl = c[1] - c[0], c[-1] - c[-2]
    pts = []
    cats = ['node', 'mid', 'in', 'lo1', 'hi1', 'lofar', 'hifar', 'node', 'in', 'mid']
    for j in range(count):
        cat = want[j] if want and j < len(want) else rng.choice(cats)
        if cat == 'mid' and not exact:
            cat = 'in'
        if cat == 'node':
            k = rng.choice([0, n - 1, rng.randrange(n), rng.randrange(n)])
            p = c[k]
        elif cat == 'mid':
            i = rng.randrange(n - 1)
            p = (c[i] + c[i + 1]) / 2
        elif cat == 'in':
            i = rng.choice([0, n - 2, rng.randrange(n - 1)])
            t = rng.choice(INSIDE_T if exact else [Fr(1, 4), Fr(3, 4), Fr(1, 8), Fr(7, 8)])
            if fine:
                t = rng.choice(FINE_T + (FINER_T if finer else []))
            p = c[i] + (c[i + 1] - c[i]) * t
        elif cat == 'lo1':
            p = c[0] - h0 * rng.choice(OUT1_T if exact else [Fr(1, 4), Fr(3, 4)])
        elif cat == 'hi1':
            p = c[-1] + hl * rng.choice(OUT1_T if exact else [Fr(1, 4), Fr(3, 4)])
        elif cat == 'lofar':
            p = c[0] - h0 * rng.choice(FAR_T)
        elif cat == 'hifar':
            p = c[-1] + hl * rng.choice(FAR_T)
        else:
            raise KeyError(cat)
        if exact:
            assert Fr(float(p)) == p
        else:
            if cat != 'node':
                p = Fr(float(p))
        pts.append((p, cat))
    return pts


def gen_values(rng, size, dtype, distinct):
    """flat list of tokens + python values"""
    if dtype.startswith('U'):
        width = int(dtype[1:])
        alphabet = 'abcdefghijklmnopqrstuvwxyzABCDEFGHIJKLMNOPQRSTUVWXYZ'
        pool = list(alphabet) if width == 1 else \
            [a + b for a in alphabet[:26] for b in ('', 'x', 'yz')][:3 * 26]
        rng.shuffle(pool)
        # distinct as long as the alphabet lasts, then cyclic (neighbours still differ)
        return [pool[k % len(pool)] for k in range(size)]
    if dtype.startswith(('int', 'uint')):
        ks = rng.sample(range(-60, 61), size) if distinct else [rng.randint(-9, 9) for _ in range(size)]
        if dtype.startswith('uint'):
            ks = [k + 60 for k in ks]
        return [str(k) for k in ks]
    if distinct:
        ks = rng.sample(range(-64, 65), size)
    else:
        ks = [rng.randint(-40, 40) for _ in range(size)]
    if dtype.startswith('complex'):
        ks2 = [rng.randint(-40, 40) for _ in range(size)]
        return [ctok((Fr(k, 8), Fr(k2, 8))) for k, k2 in zip(ks, ks2)]
    return [ctok((Fr(k, 8), Fr(0))) for k in ks]


LAYOUTS = ['C', 'F', 'strided']
_LAY_COUNT = {}


def next_layout(key, stride=1):
    """deterministic cycling through the memory layouts per entry point (every stratum is hit)"""
    k = _LAY_COUNT.get(key, 0)
    _LAY_COUNT[key] = k + 1
    return LAYOUTS[(k * stride) % 3]


def relayout(arr, layout):
    """the same logical array in another memory layout: C-contiguous, Fortran-contiguous (what
    `a.T`-backed or order='F' data looks like) or a strided view into a larger buffer"""
    arr = np.asarray(arr)
    if arr.ndim == 0 or layout == 'C':
        return np.ascontiguousarray(arr)
    if layout == 'F':
        return np.asfortranarray(arr)
    big = np.zeros(tuple(2 * n for n in arr.shape), dtype=arr.dtype)
    view = big[tuple(slice(None, None, 2) for _ in arr.shape)]
    view[...] = arr
    return view


def layout_hits(ctx, case, fields):
    for entry, field in fields:
        lay = case.get(field, 'C')
        if lay != 'C':
            ctx.hit('layout/{}/{}'.format(entry, lay))


def values_array(case):
    dims = tuple(len(c) for c in case['coords'])
    dt = case['dtype']
    toks = case['vals']
    if dt.startswith('U'):
        return np.array(toks, dtype=dt).reshape(dims)
    if dt.startswith(('int', 'uint')):
        return np.array([int(t) for t in toks], dtype=dt).reshape(dims)
    pairs = [parse_c(t) for t in toks]
    if dt.startswith('complex'):
        arr = np.array([complex(float(a), float(b)) for a, b in pairs], dtype=dt)
    else:
        arr = np.array([float(a) for a, _ in pairs], dtype=dt)
    return arr.reshape(dims)


def value_token(z, dtype):
    if dtype.startswith('U'):
        return str(z)
    if dtype.startswith(('int', 'uint')):
        return str(int(z))
    p = num_pair(z)
    return 'nonfinite' if p is None else ctok(p)


def interp_configs(ctx):
    """Generate interpolator configurations (JSON-able)."""
    rng = ctx.rng
    quick = ctx.quick
    cfgs = []
    sch_all = {d: [''.join(t) for t in itertools.product('ln', repeat=d)] for d in (1, 2, 3)}
    kinds = ['uniform', 'pow2', 'dyadic', 'decimal']
    num_dt = ['float64', 'float32', 'complex128', 'complex64']
    near_dt = num_dt + ['int64', 'int32', 'uint8', 'U1', 'U3']
    reps = 2 if quick else 10
    for rep in range(reps):
        for d in (1, 2, 3):
            # per-axis interpolator: every scheme combination x a rotating coordinate kind / dtype
            for si, sch in enumerate(sch_all[d]):
                for kk in range(len(kinds) if (d < 3 or not quick) else 2):
                    ck = [kinds[(kk + si + j + rep) % len(kinds)] for j in range(d)]
                    if 'decimal' in ck:
                        ck = ['decimal' if rng.random() < 0.7 else 'uniform' for _ in range(d)]
                        if 'decimal' not in ck:
                            ck[0] = 'decimal'
                    dt = num_dt[(kk + si + rep) % len(num_dt)]
                    cfgs.append(dict(api='peraxis', sch=sch, ckinds=ck, dtype=dt))
            # linear_interpolator / nearest_interpolator
            for kk, k in enumerate(kinds):
                for dt in (num_dt if not quick else [num_dt[(kk + d + rep) % 4], num_dt[(kk + d + rep + 2) % 4]]):
                    ck = [k if j == 0 else rng.choice(kinds[:3] if k != 'decimal' else kinds) for j in range(d)]
                    cfgs.append(dict(api='linear', sch='l' * d, ckinds=ck, dtype=dt))
                for dt in (near_dt if not quick else rng.sample(near_dt, 3)):
                    ck = [k if j == 0 else rng.choice(kinds[:3] if k != 'decimal' else kinds) for j in range(d)]
                    cfgs.append(dict(api='nearest', sch='n' * d, ckinds=ck, dtype=dt))
    # nearest-neighbour interpolation through per_axis_interpolator on integer / string data
    for rep in range(1 if quick else 4):
        for d in (1, 2, 3):
            for dt in ('int64', 'int32', 'U1', 'U3'):
                if quick and (d + rep + len(dt)) % 2:
                    continue
                cfgs.append(dict(api='peraxis', sch='n' * d, ckinds=[rng.choice(kinds) for _ in range(d)],
                                 dtype=dt))
    # integer / string data with a linear axis: the code raises (weighted sums in the value
    # dtype), the model's dispatch answers err:type — outside the property, inside the tie
    for api, sch, dt in (('linear', 'l', 'int64'), ('peraxis', 'ln', 'int32'), ('peraxis', 'nl', 'U3'),
                         ('linear', 'll', 'uint8')):
        cfgs.append(dict(api=api, sch=sch, ckinds=[rng.choice(kinds[:3]) for _ in sch], dtype=dt))
    # float32 / complex64 (and, for contrast, float64) data on grids far from the origin: the
    # evaluation points must not lose precision on their way to the node search
    for rep in range(2 if quick else 8):
        for api, sch in (('linear', 'l'), ('nearest', 'n'), ('peraxis', 'l'), ('peraxis', 'n')):
            for dt in ('float32', 'complex64', 'float64'):
                if dt == 'float64' and rep % 2:
                    continue
                cfgs.append(dict(api=api, sch=sch, ckinds=['offset'], dtype=dt))
        for api, sch in (('linear', 'll'), ('nearest', 'nn'), ('peraxis', 'ln'), ('peraxis', 'nl')):
            dt = ('float32', 'complex64')[rep % 2]
            cfgs.append(dict(api=api, sch=sch, ckinds=rng.sample(['offset', rng.choice(['uniform', 'pow2', 'offset'])], 2),
                             dtype=dt))
    out = []
    for cfg in cfgs:
        d = len(cfg['sch'])
        exact = 'decimal' not in cfg['ckinds']
        if 'offset' in cfg['ckinds'] and d > 1 and cfg['dtype'] in ('float32', 'complex64') \
                and cfg['api'] != 'nearest':
            # products of fine weights exceed single precision in the accumulation of the
            # VALUES: compare within single-precision VALUE tolerance (the index path is exact)
            exact = False
            cfg['value_tol'] = True
        maxn = {1: 7, 2: 5, 3: 4}[d]
        coords = []
        for k in cfg['ckinds']:
            n = rng.choice([2, 2, 3, 4, maxn]) if d > 1 else rng.choice([2, 3, 4, 5, maxn])
            coords.append(gen_coords(rng, n, k))
        size = 1
        for c in coords:
            size *= len(c)
        npts0 = {1: 9, 2: 5, 3: 3}[d]
        pts = []
        for j, c in enumerate(coords):
            # now and then a single point along an axis (degenerate mesh vectors)
            npts = 1 if (d > 1 and rng.random() < 0.12) else npts0
            # first config points: make sure ties and both outsides are present regularly
            want = None
            r = rng.random()
            if r < 0.25:
                want = ['mid', 'node', 'hi1', 'lo1']
            elif r < 0.4:
                want = ['node'] * npts
            elif r < 0.5:
                want = ['in'] * npts
            kind_j = cfg['ckinds'][j]
            if kind_j == 'offset' and want is None:
                want = ['in', 'mid', 'node', 'in', 'in', 'lo1', 'in', 'hi1', 'in']
            pl = gen_axis_points(rng, c, kind_j != 'decimal', npts, want, fine=(kind_j == 'offset'),
                                 finer=(cfg['api'] == 'nearest'))
            rng.shuffle(pl)
            pts.append(pl)
        case = dict(kind='interp', api=cfg['api'], sch=cfg['sch'], ckinds=cfg['ckinds'],
                    dtype=cfg['dtype'], exact=exact, value_tol=bool(cfg.get('value_tol')),
                    coords=[[frs(x) for x in c] for c in coords],
                    vals=gen_values(rng, size, cfg['dtype'], distinct=(cfg['api'] == 'nearest' or rng.random() < 0.5)),
                    pts=[[frs(p) for p, _ in pl] for pl in pts],
                    cats=[[cat for _, cat in pl] for pl in pts],
                    single_string=(rng.random() < 0.5),
                    use_out=(rng.random() < 0.5),
                    vlayout=next_layout('interp-values'), playout=next_layout('interp-points', 2),
                    olayout=next_layout('interp-out'),
                    flat1d=(rng.random() < 0.5),
                    aseed=rng.getrandbits(30))
        out.append(case)
    return out


# ---------------------------------------------------------------------------
# reference oracle (textbook definition, exact)

def ref_axis(c, scheme, p):
    """list of (weight, node index or None for the ghost node of value 0); None if the point
    is outside the range where the property speaks (more than one cell outside, linear)."""
    n = len(c)
    if scheme == 'n':
        best = min(range(n), key=lambda k: (abs(p - c[k]), -k))
        return [(Fr(1), best)]
    ext = [c[0] - (c[1] - c[0])] + list(c) + [c[-1] + (c[-1] - c[-2])]
    if p < ext[0] or p > ext[-1]:
        return None
    j = min(bisect.bisect_right(ext, p) - 1, len(ext) - 2)
    t = (p - ext[j]) / (ext[j + 1] - ext[j])
    res = []
    for w, node in ((1 - t, j - 1), (t, j)):
        res.append((w, node if 0 <= node < n else None))
    return res


def ref_interp(coords, sch, vals, dims, point):
    """exact reference value at one point; vals: flat list of (re, im); None if out of range"""
    per_axis = []
    for c, s, p in zip(coords, sch, point):
        r = ref_axis(c, s, p)
        if r is None:
            return None
        per_axis.append(r)
    re = im = Fr(0)
    for combo in itertools.product(*per_axis):
        w = Fr(1)
        idx = 0
        ghost = False
        for (wj, node), n in zip(combo, dims):
            w *= wj
            if node is None:
                ghost = True
            else:
                idx = idx * n + node
        if ghost or w == 0:
            continue
        re += w * vals[idx][0]
        im += w * vals[idx][1]
    return (re, im)


def ref_nearest_index(coords, point, dims):
    idx = 0
    for c, p, n in zip(coords, point, dims):
        best = min(range(n), key=lambda k: (abs(p - c[k]), -k))
        idx = idx * n + best
    return idx


# ---------------------------------------------------------------------------
# running the real interpolators

def build_interpolator(case, f):
    from odl.discr import discr_utils as du
    cvecs = [np.array([float(pfr(x)) for x in c]) for c in case['coords']]
    api = case['api']
    if api == 'nearest':
        return du.nearest_interpolator(f, cvecs)
    if api == 'linear':
        return du.linear_interpolator(f, cvecs)
    sch = case['sch']
    if case.get('single_string') and len(set(sch)) == 1:
        return du.per_axis_interpolator(f, cvecs, SCH_NAME[sch[0]])
    return du.per_axis_interpolator(f, cvecs, [SCH_NAME[s] for s in sch])


def flat_tokens(res, dtype):
    arr = np.asarray(res)
    return [value_token(z, dtype) for z in arr.ravel(order='C').tolist()]


def eval_conventions(case, f=None):
    """Run the real code in every calling convention.
    Returns dict conv -> (status, tokens (flat, C order of the mesh))."""
    from odl.discr.grid import sparse_meshgrid
    vlay, play, olay = case.get('vlayout', 'C'), case.get('playout', 'C'), case.get('olayout', 'C')
    f_c = values_array(case) if f is None else np.ascontiguousarray(f)
    f = relayout(f_c, vlay)
    dt = str(f.dtype) if not case['dtype'].startswith('U') else case['dtype']
    d = len(case['coords'])
    P = [[float(pfr(x)) for x in pl] for pl in case['pts']]
    shape = tuple(len(p) for p in P)
    prod_pts = list(itertools.product(*P))
    res = {}
    rnd = random.Random(case.get('aseed', 0))

    def guard(name, fn):
        try:
            with warnings.catch_warnings():
                warnings.simplefilter('ignore')
                r = fn()
            res[name] = ('ok', flat_tokens(r, case['dtype']))
        except Exception as e:  # noqa
            res[name] = ('err:{}:{}'.format(type(e).__name__, str(e)[:100]), None)

    def garbage(shp):
        if case['dtype'].startswith('U'):
            return np.full(shp, 'zz', dtype=f.dtype)
        if case['dtype'].startswith(('int', 'uint')):
            return np.full(shp, -77, dtype=f.dtype)
        return np.full(shp, np.nan, dtype=f.dtype)

    def mesh_call():
        itp = build_interpolator(case, f)
        mesh = sparse_meshgrid(*[relayout(np.array(p), play) for p in P])
        if case.get('use_out'):
            out = relayout(garbage(shape), olay)
            r = itp(mesh, out=out)
            if r is not out:
                raise AssertionError('out= given but a different object returned')
            return out
        return itp(mesh)

    def array_call():
        itp = build_interpolator(case, f)
        x = np.array(prod_pts, dtype=float).T.reshape(d, len(prod_pts))
        if d == 1 and case.get('flat1d'):
            x = x.reshape(-1)
        x = relayout(x, play)
        if not case.get('use_out'):
            out = relayout(garbage((len(prod_pts),)), olay)
            r = itp(x, out=out)
            if r is not out:
                raise AssertionError('out= given but a different object returned')
            return out
        return itp(x)

    def point_calls():
        itp = build_interpolator(case, f)
        vals = []
        for pt in prod_pts:
            if d == 1:
                x = pt[0] if rnd.random() < 0.5 else np.array(pt[0])
            else:
                x = list(pt) if rnd.random() < 0.5 else np.array(pt)
            r = itp(x)
            if isinstance(r, np.ndarray):
                raise AssertionError('single point returned an array of shape {}'.format(r.shape))
            vals.append(r)
        if case['dtype'].startswith('U'):
            return np.array(vals, dtype=f.dtype)
        return np.array(vals)

    def mesh_call_c():
        # the same call on C-contiguous copies of the same data: layout independence
        itp = build_interpolator(case, f_c)
        return itp(sparse_meshgrid(*[np.array(p) for p in P]))

    guard('mesh', mesh_call)
    guard('array', array_call)
    if len(prod_pts) <= 30 or case.get('all_points'):
        guard('point', point_calls)
    if (vlay, play, olay) != ('C', 'C', 'C'):
        guard('mesh~C', mesh_call_c)
    return res, prod_pts, shape


def model_lines(case, convs):
    d = len(case['coords'])
    dims = [len(c) for c in case['coords']]
    # only nearest_interpolator is sent as kind=nearest; per_axis_interpolator / linear_interpolator
    # go through the model's own dispatch (`perAxisInterpolator` / `allNearest`), which decides
    # between the index rule and the weighted corner loop; vt=tok marks non-numeric values
    kind = 'nearest' if case['api'] == 'nearest' else \
        ('peraxis vt=tok' if case['dtype'].startswith(('U', 'int', 'uint')) else 'peraxis')
    head = 'interp kind={} sch={} dims={} c={} v={}'.format(
        kind, ','.join(case['sch']), ','.join(str(n) for n in dims),
        ';'.join(','.join(fs(pfr(x)) for x in c) for c in case['coords']),
        ','.join(case['vals']))
    P = [[pfr(x) for x in pl] for pl in case['pts']]
    prod_pts = list(itertools.product(*P))
    lines = {}
    if 'mesh' in convs:
        lines['mesh'] = [head + ' conv=mesh x=' + ';'.join(','.join(fs(p) for p in pl) for pl in P)]
    if 'array' in convs:
        lines['array'] = [head + ' conv=array x=' + ';'.join(
            ','.join(fs(pt[j]) for pt in prod_pts) for j in range(d))]
    if 'point' in convs:
        lines['point'] = [head + ' conv=point x=' + ';'.join(fs(pt[j]) for j in range(d))
                          for pt in prod_pts]
    return lines


def tol_for(case, scale):
    if case['exact']:
        return Fr(0)
    if case.get('value_tol'):
        # a handful of single-precision roundings of the accumulated VALUE, nothing else
        return Fr(1, 2 ** 19) * scale
    if case['dtype'] in ('float32', 'complex64'):
        # at most 2^d single-precision roundings of the accumulated value (about 8 ulp)
        return Fr(1, 2 ** 19) * scale + Fr(1, 10 ** 7)
    return Fr(1, 10 ** 9) * scale + Fr(1, 10 ** 12)


def close(a, b, tol):
    return abs(a[0] - b[0]) <= tol and abs(a[1] - b[1]) <= tol


def point_class(case, j, p):
    """model branch taken on axis j at coordinate p (for the histogram)"""
    c = [pfr(x) for x in case['coords'][j]]
    s = case['sch'][j]
    if p < c[0]:
        return s + '/lo'
    if p > c[-1]:
        return s + '/hi'
    if p in c:
        return s + '/node'
    i = bisect.bisect_left(c, p) - 1
    t = (p - c[i]) / (c[i + 1] - c[i])
    if t == Fr(1, 2):
        return s + '/tie'
    return s + ('/in<' if t < Fr(1, 2) else '/in>')


def mesh_lens(case):
    return [len(pl) for pl in case['pts']] if 'pts' in case and 'plist' not in case else None


def mesh_input_ok(lens):
    """independent statement of when NumPy can build the ragged object array of a sparse mesh"""
    return not (len(lens) > 1 and lens[0] == 1 and any(n != 1 for n in lens[1:]))


def limited_violation(ctx, cls, key, what, rc, limit=3):
    """violations of an already classified input class: reported at most `limit` times per run
    (the list in core is capped; a flood of one class must not hide another)"""
    seen = ctx.extra.setdefault('classified_violation_counts', {})
    seen[cls] = seen.get(cls, 0) + 1
    if seen[cls] <= limit:
        ctx.violation(key, what, rc)


def desc_of(case):
    return {k: v for k, v in case.items()}


def key_of(case, what):
    return 'interp api={} sch={} coords={} dtype={} :: {}'.format(
        case['api'], case['sch'], '/'.join(case['ckinds']), case['dtype'], what)


def case_points(case):
    """evaluation points of a case in output order (C order of the mesh / list order)"""
    if 'plist' in case:
        return [tuple(pfr(x) for x in pt) for pt in case['plist']]
    return list(itertools.product(*[[pfr(x) for x in pl] for pl in case['pts']]))


def check_interp_case(ctx, case, results, model_out):
    """oracle on the real results + correspondence with the model answers"""
    coords = [[pfr(x) for x in c] for c in case['coords']]
    dims = [len(c) for c in coords]
    numeric = not (case['dtype'].startswith('U') or case['dtype'].startswith(('int', 'uint')))
    ptsF = case_points(case)
    if numeric:
        vals = [parse_c(t) for t in case['vals']]
        scale = max([abs(a) + abs(b) for a, b in vals] + [Fr(1)])
    else:
        vals = None
        scale = Fr(1)
    tol = tol_for(case, scale)
    if case.get('api') in ('resampling', 'deform'):
        layout_hits(ctx, case, [(case['api'] + '-x', 'xlayout'), (case['api'] + '-out', 'olayout'),
                                ('deform-disp', 'dlayout')])
    else:
        layout_hits(ctx, case, [('interp-values', 'vlayout'), ('interp-points', 'playout'),
                                ('interp-out', 'olayout')])
    cats_hit = set()
    for j in range(len(coords)):
        for x in (sorted(set(pt[j] for pt in ptsF)) if 'plist' in case else [pfr(x) for x in case['pts'][j]]):
            pc = point_class(case, j, x)
            cats_hit.add(pc)
            ctx.hit('axis/' + pc)
    # expected by the textbook reference
    expected = []
    for pt in ptsF:
        if (not numeric) and case['api'] != 'nearest' and 'l' in case['sch']:
            expected.append(None)      # outside the property (see type_error_expected below)
        elif case['api'] == 'nearest' or not numeric:
            # (non-numeric values with every axis 'nearest': no arithmetic involved)
            expected.append(case['vals'][ref_nearest_index(coords, pt, dims)])
        else:
            expected.append(ref_interp(coords, case['sch'], vals, dims, pt))
    nontrivial = len(set(map(str, expected))) > 1
    for conv, (status, toks) in sorted(results.items()):
        sig = ('interp', case['api'], case['sch'], tuple(case['ckinds']), case['dtype'], conv,
               bool(case.get('use_out')), tuple(sorted(cats_hit)))
        sample = None
        if len(ctx.samples) < 6 and len(ptsF) <= 9:
            sample = {'case': {k: case[k] for k in ('api', 'sch', 'coords', 'dtype', 'vals', 'pts')},
                      'conv': conv, 'impl': toks}
        ctx.case(sig if nontrivial else None, sample)
        ctx.hit('conv/{}/{}'.format(case['api'], conv))
        if conv.startswith('mesh') and mesh_lens(case) and not mesh_input_ok(mesh_lens(case)):
            ctx.hit('mesh/one-point-first-axis')
        rc = dict(desc_of(case), conv=conv)
        type_error_expected = (not numeric) and case['api'] != 'nearest' and 'l' in case['sch']
        if status != 'ok' and type_error_expected and status.startswith('err:UFuncTypeError'):
            # weighted sums of integer / string values: outside the property (linear needs
            # arithmetic in the value dtype); the model answers err:type (compared below)
            ctx.hit('nonnumeric-linear/type-error')
        elif status != 'ok':
            exc = status.split(':')[1]
            lens = mesh_lens(case)
            if conv.startswith('mesh') and lens and not mesh_input_ok(lens) and \
                    'could not broadcast input array' in status:
                what = ('conv={} mesh grid with one point on the first axis and several on another '
                        'raised {}'.format(conv, exc))
                limited_violation(ctx, 'mesh-input', key_of(case, what),
                                  status + ' mesh lengths {}'.format(lens), rc)
            else:
                what = 'conv={} raised {}'.format(conv, exc)
                ctx.violation(key_of(case, what), status + ' mesh lengths {}'.format(lens), rc)
            ctx.err(exc)
        else:
            # --- oracle
            bad = None
            for k, (pt, exp, tok) in enumerate(zip(ptsF, expected, toks)):
                if exp is None:
                    continue
                if case['api'] == 'nearest' or not numeric:
                    if tok != exp:
                        bad = (pt, exp, tok)
                        break
                else:
                    if tok == 'nonfinite' or not close(parse_c(tok), exp, tol):
                        bad = (pt, ctok(exp), tok)
                        break
            if bad is not None:
                pt, exp, tok = bad
                what = 'closest-node rule' if case['api'] == 'nearest' else 'multilinear blend of the surrounding nodes'
                ctx.violation(key_of(case, 'conv={} {}'.format(conv, what)),
                              'at point {} expected {} got {}'.format([str(x) for x in pt], exp, tok),
                              dict(rc, bad_point=[str(x) for x in pt]))
        # --- correspondence
        mo = model_out.get(conv.split('+')[0])
        if mo is None:
            continue
        if any(not a.startswith('ok r=') for a in mo):
            bad_ans = [a for a in mo if not a.startswith('ok r=')][0]
            if not (bad_ans == 'err:type' and status.startswith('err:UFuncTypeError')):
                ctx.disagree(rc, status, bad_ans)
            continue
        mt = []
        for a in mo:
            mt.extend(a[len('ok r='):].split(','))
        if status != 'ok':
            ctx.disagree(rc, status, 'ok')
            continue
        if len(mt) != len(toks):
            ctx.disagree(rc, 'length {}'.format(len(toks)), 'length {}'.format(len(mt)))
            continue
        for k, (a, b) in enumerate(zip(toks, mt)):
            same = (a == b)
            if not same and numeric and tol > 0 and a != 'nonfinite':
                same = close(parse_c(a), parse_c(b), tol)
            if not same:
                ctx.disagree(dict(rc, point=[str(x) for x in ptsF[k]]),
                             'entry {} = {}'.format(k, a), 'entry {} = {}'.format(k, b))
                break
    # --- calling conventions agree on the real code (also far outside, where the reference
    # is silent)
    oks = {cv: t for cv, (s, t) in results.items() if s == 'ok'}
    if len(oks) > 1:
        names = sorted(oks)
        base = oks[names[0]]
        def same_tok(a, b):
            if a == b:
                return True
            if numeric and tol > 0 and 'nonfinite' not in (a, b):
                return close(parse_c(a), parse_c(b), tol)
            return False
        for other in names[1:]:
            if len(oks[other]) != len(base) or not all(same_tok(a, b) for a, b in zip(base, oks[other])):
                k = [i for i, (a, b) in enumerate(zip(base, oks[other])) if not same_tok(a, b)]
                k = k[0] if k else -1
                ctx.violation(key_of(case, 'calling conventions {} vs {} differ'.format(names[0], other)),
                              'point {}: {} gives {}, {} gives {}'.format(
                                  [str(x) for x in ptsF[k]] if k >= 0 else '?', names[0],
                                  base[k] if k >= 0 else len(base), other,
                                  oks[other][k] if k >= 0 else len(oks[other])),
                              dict(desc_of(case), conv='all'))


def affine_check(ctx, case):
    """ORACLE: affine data a + sum b_j c_j on linear axes (constant along nearest axes) is
    reproduced exactly at every point inside the hull, node values are reproduced at nodes."""
    if case['api'] == 'nearest' or case['dtype'].startswith(('U', 'int', 'uint')):
        return
    rnd = random.Random(case['aseed'])
    coords = [[pfr(x) for x in c] for c in case['coords']]
    dims = [len(c) for c in coords]
    cplx = case['dtype'].startswith('complex')
    a = (Fr(rnd.randint(-8, 8), 4), Fr(rnd.randint(-8, 8), 4) if cplx else Fr(0))
    bs = []
    for s in case['sch']:
        if s == 'l':
            bs.append((Fr(rnd.choice([-6, -3, -2, -1, 1, 2, 3, 5]), 4),
                       Fr(rnd.randint(-4, 4), 4) if cplx else Fr(0)))
        else:
            bs.append((Fr(0), Fr(0)))
    # on grids far from the origin the affine function is written relative to the first node
    # with slope b/h, so that its VALUES stay small and exactly representable in single precision
    ref = [Fr(0)] * len(coords)
    for j, k in enumerate(case.get('ckinds', [])):
        if k == 'offset':
            h0 = coords[j][1] - coords[j][0]
            ref[j] = coords[j][0]
            bs[j] = (bs[j][0] / h0, bs[j][1] / h0)
    vals = []
    for ix in itertools.product(*[range(n) for n in dims]):
        re = a[0] + sum(b[0] * (coords[j][i] - ref[j]) for j, (b, i) in enumerate(zip(bs, ix)))
        im = a[1] + sum(b[1] * (coords[j][i] - ref[j]) for j, (b, i) in enumerate(zip(bs, ix)))
        vals.append((re, im))
    case2 = dict(case, vals=[ctok(v) for v in vals])
    # evaluation points: inside the hull only (incl. nodes and the hull boundary)
    pts = []
    for j, c in enumerate(coords):
        pl = [pfr(x) for x in case['pts'][j] if c[0] <= pfr(x) <= c[-1]]
        pl += [c[0], c[-1]]
        pts.append(pl[:6])
    case2['pts'] = [[frs(p) for p in pl] for pl in pts]
    case2['all_points'] = False
    results, prod_pts, shape = eval_conventions(case2)
    scale = max([abs(x) + abs(y) for x, y in vals] + [Fr(1)])
    tol = tol_for(case, scale)
    if not case['exact']:
        tol = tol * 4
    ptsF = [tuple(pts[j][i] for j, i in enumerate(ix))
            for ix in itertools.product(*[range(n) for n in shape])]
    for conv, (status, toks) in sorted(results.items()):
        ctx.case(('affine', case['api'], case['sch'], tuple(case['ckinds']), case['dtype'], conv), None)
        ctx.hit('oracle/affine')
        rc = dict(case2, conv=conv, affine=True)
        if status != 'ok':
            ctx.violation(key_of(case, 'affine data conv={} raised'.format(conv)), status, rc)
            continue
        for pt, tok in zip(ptsF, toks):
            exp = (a[0] + sum(b[0] * (x - r) for b, x, r in zip(bs, pt, ref)),
                   a[1] + sum(b[1] * (x - r) for b, x, r in zip(bs, pt, ref)))
            if tok == 'nonfinite' or not close(parse_c(tok), exp, tol):
                ctx.violation(key_of(case, 'affine function not reproduced inside the grid conv={}'.format(conv)),
                              'a={} b={} at point {} expected {} got {}'.format(
                                  ctok(a), [ctok(b) for b in bs], [str(x) for x in pt], ctok(exp), tok),
                              dict(rc, bad_point=[str(x) for x in pt]))
                break


def run_interp(ctx, cases):
    batch = []
    lines = []
    for case in cases:
        results, prod_pts, shape = eval_conventions(case)
        ml = model_lines(case, results.keys())
        spans = {}
        for conv, ls in ml.items():
            spans[conv] = (len(lines), len(lines) + len(ls))
            lines.extend(ls)
        batch.append((case, results, prod_pts, shape, spans))
    outs = core.run_driver('C15', lines)
    for case, results, prod_pts, shape, spans in batch:
        model_out = {conv: outs[a:b] for conv, (a, b) in spans.items()}
        check_interp_case(ctx, case, results, model_out)
        affine_check(ctx, case)


# ---------------------------------------------------------------------------
# Resampling and linear_deform: the same interpolator model, reached through the operators

def make_space(spec):
    import odl
    if spec['kind'] == 'uniform':
        kw = {}
        if spec.get('bdry'):
            kw['nodes_on_bdry'] = [(bool(a), bool(b)) for a, b in spec['bdry']]
        return odl.uniform_discr([float(pfr(x)) for x in spec['min']], [float(pfr(x)) for x in spec['max']],
                                 spec['shape'], dtype=spec['dtype'], **kw)
    part = odl.nonuniform_partition(*[[float(pfr(x)) for x in c] for c in spec['coords']],
                                    min_pt=[float(pfr(x)) for x in spec['min']],
                                    max_pt=[float(pfr(x)) for x in spec['max']])
    return odl.DiscretizedSpace(part, odl.tensor_space(part.shape, dtype=spec['dtype']))


def dyadic(fr):
    d = fr.denominator
    return d & (d - 1) == 0


def gen_space_pair(rng, d, dtype, nonuniform, sch=None):
    """domain (coarse/fine, possibly non-uniform) and a uniform range space on the same set"""
    mins, maxs, shape_d, shape_r, coords = [], [], [], [], []
    for j in range(d):
        n = rng.choice([2, 3, 4, 5] if d < 3 else [2, 3])
        if sch and sch[j] == 'n' and not nonuniform and rng.random() < 0.25:
            n = 1      # single-cell axis, e.g. uniform_discr(.., (n, 1)); nearest works there
        h = Fr(rng.choice([1, 2, 4, 8]), 4)
        a = Fr(rng.randint(-4, 4), 2)
        if nonuniform:
            c = gen_coords(rng, n, rng.choice(['pow2', 'dyadic']))
            lo = c[0] - Fr(rng.choice([1, 2]), 4)
            hi = c[-1] + Fr(rng.choice([1, 2, 3]), 4)
            coords.append(c)
            mins.append(lo)
            maxs.append(hi)
            L = hi - lo
        else:
            L = n * h
            mins.append(a)
            maxs.append(a + L)
        cands = [m for m in range(1, (10 if d == 1 else 7 if d == 2 else 5)) if dyadic(L / m / 2)]
        shape_d.append(n)
        shape_r.append(rng.choice(cands))
    dom = dict(kind='nonuniform' if nonuniform else 'uniform', min=[frs(x) for x in mins],
               max=[frs(x) for x in maxs], shape=shape_d, dtype=dtype)
    if nonuniform:
        dom['coords'] = [[frs(x) for x in c] for c in coords]
    ran = dict(kind='uniform', min=dom['min'], max=dom['max'], shape=shape_r, dtype=dtype)
    return dom, ran


def op_configs(ctx):
    rng = ctx.rng
    out = []
    num_dt = ['float64', 'float32', 'complex128', 'complex64']
    reps = 1 if ctx.quick else 8
    for rep in range(reps):
        for d in (1, 2, 3):
            schs = [''.join(t) for t in itertools.product('ln', repeat=d)]
            if ctx.quick and d == 3:
                schs = rng.sample(schs, 4)
            for si, sch in enumerate(schs):
                for nonuni in (False, True):
                    dt = num_dt[(si + rep + d + nonuni) % 4]
                    dom, ran = gen_space_pair(rng, d, dt, nonuni, sch)
                    size = 1
                    for n in dom['shape']:
                        size *= n
                    out.append(dict(kind='interp', api='resampling', sch=sch, dtype=dt, dom=dom, ran=ran,
                                    vals=gen_values(rng, size, dt, distinct=False),
                                    xlayout=next_layout('resampling-x'), olayout=next_layout('resampling-out', 2),
                                    single_string=(rng.random() < 0.5), aseed=rng.getrandbits(30)))
                if set(sch) == {'n'}:
                    dom, ran = gen_space_pair(rng, d, 'int64', False, sch)
                    size = 1
                    for n in dom['shape']:
                        size *= n
                    out.append(dict(kind='interp', api='resampling', sch=sch, dtype='int64', dom=dom,
                                    ran=ran, vals=gen_values(rng, size, 'int64', distinct=True),
                                    single_string=(rng.random() < 0.5), aseed=rng.getrandbits(30)))
                # linear_deform on a uniform template space
                dt = num_dt[(si + rep) % 2 * 1]  # real templates (float64 / float32)
                dom, _ = gen_space_pair(rng, d, dt, False, sch)
                size = 1
                for n in dom['shape']:
                    size *= n
                disp = [[frs(Fr(rng.choice([0, 0, 1, -1, 2, -2, 3, -3, 4, -4, 6, -6, 12, -12]), 8))
                         for _ in range(size)] for _ in range(d)]
                out.append(dict(kind='interp', api='deform', sch=sch, dtype=dt, dom=dom, disp=disp,
                                vals=gen_values(rng, size, dt, distinct=False),
                                single_string=(rng.random() < 0.5), use_out=(rng.random() < 0.5),
                                xlayout=next_layout('deform-x'), dlayout=next_layout('deform-disp', 2),
                                olayout=next_layout('deform-out'),
                                aseed=rng.getrandbits(30)))
    out.extend(theorem_op_cases(rng, 1 if ctx.quick else 6))
    return out


def eval_op_case(case):
    """Run Resampling / linear_deform; completes the case with coords / points read from the
    real spaces; returns results dict."""
    import odl
    res = {}
    sch = case['sch']
    interp = SCH_NAME[sch[0]] if (case.get('single_string') and len(set(sch)) == 1) \
        else [SCH_NAME[s] for s in sch]
    try:
        dom = make_space(case['dom'])
        cv = dom.grid.coord_vectors
        case['coords'] = [[frs(Fr(float(x))) for x in c] for c in cv]
        case['ckinds'] = [case['dom']['kind']] * len(cv)
        hs = [Fr(float(c[i + 1])) - Fr(float(c[i])) for c in cv for i in range(len(c) - 1)]
        case['exact'] = all(dyadic(h) and h.numerator == 1 for h in hs)
        x = dom.element(relayout(values_array(case), case.get('xlayout', 'C')))
        x_c = dom.element(np.ascontiguousarray(values_array(case)))
    except Exception as e:  # noqa
        return {'setup': ('err:{}:{}'.format(type(e).__name__, str(e)[:100]), None)}

    def guard(name, fn):
        try:
            with warnings.catch_warnings():
                warnings.simplefilter('ignore')
                r = fn()
            res[name] = ('ok', flat_tokens(r, case['dtype']))
        except Exception as e:  # noqa
            res[name] = ('err:{}:{}'.format(type(e).__name__, str(e)[:100]), None)

    if case['api'] == 'resampling':
        try:
            ran = make_space(case['ran'])
            case['pts'] = [[frs(Fr(float(t))) for t in c] for c in ran.grid.coord_vectors]
            op = odl.Resampling(dom, ran, interp)
        except Exception as e:  # noqa
            return {'setup': ('err:{}:{}'.format(type(e).__name__, str(e)[:100]), None)}
        guard('mesh', lambda: op(x).asarray())
        if case.get('xlayout', 'C') != 'C':
            guard('mesh~C', lambda: op(x_c).asarray())

        def with_out():
            y = ran.element(relayout(np.full(ran.shape, -77 if case['dtype'].startswith(('int', 'uint')) else np.nan,
                                             dtype=ran.dtype), case.get('olayout', 'C')))
            try:
                r = op(x, out=y)
            except ValueError as e:
                if 'returned a different value than `out`' not in str(e):
                    raise
                # the data has been written before Operator.__call__ objects to the return
                # value of Resampling._call; reported separately, values still checked
                case['inplace_protocol'] = str(e)[:80]
                r = y
            if r is not y:
                raise AssertionError('out= given but a different object returned')
            return y.asarray()
        guard('mesh+out', with_out)
        if set(sch) == {'n'} and case['dom']['kind'] == 'uniform' and not case['dom'].get('bdry') and \
                all(m % n == 0 for n, m in zip(case['dom']['shape'], case['ran']['shape'])):
            try:
                with warnings.catch_warnings():
                    warnings.simplefilter('ignore')
                    y = op(x)
                    case['refined'] = flat_tokens(y.asarray(), case['dtype'])
                    case['roundtrip'] = ['ok', flat_tokens(op.inverse(y).asarray(), case['dtype'])]
            except Exception as e:  # noqa
                case['roundtrip'] = ['err:{}:{}'.format(type(e).__name__, str(e)[:100]), []]
        # round 5: `inverse` / `adjoint` of the opposite operator are resampling domain -> range again
        if all(n >= 2 for n in case['ran']['shape']) or set(sch) == {'n'}:
            guard('mesh+inverse', lambda: odl.Resampling(ran, dom, interp).inverse(x).asarray())
            guard('mesh+adjoint', lambda: odl.Resampling(ran, dom, interp).adjoint(x).asarray())
    else:
        try:
            pts = dom.points()
            disp = np.array([[float(pfr(t)) for t in row] for row in case['disp']])
            dlay = case.get('dlayout', 'C')
            field = dom.tangent_bundle.element(
                [dom.element(relayout(row.reshape(dom.shape), dlay)) for row in disp])
            field_c = dom.tangent_bundle.element([row.reshape(dom.shape) for row in disp])
            moved = pts + disp.T
            case['plist'] = [[frs(Fr(float(t))) for t in pt] for pt in moved]
        except Exception as e:  # noqa
            return {'setup': ('err:{}:{}'.format(type(e).__name__, str(e)[:100]), None)}
        from odl.deform import linear_deform

        def call():
            if case.get('use_out'):
                out = relayout(np.full(dom.size, np.nan, dtype=dom.dtype), case.get('olayout', 'C'))
                r = linear_deform(x, field, interp, out=out)
                if not np.shares_memory(r, out):
                    raise AssertionError('out= given but a different buffer returned')
                return out
            return linear_deform(x, field, interp)
        guard('array', call)
        # the operator front ends of the same function
        from odl.deform import LinDeformFixedTempl, LinDeformFixedDisp
        guard('array+fixedtempl', lambda: LinDeformFixedTempl(x, interp=interp)(field).asarray())
        guard('array+fixeddisp', lambda: LinDeformFixedDisp(field, interp=interp)(x).asarray())
        # round 5: construction options and `inverse` of the operator front ends
        guard('array+dispinverse', lambda: LinDeformFixedDisp(-field_c, interp=interp).inverse(x).asarray())
        guard('array+templspace', lambda: LinDeformFixedDisp(field, templ_space=dom, interp=interp)(x).asarray())
        guard('array+domain', lambda: LinDeformFixedTempl(
            x, domain=dom.real_space.tangent_bundle, interp=interp)(field).asarray())

        def templ_out():
            y = dom.element(np.full(dom.shape, np.nan, dtype=dom.dtype))
            r = LinDeformFixedTempl(x, interp=interp)(field, out=y)
            if r is not y:
                raise AssertionError('out= given but a different object returned')
            return y.asarray()
        guard('array+fixedtempl+out', templ_out)
        if (case.get('xlayout', 'C'), case.get('dlayout', 'C')) != ('C', 'C'):
            guard('array~C', lambda: linear_deform(x_c, field_c, interp))
    return res


def op_model_line(case):
    dims = [len(c) for c in case['coords']]
    kind = 'peraxis vt=tok' if case['dtype'].startswith(('U', 'int', 'uint')) else 'peraxis'
    head = 'interp kind={} sch={} dims={} c={} v={}'.format(
        kind, ','.join(case['sch']), ','.join(str(n) for n in dims),
        ';'.join(','.join(fs(pfr(x)) for x in c) for c in case['coords']), ','.join(case['vals']))
    if case['api'] == 'resampling':
        return 'mesh', head + ' conv=mesh x=' + ';'.join(','.join(fs(pfr(p)) for p in pl) for pl in case['pts'])
    d = len(dims)
    return 'array', head + ' conv=array x=' + ';'.join(
        ','.join(fs(pfr(pt[j])) for pt in case['plist']) for j in range(d))


def run_ops(ctx, cases, with_model=True):
    batch, lines = [], []
    for case in cases:
        results = eval_op_case(case)
        if 'setup' in results:
            ctx.case(None)
            ctx.violation('interp api={} sch={} dtype={} :: setup raised'.format(
                case['api'], case['sch'], case['dtype']), results['setup'][0], desc_of(case))
            continue
        conv, line = op_model_line(case)
        # end-to-end stream: the model gets interval / shape / schemes / values / displacement
        # only and computes grids and evaluation points itself
        e2e_idx = {}
        for tag, l2 in e2e_lines(case):
            e2e_idx[tag] = len(lines)
            lines.append(l2)
        if min(len(c) for c in case['coords']) < 2:
            # single-node axis: outside the model (n >= 2), reference oracle only
            ctx.hit('ops/single-node-axis')
            batch.append((case, results, conv, None, e2e_idx))
            continue
        batch.append((case, results, conv, len(lines), e2e_idx))
        lines.append(line)
    outs = core.run_driver('C15', lines) if with_model else None
    for case, results, conv, k, e2e_idx in batch:
        check_interp_case(ctx, case, results, {conv: [outs[k]]} if (outs and k is not None) else {})
        e2e_check(ctx, case, results, {t: outs[i] for t, i in e2e_idx.items()} if outs else {})
        if case.get('inplace_protocol'):
            limited_violation(ctx, 'resampling-inplace',
                              'Resampling(domain, range, interp)(x, out=y) :: in-place call protocol, '
                              'Resampling._call returns the raw array',
                              'raised ValueError: ' + case['inplace_protocol'], desc_of(case))


# ---------------------------------------------------------------------------
# end-to-end streams e2e/grid, e2e/resample, e2e/deform (round 4): the Lean model computes the
# uniform grids (`uniformNode`), the range mesh (`resampling`) and the displaced points
# (`deformedPoints` / `linearDeform`) itself; the oracle states the same from the space
# specification alone (cell midpoints, x + v(x)), independent of the model AND of the points the
# real code computed.

def spec_coords(spec):
    """independent statement of the grid of a space specification: the midpoints of the cells of
    the uniform partition of [min, max] / the nodes given to nonuniform_partition"""
    if spec['kind'] == 'uniform' and spec.get('bdry'):
        # equispaced nodes; an end with a boundary node carries it, the other ends keep half a
        # stride of distance: (n - 1 + half strides) * s = max - min
        out = []
        for lo, hi, n, (bl, br) in zip(spec['min'], spec['max'], spec['shape'], spec['bdry']):
            halves = (0 if bl else 1) + (0 if br else 1)
            s_ = (pfr(hi) - pfr(lo)) / (n - 1 + Fr(halves, 2))
            first = pfr(lo) + (0 if bl else s_ / 2)
            out.append([first + k * s_ for k in range(n)])
        return out
    if spec['kind'] == 'uniform':
        return [[pfr(lo) + (2 * k + 1) * (pfr(hi) - pfr(lo)) / (2 * n) for k in range(n)]
                for lo, hi, n in zip(spec['min'], spec['max'], spec['shape'])]
    return [[pfr(x) for x in c] for c in spec['coords']]


def spec_str(spec):
    if spec['kind'] == 'uniform' and spec.get('bdry'):
        return '|'.join('b:{}:{}:{}:{}:{}'.format(fs(pfr(lo)), fs(pfr(hi)), n, int(bool(bl)), int(bool(br)))
                        for lo, hi, n, (bl, br) in zip(spec['min'], spec['max'], spec['shape'], spec['bdry']))
    if spec['kind'] == 'uniform':
        return '|'.join('u:{}:{}:{}'.format(fs(pfr(lo)), fs(pfr(hi)), n)
                        for lo, hi, n in zip(spec['min'], spec['max'], spec['shape']))
    return '|'.join('c:' + ','.join(fs(pfr(x)) for x in c) for c in spec['coords'])


def e2e_lines(case):
    out = []
    specs = [('domain', case['dom'])] + ([('range', case['ran'])] if case['api'] == 'resampling' else [])
    for which, spec in specs:
        if spec['kind'] != 'uniform':
            continue
        for j, (lo, hi, n) in enumerate(zip(spec['min'], spec['max'], spec['shape'])):
            flags = ''
            if spec.get('bdry'):
                flags = ' bl={} br={}'.format(int(bool(spec['bdry'][j][0])), int(bool(spec['bdry'][j][1])))
            out.append((('grid', which, j), 'grid lo={} hi={} n={}{}'.format(fs(pfr(lo)), fs(pfr(hi)), n, flags)))
    if min(case['dom']['shape']) < 2 or case['dtype'].startswith('U'):
        return out
    if case['api'] == 'resampling' and case.get('refined') and min(case['ran']['shape']) >= 2:
        out.append(('roundtrip', 'resample sch={} dom={} ran={} v={}'.format(
            ','.join(case['sch']), spec_str(case['ran']), spec_str(case['dom']), ','.join(case['refined']))))
    if case['api'] == 'resampling':
        out.append(('op', 'resample sch={} dom={} ran={} v={}'.format(
            ','.join(case['sch']), spec_str(case['dom']), spec_str(case['ran']), ','.join(case['vals']))))
    else:
        out.append(('op', 'deform sch={} dom={} v={} disp={}'.format(
            ','.join(case['sch']), spec_str(case['dom']), ','.join(case['vals']),
            ';'.join(','.join(fs(pfr(t)) for t in row) for row in case['disp']))))
    return out


def affine_value(aff, pt):
    re = pfr(aff['a0'][0]) + sum(pfr(b[0]) * x for b, x in zip(aff['b'], pt))
    im = pfr(aff['a0'][1]) + sum(pfr(b[1]) * x for b, x in zip(aff['b'], pt))
    return (re, im)


def e2e_check(ctx, case, results, answers):
    api = case['api']
    dom = case['dom']
    rc = dict(desc_of(case), conv='e2e')
    real_coords = [[pfr(x) for x in c] for c in case['coords']]
    # --- e2e/grid: the nodes the real spaces have vs cell midpoints (oracle) and `uniformNode`
    specs = [('domain', dom, real_coords)]
    if api == 'resampling':
        specs.append(('range', case['ran'], [[pfr(x) for x in c] for c in case['pts']]))
    for which, spec, real in specs:
        if spec['kind'] != 'uniform':
            continue
        for j, (r, e) in enumerate(zip(real, spec_coords(spec))):
            n = len(e)
            ctx.hit('e2e/grid/' + ('n=1' if n == 1 else 'n=2' if n == 2 else 'n>2'))
            bd = ''
            if spec.get('bdry'):
                bd = 'tf'[0 if spec['bdry'][j][0] else 1] + 'tf'[0 if spec['bdry'][j][1] else 1]
                ctx.hit('e2e/grid/bdry-' + bd)
            ctx.case(('e2e-grid', which, n, bd, str(e[0])), None)
            if r != e:
                ctx.violation('e2e grid uniform_discr n={}{} :: nodes are not the {}'.format(
                    n, ' nodes_on_bdry=' + bd if bd else '',
                    'equispaced nodes with boundary nodes as requested' if bd else 'cell midpoints'),
                              '{} axis {} of [{}, {}] with {} cells: nodes {} expected {}'.format(
                                  which, j, spec['min'][j], spec['max'][j], n, [str(x) for x in r],
                                  [str(x) for x in e]), rc)
            ans = answers.get(('grid', which, j))
            if ans is not None:
                impl = 'ok c=' + ','.join(fs(x) for x in r)
                if ans != impl:
                    ctx.disagree(dict(rc, which=which, axis=j), impl, ans, stream='e2e/grid')
    if min(dom['shape']) < 2 or case['dtype'].startswith('U'):
        return
    conv = 'mesh' if api == 'resampling' else 'array'
    status, toks = results.get(conv, ('missing', None))
    ans = answers.get('op')
    if status != 'ok':
        # reported by the operator stream; the model has an answer for every well-formed case
        if ans is not None:
            ctx.disagree(rc, status, ans, stream='e2e/' + api)
        return
    coords_o = spec_coords(dom)
    dims = [len(c) for c in coords_o]
    sch = case['sch']
    numeric = not case['dtype'].startswith(('int', 'uint'))
    if api == 'resampling':
        ran_o = spec_coords(case['ran'])
        pts = list(itertools.product(*ran_o))
        ctx.hit('e2e/resample/dom-' + dom['kind'])
        for j, (c, r) in enumerate(zip(coords_o, ran_o)):
            if dom['kind'] == 'uniform':
                ctx.hit('e2e/resample/axis-' + ('same' if len(r) == len(c) else
                                                'coarsen' if len(r) < len(c) else 'refine'))
    else:
        gpts = list(itertools.product(*coords_o))
        pts = [tuple(p[j] + pfr(case['disp'][j][k]) for j in range(len(dims))) for k, p in enumerate(gpts)]
        ctx.hit('e2e/deform/' + ('zero-disp' if all(pfr(t) == 0 for row in case['disp'] for t in row)
                                 else 'moved'))
    inside = [all(c[0] <= x <= c[-1] for c, x in zip(coords_o, pt)) for pt in pts]
    ctx.hit('e2e/{}/{}'.format('resample' if api == 'resampling' else 'deform',
                               'all-inside-hull' if all(inside) else 'point-outside-hull'))
    if numeric:
        vals = [parse_c(t) for t in case['vals']]
        scale = max([abs(a) + abs(b) for a, b in vals] + [Fr(1)])
        tol = tol_for(case, scale)
        expected = [ref_interp(coords_o, sch, vals, dims, pt) for pt in pts]
    else:
        tol = Fr(0)
        if 'l' in sch:
            return
        expected = [case['vals'][ref_nearest_index(coords_o, pt, dims)] for pt in pts]
    ctx.case(('e2e', api, sch, dom['kind'], case['dtype'], all(inside)), None)
    key = 'e2e {} sch={} dom={} dtype={} :: '.format(api, sch, dom['kind'], case['dtype'])

    def differs(tok, exp):
        if not numeric:
            return tok != exp
        return tok == 'nonfinite' or not close(parse_c(tok), exp, tol)
    # --- ORACLE: the interpolant of the data at the range cell midpoints / at x + v(x)
    if len(toks) != len(pts):
        ctx.violation(key + 'wrong number of entries', '{} for {} points'.format(len(toks), len(pts)), rc)
        return
    for pt, exp, tok in zip(pts, expected, toks):
        if exp is not None and differs(tok, exp):
            ctx.violation(key + ('values differ from the interpolant sampled at the range cell midpoints'
                                 if api == 'resampling' else
                                 'values differ from the interpolant at the displaced points x + v(x)'),
                          'at point {} expected {} got {}'.format(
                              [str(x) for x in pt], ctok(exp) if numeric else exp, tok),
                          dict(rc, bad_point=[str(x) for x in pt]))
            break
    # --- ORACLES that instantiate the round-4 theorems on the real code
    same_grid = (api == 'resampling' and spec_coords(case['ran']) == coords_o) or \
        (api == 'deform' and all(pfr(t) == 0 for row in case['disp'] for t in row))
    if same_grid:
        ctx.hit('e2e/theorem/' + ('resampling_same_grid_identity' if api == 'resampling' else 'deform_zero_identity'))
        for k, (tok, vt) in enumerate(zip(toks, case['vals'])):
            if differs(tok, parse_c(vt) if numeric else vt):
                ctx.violation(key + ('resampling onto the same grid is not the identity' if api == 'resampling'
                                     else 'zero displacement does not return the template'),
                              'entry {}: stored {} returned {}'.format(k, vt, tok), rc)
                break
    if api == 'resampling' and dom['kind'] == 'uniform' and set(sch) == {'n'} and \
            not dom.get('bdry') and not case['ran'].get('bdry') and \
            all(m % n == 0 for n, m in zip(dom['shape'], case['ran']['shape'])):
        # nearest resampling to a k-fold refinement: entry idx is the stored entry idx // k
        ctx.hit('e2e/theorem/resampling_nearest_refine')
        # the way back on the real code: Resampling(...).inverse(op(x)) returns x (round 5)
        rt = case.get('roundtrip')
        if rt is not None:
            ctx.hit('e2e/theorem/resampling_nearest_refine_inverse')
            if rt[0] != 'ok' or any(differs(tok, parse_c(vt) if numeric else vt)
                                     for tok, vt in zip(rt[1], case['vals'])) or len(rt[1]) != len(case['vals']):
                ctx.violation(key + 'Resampling.inverse after nearest refinement does not return the data',
                              'stored {} returned {}'.format(case['vals'], rt)[:300], rc)
            back = answers.get('roundtrip')
            if back is not None:
                impl = 'ok r=' + ','.join(rt[1]) if rt[0] == 'ok' else rt[0]
                if back != impl:
                    ctx.disagree(rc, impl, back, stream='e2e/resample-inverse')
        ks = [m // n for n, m in zip(dom['shape'], case['ran']['shape'])]
        for ridx, tok in zip(itertools.product(*[range(m) for m in case['ran']['shape']]), toks):
            flat = 0
            for i, k, n in zip(ridx, ks, dims):
                flat = flat * n + i // k
            vt = case['vals'][flat]
            if differs(tok, parse_c(vt) if numeric else vt):
                ctx.violation(key + 'nearest resampling to a refined grid is not the piecewise constant '
                              'prolongation', 'entry {} (factors {}): expected stored entry {} = {} got {}'.format(
                                  list(ridx), ks, flat, vt, tok), rc)
                break
    if api == 'deform' and case.get('node_shift'):
        # displacement by whole strides that stays on the grid: the template re-indexed
        ctx.hit('e2e/theorem/deform_onto_nodes')
        for k, (gidx, tok) in enumerate(zip(itertools.product(*[range(n) for n in dims]), toks)):
            flat = 0
            for i, s_, n in zip(gidx, [row[k] for row in case['node_shift']], dims):
                flat = flat * n + (i + s_)
            vt = case['vals'][flat]
            if differs(tok, parse_c(vt)):
                ctx.violation(key + 'displacement by whole strides does not re-index the template',
                              'entry {} shift {}: expected stored entry {} = {} got {}'.format(
                                  list(gidx), [row[k] for row in case['node_shift']], flat, vt, tok), rc)
                break
    if numeric and case.get('affine_data') and set(sch) == {'l'}:
        ctx.hit('e2e/theorem/' + ('resampling_affine_exact' if api == 'resampling' else 'deform_affine_exact'))
        for pt, ins, tok in zip(pts, inside, toks):
            if ins and differs(tok, affine_value(case['affine_data'], pt)):
                ctx.violation(key + 'affine data not reproduced at a point inside the hull of the nodes',
                              'at point {} expected {} got {}'.format(
                                  [str(x) for x in pt], ctok(affine_value(case['affine_data'], pt)), tok),
                              dict(rc, bad_point=[str(x) for x in pt]))
                break
    # --- correspondence with the end-to-end model
    if ans is None:
        return
    if not ans.startswith('ok r='):
        ctx.disagree(rc, 'ok', ans, stream='e2e/' + api)
        return
    mt = ans[len('ok r='):].split(',')
    if len(mt) != len(toks):
        ctx.disagree(rc, 'length {}'.format(len(toks)), 'length {}'.format(len(mt)), stream='e2e/' + api)
        return
    for k, (a, b) in enumerate(zip(toks, mt)):
        same = (a == b)
        if not same and numeric and tol > 0 and a != 'nonfinite':
            same = close(parse_c(a), parse_c(b), tol)
        if not same:
            ctx.disagree(dict(rc, point=[str(x) for x in pts[k]]), 'entry {} = {}'.format(k, a),
                         'entry {} = {}'.format(k, b), stream='e2e/' + api)
            break


def run_grid_general(ctx, with_model=True):
    """general stream of e2e/grid: decimal intervals and odd node counts (strides not dyadic):
    the real nodes agree with the exact rational nodes of the model / the specification within a
    few ulp of the interval scale"""
    import odl
    rng = ctx.rng
    cases = []
    for _ in range(12 if ctx.quick else 80):
        lo = rng.choice([0.0, -1.0, 0.1, -0.3, 2.5, 1e3])
        L = rng.choice([1.0, 0.7, 3.0, 0.1, 10.0, 2.0 / 3.0])
        n = rng.choice([1, 2, 3, 5, 6, 7, 10, 33])
        bd = rng.choice([None, (1, 1), (1, 0), (0, 1), (0, 0)])
        if n == 1:
            bd = None
        cases.append((lo, lo + L, n, bd))
    lines = []
    for lo, hi, n, bd in cases:
        lines.append('grid lo={} hi={} n={}{}'.format(fs(Fr(lo)), fs(Fr(hi)), n,
                                                      '' if bd is None else ' bl={} br={}'.format(*bd)))
    outs = core.run_driver('C15', lines) if with_model else None
    for k, (lo, hi, n, bd) in enumerate(cases):
        key = 'e2e grid general uniform_discr({}, {}, {}{}) :: '.format(
            lo, hi, n, '' if bd is None else ', nodes_on_bdry={}'.format(bd))
        rc = dict(kind='grid-general')
        ctx.hit('e2e/grid/general')
        ctx.case(('e2e-grid-general', n, bd), None)
        try:
            kw = {} if bd is None else {'nodes_on_bdry': [(bool(bd[0]), bool(bd[1]))]}
            real = [Fr(float(x)) for x in odl.uniform_discr(lo, hi, n, **kw).grid.coord_vectors[0]]
        except Exception as e:  # noqa
            ctx.violation(key + 'raised', '{}: {}'.format(type(e).__name__, str(e)[:100]), rc)
            continue
        spec = dict(kind='uniform', min=[frs(Fr(lo))], max=[frs(Fr(hi))], shape=[n])
        if bd is not None:
            spec['bdry'] = [list(bd)]
        exp = spec_coords(spec)[0]
        tol = Fr(8, 2 ** 52) * max(abs(Fr(lo)), abs(Fr(hi)), Fr(1))
        if len(real) != n or any(abs(a - b) > tol for a, b in zip(real, exp)):
            ctx.violation(key + 'nodes are not the equispaced nodes of the specification (8 ulp)',
                          'nodes {} expected {}'.format([float(x) for x in real], [float(x) for x in exp]), rc)
        if outs is not None:
            ans = outs[k]
            ok = ans.startswith('ok c=')
            if ok:
                mt = [core.pfrac(t) for t in ans[len('ok c='):].split(',')]
                ok = len(mt) == len(real) and all(abs(a - b) <= tol for a, b in zip(real, mt))
            if not ok:
                ctx.disagree(dict(rc, lo=lo, hi=hi, n=n, bdry=bd), [float(x) for x in real], ans,
                             stream='e2e/grid-general')


def run_roundtrip_nondyadic(ctx):
    """nearest refinement by odd / non-power-of-two factors on non-dyadic grids (the coarse node IS a
    fine node for odd k; for even k it falls, up to rounding, on a fine cell boundary — either
    neighbour lies in the same coarse cell): ORACLES prolongation and inverse(op(x)) = x on the real
    code (theorems resampling_nearest_refine, resampling_nearest_refine_inverse)."""
    import odl
    rng = ctx.rng
    for rep in range(4 if ctx.quick else 16):
        d = 1 + rep % 2
        ns = [rng.choice([2, 3, 5]) for _ in range(d)]
        ks = [rng.choice([3, 5, 6, 7]) for _ in range(d)]
        lo = [rng.choice([0.0, -0.3, 0.1]) for _ in range(d)]
        hi = [a + rng.choice([1.0, 0.7, 3.0]) for a in lo]
        vals = rng.sample(range(-60, 61), int(np.prod(ns)))
        key = 'e2e resampling nearest refine non-dyadic n={} k={} :: '.format(ns, ks)
        rc = dict(kind='roundtrip-nondyadic')
        ctx.hit('e2e/theorem/roundtrip-nondyadic')
        ctx.case(('roundtrip-nondyadic', tuple(ns), tuple(ks)), None)
        try:
            coarse = odl.uniform_discr(lo, hi, ns)
            fine = odl.uniform_discr(lo, hi, [n * k for n, k in zip(ns, ks)])
            op = odl.Resampling(coarse, fine, 'nearest')
            x = coarse.element(np.array(vals, dtype=float).reshape(ns))
            y = op(x)
            ya = y.asarray()
            for ridx in itertools.product(*[range(n * k) for n, k in zip(ns, ks)]):
                cidx = tuple(i // k for i, k in zip(ridx, ks))
                if ya[ridx] != x.asarray()[cidx]:
                    ctx.violation(key + 'not the piecewise constant prolongation',
                                  'entry {} expected entry {} = {} got {}'.format(ridx, cidx, x.asarray()[cidx], ya[ridx]), rc)
                    break
            back = op.inverse(y).asarray()
            if not np.array_equal(back, x.asarray()):
                ctx.violation(key + 'Resampling.inverse after nearest refinement does not return the data',
                              'stored {} returned {}'.format(vals, back.ravel().tolist())[:300], rc)
        except Exception as e:  # noqa
            ctx.violation(key + 'raised', '{}: {}'.format(type(e).__name__, str(e)[:160]), rc)


def theorem_op_cases(rng, reps):
    """operator cases that meet the hypotheses of the round-4 theorems: resampling onto the same
    grid, linear resampling of affine data onto a coarser uniform grid, zero displacement,
    displaced points inside the hull with affine data"""
    out = []
    for rep in range(reps):
        for d in (1, 2, 3):
            dt = ['float64', 'complex128', 'float32'][(rep + d) % 3]
            for nonuni in (False, True):
                # same grid, any scheme mix
                sch = ''.join(rng.choice('ln') for _ in range(d))
                dom, ran = gen_space_pair(rng, d, dt, nonuni)
                size = int(np.prod(dom['shape']))
                out.append(dict(kind='interp', api='resampling', sch=sch, dtype=dt, dom=dom, ran=dict(dom),
                                vals=gen_values(rng, size, dt, distinct=True), single_string=False,
                                aseed=rng.getrandbits(30)))
            # nearest on every axis, k-fold refined range grid (k a power of two: dyadic nodes)
            ndt = [dt, 'int64'][rep % 2] if d > 1 else dt
            dom, ran = gen_space_pair(rng, d, ndt, False)
            ran['shape'] = [n * rng.choice([1, 2, 2, 4]) for n in dom['shape']]
            size = int(np.prod(dom['shape']))
            out.append(dict(kind='interp', api='resampling', sch='n' * d, dtype=ndt, dom=dom, ran=ran,
                            vals=gen_values(rng, size, ndt, distinct=True), single_string=(rep % 2 == 1),
                            aseed=rng.getrandbits(30)))
            # nodes_on_bdry in all four combinations (strides dyadic), onto the same grid / onto a
            # default uniform grid of the same interval
            if d <= 2:
                for combo in ([(1, 1), (1, 0), (0, 1), (0, 0)] if d == 1 else
                              [rng.sample([(1, 1), (1, 0), (0, 1), (0, 0)], 2) for _ in range(2)]):
                    flags = [combo] if d == 1 else combo
                    mins, maxs, shape, shape_r = [], [], [], []
                    for (bl, br) in flags:
                        n = rng.choice([2, 3, 4])
                        d2 = 2 * (n - 1) + (0 if bl else 1) + (0 if br else 1)
                        L = d2 * Fr(rng.choice([1, 2, 4, 8]), 8)
                        lo = Fr(rng.randint(-4, 4), 2)
                        mins.append(lo)
                        maxs.append(lo + L)
                        shape.append(n)
                        shape_r.append(rng.choice([m for m in range(1, 8) if dyadic(L / m / 2)]))
                    bdt = ['float64', 'complex128'][(rep + len(out)) % 2]
                    dom = dict(kind='uniform', min=[frs(x) for x in mins], max=[frs(x) for x in maxs],
                               shape=shape, dtype=bdt, bdry=[list(f) for f in flags])
                    ran = dict(kind='uniform', min=dom['min'], max=dom['max'], shape=shape_r, dtype=bdt)
                    size = int(np.prod(shape))
                    for target in (ran, dict(dom)):
                        out.append(dict(kind='interp', api='resampling',
                                        sch=''.join(rng.choice('ln') for _ in range(d)), dtype=bdt, dom=dom,
                                        ran=target, vals=gen_values(rng, size, bdt, distinct=True),
                                        single_string=False, aseed=rng.getrandbits(30)))
            # affine data, all linear, coarser (or equal) uniform range grid
            dom, ran = gen_space_pair(rng, d, dt, False)
            coords = spec_coords(dom)
            ran['shape'] = [max([m for m in range(1, n + 1)
                                 if dyadic((pfr(hi) - pfr(lo)) / m / 2)] if rng.random() < 0.7 else [1])
                            for n, lo, hi in zip(dom['shape'], dom['min'], dom['max'])]
            cplx = dt.startswith('complex')
            a0 = (Fr(rng.randint(-8, 8), 4), Fr(rng.randint(-8, 8), 4) if cplx else Fr(0))
            b = [(Fr(rng.choice([-3, -2, -1, 1, 2, 3]), 2), Fr(rng.randint(-2, 2), 2) if cplx else Fr(0))
                 for _ in range(d)]
            aff = dict(a0=[frs(a0[0]), frs(a0[1])], b=[[frs(x), frs(y)] for x, y in b])
            vals = [ctok(affine_value(aff, pt)) for pt in itertools.product(*coords)]
            out.append(dict(kind='interp', api='resampling', sch='l' * d, dtype=dt, dom=dom, ran=ran,
                            vals=vals, affine_data=aff, single_string=(rep % 2 == 0),
                            aseed=rng.getrandbits(30)))
            # linear_deform: zero displacement (any scheme mix) and affine data moved inside the hull
            rdt = 'float64' if rep % 2 == 0 else 'float32'
            dom, _ = gen_space_pair(rng, d, rdt, False)
            size = int(np.prod(dom['shape']))
            sch = ''.join(rng.choice('ln') for _ in range(d))
            out.append(dict(kind='interp', api='deform', sch=sch, dtype=rdt, dom=dom,
                            disp=[['0'] * size for _ in range(d)],
                            vals=gen_values(rng, size, rdt, distinct=True), single_string=False,
                            use_out=(rep % 2 == 1), aseed=rng.getrandbits(30)))
            # displacement by whole strides that keeps every point on the grid (any scheme mix)
            dom, _ = gen_space_pair(rng, d, rdt, False)
            coords = spec_coords(dom)
            shifts, disp = [[] for _ in range(d)], [[] for _ in range(d)]
            for gidx in itertools.product(*[range(n) for n in dom['shape']]):
                for j, (i, n) in enumerate(zip(gidx, dom['shape'])):
                    s_ = rng.randint(-i, n - 1 - i)
                    shifts[j].append(s_)
                    disp[j].append(frs(coords[j][i + s_] - coords[j][i]))
            out.append(dict(kind='interp', api='deform', sch=''.join(rng.choice('ln') for _ in range(d)),
                            dtype=rdt, dom=dom, disp=disp, node_shift=shifts,
                            vals=gen_values(rng, int(np.prod(dom['shape'])), rdt, distinct=True),
                            single_string=False, use_out=(rep % 2 == 0), aseed=rng.getrandbits(30)))
            dom, _ = gen_space_pair(rng, d, 'float64', False)
            coords = spec_coords(dom)
            gpts = list(itertools.product(*coords))
            disp = [[] for _ in range(d)]
            for pt in gpts:
                for j in range(d):
                    c = coords[j]
                    h = c[1] - c[0]
                    t = pt[j] + h * Fr(rng.randint(-8, 8), 4)
                    t = min(max(t, c[0]), c[-1])
                    disp[j].append(frs(t - pt[j]))
            aff = dict(a0=[frs(Fr(rng.randint(-8, 8), 4)), '0'],
                       b=[[frs(Fr(rng.choice([-3, -2, -1, 1, 2, 3]), 2)), '0'] for _ in range(d)])
            vals = [ctok(affine_value(aff, pt)) for pt in gpts]
            out.append(dict(kind='interp', api='deform', sch='l' * d, dtype='float64', dom=dom, disp=disp,
                            vals=vals, affine_data=aff, single_string=(rep % 2 == 0), use_out=False,
                            aseed=rng.getrandbits(30)))
    return out


# ---------------------------------------------------------------------------
# value dtypes: the cast of the evaluation points to the value dtype in _find_indices

VKINDS = [('float64', 'float64'), ('float32', 'float32'), ('complex128', 'complex128'),
          ('complex64', 'complex64'), ('int64', 'int'), ('int8', 'int'), ('uint8', 'int'), ('U1', 'strNarrow'),
          ('U31', 'strNarrow'), ('U32', 'strWide'), ('U40', 'strWide'), ('object', 'object')]


def run_dtype_table(ctx, with_model=True):
    """nearest_interpolator on every value-dtype class (float points): real outcome vs the
    model's `findIndicesOutcome`, `np.can_cast` vs the model's `castSafe`; ORACLE: the closest
    node's value is returned (no exception) for every value dtype."""
    from odl.discr import discr_utils as du
    c = [Fr(0), Fr(1), Fr(2), Fr(4)]
    pts = [Fr(-1, 2), Fr(1, 2), Fr(3, 4), Fr(3), Fr(9, 2), Fr(2)]
    lines, batch = [], []
    for dt, vk in VKINDS:
        if dt.startswith('U'):
            vals = ['a', 'b', 'c', 'd'] if dt == 'U1' else ['a', 'bb', 'c', 'dd']
            f = np.array(vals, dtype=dt)
        elif dt == 'object':
            vals = ['a', 'bb', 'c', 'dd']
            f = np.array(vals, dtype=object)
        elif dt.startswith(('int', 'uint')):
            vals = ['3', '5', '7', '11'] if dt.startswith('uint') else ['3', '-5', '7', '11']
            f = np.array([int(t) for t in vals], dtype=dt)
        else:
            vals = ['3/8', '-5/8', '7/4', '11/2']
            f = np.array([float(Fr(t)) for t in vals], dtype=dt)
        warned = None
        try:
            with warnings.catch_warnings(record=True) as wl:
                warnings.simplefilter('always')
                r = du.nearest_interpolator(f, [np.array([float(x) for x in c])])(
                    np.array([float(p) for p in pts]))
            warned = any('Unable to infer accurate dtype' in str(w.message) for w in wl)
            toks = [value_token(z, dt if not dt == 'object' else 'U9') for z in np.asarray(r).tolist()]
            status = 'ok'
        except Exception as e:  # noqa
            status, toks = 'err:{}:{}'.format(type(e).__name__, str(e)[:100]), None
        # the hand-written NumPy tables of the model, each against NumPy itself
        npdt = np.dtype(dt)
        can = bool(np.can_cast(np.float64, npdt, 'safe'))
        same = bool(np.can_cast(np.float64, npdt, 'same_kind'))
        numeric = bool(np.issubdtype(npdt, np.number))
        probe = 1.0 + 2.0 ** -30                      # not representable in single precision
        try:
            with warnings.catch_warnings():
                warnings.simplefilter('ignore')
                back = np.asarray([probe]).astype(npdt)
                lossless = (not dt.startswith('U')) and \
                    bool(np.all(back.astype(np.complex128) == np.complex128(probe)))
        except Exception:  # noqa
            lossless = False
        exp = [vals[ref_nearest_index([c], (p,), [4])] for p in pts]
        sig = ('dtype-table', dt)
        ctx.case(sig, None)
        ctx.hit('dtype/' + vk)
        case = dict(kind='dtype', dtype=dt, vkind=vk)
        if status != 'ok' or toks != exp:
            ctx.violation('nearest_interpolator value dtype={} class={} float points :: closest-node rule'.format(dt, vk),
                          'expected {} got {}'.format(exp, status if status != 'ok' else toks), case)
        lines.append('cast vk={}'.format(vk))
        batch.append((case, status, (can, same, numeric, lossless), warned))
    if not with_model:
        return
    outs = core.run_driver('C15', lines)
    for (case, status, (can, same, numeric, lossless), warned), ans in zip(batch, outs):
        # the code falls back to float (and warns) exactly when the points do not take the value dtype
        impl = 'ok safe={} samekind={} numeric={} lossless={} cast={} outcome={}'.format(
            int(can), int(same), int(numeric), int(lossless), '?' if warned is None else int(not warned),
            'ok' if status == 'ok' else 'err:type')
        if ans != impl:
            ctx.disagree(case, impl + ' (' + status[:80] + ')', ans)


# ---------------------------------------------------------------------------
# sampling: space.element(callable), sampling_function, point_collocation, vectorize

CALL_KINDS = ['oop', 'ip', 'dual', 'dual_kw', 'vec', 'vec_noot', 'obj', 'obj_ip', 'kwargs',
              'plain1d', 'ufunc1d', 'vec_branch']
INPUT_CONVS = ['element', 'mesh', 'mesh+out', 'array', 'array+out', 'point']


def gen_poly(rng, d, used, cplx, nterms=3):
    """polynomial with few-bit coefficients in the variables `used`; [((re, im), exps)]"""
    poly = [((Fr(rng.randint(-8, 8), 2), Fr(rng.randint(-4, 4), 2) if cplx else Fr(0)), (0,) * d)]
    for j in used:  # make sure every used variable really occurs
        e = [0] * d
        e[j] = rng.choice([1, 1, 2])
        poly.append(((Fr(rng.choice([-6, -3, -2, -1, 1, 2, 3, 5]), 2),
                      Fr(rng.randint(-2, 2), 2) if cplx else Fr(0)), tuple(e)))
    for _ in range(nterms if used else 0):
        e = [0] * d
        for j in rng.sample(used, min(len(used), rng.choice([1, 2]))):
            e[j] = 1
        poly.append(((Fr(rng.randint(-4, 4), 2), Fr(0)), tuple(e)))
    return poly


def peval(poly, pt):
    re = im = Fr(0)
    for (a, b), exps in poly:
        m = Fr(1)
        for x, e in zip(pt, exps):
            m *= x ** e
        re += a * m
        im += b * m
    return (re, im)


def poly_json(poly):
    return [[frs(a), frs(b), list(e)] for (a, b), e in poly]


def poly_from_json(js):
    return [((pfr(a), pfr(b)), tuple(e)) for a, b, e in js]


_RET = []          # arrays computed by the user's callable during the last wrapper call
_SAMPLE_TIE = []   # (case, conv, model line, real shape, real tokens)


def make_callable(case):
    """python callable of the requested calling convention computing the polynomial"""
    import odl
    poly = poly_from_json(case['poly'])
    poly2 = poly_from_json(case['poly2']) if case.get('poly2') else None
    cplx = case['dtype'].startswith('complex')
    ck = case['ck']
    d = case['d']

    def coef(a, b):
        return complex(float(a), float(b)) if cplx else float(a)

    def rec(v):
        # what the user's code computed on the input ODL handed to it (for the model tie)
        if len(_RET) < 64:
            _RET.append(np.array(v))
        return v

    def expr(x, pl=poly):
        tot = None
        for (a, b), exps in pl:
            term = coef(a, b)
            for j, e in enumerate(exps):
                if e:
                    term = term * x[j] ** e
            tot = term if tot is None else tot + term
        return tot

    if ck == 'oop':
        return lambda x: rec(expr(x))
    if ck == 'ip':
        def f_ip(x, out):
            out[:] = rec(expr(x))
        return f_ip
    if ck == 'dual':
        def f_dual(x, out=None):
            if out is None:
                return rec(expr(x))
            out[:] = rec(expr(x))
        return f_dual
    if ck == 'dual_kw':
        def f_dual_kw(x, *, out=None):
            if out is None:
                return rec(expr(x))
            out[:] = rec(expr(x))
        return f_dual_kw
    if ck in ('vec', 'vec_noot', 'vec_branch'):
        def scalar_f(x):
            # x: array of the d coordinates of ONE point; plain python control flow
            if ck == 'vec_branch' and not (x[0] < Fr(case['thr'])):
                return expr(x, poly2)
            return rec(expr(x))
        if ck == 'vec_noot':
            return odl.util.vectorize(scalar_f)
        return odl.util.vectorize(otypes=[case['dtype']])(scalar_f)
    if ck == 'obj':
        class Obj(object):
            def __call__(self, x):
                return rec(expr(x))
        return Obj()
    if ck == 'obj_ip':
        class ObjIp(object):
            def __call__(self, x, out):
                out[:] = rec(expr(x))
        return ObjIp()
    if ck == 'kwargs':
        def f_kw(x, c=0.0):
            return rec(expr(x) + c)
        return f_kw
    if ck == 'plain1d':
        # 1d function written in terms of x, not x[0]
        class X(object):
            def __init__(self, x):
                self.x = x

            def __getitem__(self, j):
                return self.x
        return lambda x: rec(expr(X(x)))
    if ck == 'ufunc1d':
        return {'negative': np.negative, 'square': np.square}[case['ufunc']]
    raise KeyError(ck)


def samp_expected(case, pt):
    poly = poly_from_json(case['poly'])
    if case['ck'] == 'vec_branch' and not (pt[0] < pfr(case['thr'])):
        poly = poly_from_json(case['poly2'])
    if case['ck'] == 'ufunc1d':
        return {'negative': (-pt[0], Fr(0)), 'square': (pt[0] ** 2, Fr(0))}[case['ufunc']]
    v = peval(poly, pt)
    if case['ck'] == 'kwargs':
        v = (v[0] + pfr(case['cval']), v[1])
    return v


def samp_configs(ctx):
    rng = ctx.rng
    out = []
    dts = ['float64', 'float32', 'complex128', 'complex64']
    reps = 1 if ctx.quick else 8
    for rep in range(reps):
        for d in (1, 2, 3):
            for ki, ck in enumerate(CALL_KINDS):
                if ck in ('plain1d', 'ufunc1d') and d != 1:
                    continue
                usages = ['all', 'partial', 'const'] if d > 1 else ['all', 'const']
                if ck in ('ufunc1d', 'plain1d'):
                    usages = ['all']
                for ui, usage in enumerate(usages):
                    dt = dts[(ki + ui + d + rep) % 4]
                    if ck == 'ufunc1d':
                        dt = 'float64' if rep % 2 == 0 else 'float32'
                    if ck == 'vec_noot' and dt in ('float32', 'complex64'):
                        dt = 'float64' if dt == 'float32' else 'complex128'
                    nonuni = rng.random() < 0.35
                    shape, coords, mins, maxs = [], [], [], []
                    for j in range(d):
                        n = rng.choice([1, 2, 3, 4] if d < 3 else [1, 2, 3])
                        if nonuni:
                            c = [Fr(rng.randint(-8, -4), 4)]
                            for _ in range(n - 1):
                                c.append(c[-1] + Fr(rng.choice([1, 2, 3, 5]), 4))
                            coords.append(c)
                            mins.append(c[0] - Fr(1, 4))
                            maxs.append(c[-1] + Fr(1, 2))
                        else:
                            h = Fr(rng.choice([1, 2, 4]), 4)
                            a = Fr(rng.randint(-4, 2), 2)
                            mins.append(a)
                            maxs.append(a + n * h)
                        shape.append(n)
                    sp = dict(kind='nonuniform' if nonuni else 'uniform', min=[frs(x) for x in mins],
                              max=[frs(x) for x in maxs], shape=shape, dtype=dt)
                    if nonuni:
                        sp['coords'] = [[frs(x) for x in c] for c in coords]
                    if usage == 'all':
                        used = list(range(d))
                    elif usage == 'partial':
                        used = sorted(rng.sample(range(d), rng.randint(1, d - 1)))
                    else:
                        used = []
                    cplx = dt.startswith('complex')
                    case = dict(kind='sampling', ck=ck, d=d, dtype=dt, space=sp, usage=usage,
                                playout=next_layout('sampling-points'), olayout=next_layout('sampling-out', 2),
                                poly=poly_json(gen_poly(rng, d, used, cplx)))
                    if ck == 'vec_branch':
                        case['poly2'] = poly_json(gen_poly(rng, d, used, cplx))
                        case['thr'] = frs(Fr(rng.randint(-6, 2), 4))
                    if ck == 'kwargs':
                        case['cval'] = frs(Fr(rng.randint(-6, 6), 2))
                    if ck == 'ufunc1d':
                        case['ufunc'] = rng.choice(['negative', 'square'])
                    out.append(case)
    return out


TIE_KIND = {'oop': 'oopOnly', 'obj': 'oopOnly', 'kwargs': 'oopOnly', 'plain1d': 'oopOnly',
            'dual': 'dual', 'dual_kw': 'dual', 'ip': 'ipOnly', 'obj_ip': 'ipOnly'}


def sample_tie(case, conv, shape, npts, result, toks):
    """Queue one wrapper call for the comparison with `Sampling.sample` of the model: the array
    the user's code computed (recorded inside the real call) goes to the driver, which applies the
    wrapper's dispatch / reshape / broadcast / assignment logic; its answer must be the array the
    real wrapper delivered."""
    if case['ck'] not in TIE_KIND or conv.startswith('direct') or not _RET:
        return
    ret = _RET[-1]
    base = conv.split('+')[0]
    inp = 'mesh' if base in ('element', 'mesh') else 'array' if base == 'array-flat' else base
    s_shape = list(shape) if inp == 'mesh' else [npts] if inp == 'array' else [1]
    vals = [num_pair(z) for z in np.asarray(ret).ravel(order='C').tolist()]
    if any(v is None for v in vals):
        return
    line = 'sample kind={} out={} d={} inp={} s={} rshape={} r={}'.format(
        TIE_KIND[case['ck']], int(conv.endswith('+out')), case['d'], inp,
        ','.join(str(n) for n in s_shape), ','.join(str(n) for n in ret.shape) or '-',
        ','.join(ctok(v) for v in vals))
    # which hypothesis form of C15.sampling_paths_collocate the recorded array has
    rs = list(ret.shape)
    if rs == []:
        form = 'const'
    elif case['d'] == 1 and rs == [1] + s_shape:
        form = 'lead1d'
    elif len(rs) == len(s_shape) and all(a in (1, b) for a, b in zip(rs, s_shape)):
        form = 'bcast-full' if rs == s_shape else 'bcast-partial'
    else:
        form = 'other'
    if inp == 'point':
        real_shape, real_toks = [], toks[-1:]          # the last single-point call
    else:
        real_shape, real_toks = list(np.shape(result)), toks
    _SAMPLE_TIE.append((dict(kind='sample-tie', ck=case['ck'], conv=conv, d=case['d'], form=form,
                             usage=case['usage'], rshape=list(ret.shape), s=s_shape),
                        line, real_shape, real_toks))


def flush_sample_tie(ctx, with_model=True):
    batch = list(_SAMPLE_TIE)
    del _SAMPLE_TIE[:]
    if not with_model or not batch:
        return
    outs = core.run_driver('C15', [b[1] for b in batch])
    for (case, line, real_shape, real_toks), ans in zip(batch, outs):
        ctx.hit('sample-tie/{}/{}'.format(TIE_KIND[case['ck']], case['conv']))
        ctx.hit('retform/{}/{}'.format('point' if case['conv'] == 'point' else 'grid', case['form']))
        impl = 'ok shape={} a={}'.format(','.join(str(n) for n in real_shape) or '-', ','.join(real_toks) or '-')
        if ans != impl:
            ctx.disagree(dict(case, line=line[:300]), impl[:300], ans[:300])


def run_sampling_case(ctx, case):
    """ORACLE on the real code: every way of sampling the callable gives its values at the
    grid points (exact)."""
    from odl.discr.discr_utils import sampling_function, point_collocation
    dt = case['dtype']
    try:
        space = make_space(case['space'])
        cv = [[Fr(float(t)) for t in c] for c in space.grid.coord_vectors]
        func = make_callable(case)
    except Exception as e:  # noqa
        ctx.case(None)
        ctx.violation('sampling ck={} d={} dtype={} :: setup raised'.format(case['ck'], case['d'], dt),
                      '{}: {}'.format(type(e).__name__, str(e)[:200]), case)
        return
    pts = list(itertools.product(*cv))
    expected = [samp_expected(case, pt) for pt in pts]
    exp_tok = [ctok(v) for v in expected]
    nontrivial = len(set(exp_tok)) > 1
    kwargs = {'c': float(pfr(case['cval']))} if case['ck'] == 'kwargs' else {}
    shape = tuple(len(c) for c in cv)
    allpts = np.array([[float(x) for x in pt] for pt in pts], dtype=float).T.reshape(len(cv), len(pts))

    play, olay = case.get('playout', 'C'), case.get('olayout', 'C')
    layout_hits(ctx, case, [('sampling-points', 'playout'), ('sampling-out', 'olayout')])

    def garbage(shp):
        return relayout(np.full(shp, np.nan, dtype=dt), olay)

    def the_mesh():
        # the grid of the space, handed in as non-contiguous / Fortran-ordered arrays
        if play == 'C':
            return space.meshgrid
        from odl.discr.grid import sparse_meshgrid
        return sparse_meshgrid(*[relayout(c, play) for c in space.grid.coord_vectors])

    def run_conv(conv):
        if conv == 'element':
            return space.element(func, **kwargs).asarray()
        sf = sampling_function(func, space.domain, out_dtype=dt)
        if conv == 'mesh':
            return point_collocation(sf, the_mesh(), **kwargs)
        if conv == 'mesh+out':
            out = garbage(shape)
            r = point_collocation(sf, the_mesh(), out=out, **kwargs)
            if r is not out:
                raise AssertionError('out= given but a different object returned')
            return out
        if conv == 'array':
            return sf(relayout(allpts, play), **kwargs)
        if conv == 'array+out':
            out = garbage((len(pts),))
            sf(relayout(allpts, play), out=out, **kwargs)
            return out
        if conv == 'array-flat':          # 1d: the n points as a flat (n,) array
            return sf(relayout(allpts[0], play), **kwargs)
        if conv == 'array-flat+out':
            out = garbage((len(pts),))
            sf(relayout(allpts[0], play), out=out, **kwargs)
            return out
        if conv == 'direct-array':       # the decorated function itself, (d, N) points
            return func(allpts)
        if conv == 'direct-array+out':
            out = garbage((len(pts),))
            func(allpts, out=out)
            return out
        if conv == 'direct-mesh':
            return func(space.meshgrid)
        if conv == 'direct-flat1d':      # 1d: a flat array of N points
            return func(allpts[0])
        if conv == 'direct-point':
            vals = [func(float(pt[0]) if len(pt) == 1 else [float(t) for t in pt]) for pt in pts[:12]]
            return np.array([np.asarray(v).reshape(()) for v in vals], dtype=dt)
        if conv == 'point':
            vals = []
            for pt in pts[:12]:
                x = float(pt[0]) if len(pt) == 1 else [float(t) for t in pt]
                r = sf(x, **kwargs)
                if isinstance(r, np.ndarray):
                    raise AssertionError('single point returned an array of shape {}'.format(r.shape))
                want_t = complex if dt.startswith('complex') else float
                if type(r) is not want_t:
                    raise AssertionError('single point returned {} instead of {}'.format(
                        type(r).__name__, want_t.__name__))
                vals.append(r)
            return np.array(vals, dtype=dt)
        raise KeyError(conv)

    convs = list(INPUT_CONVS)
    if len(cv) == 1 and len(pts) > 1:
        # 1d domain: flat (n,) point arrays are accepted as well and must mean the same n points
        convs += ['array-flat', 'array-flat+out']
    if case['ck'].startswith('vec'):
        convs += ['direct-array', 'direct-array+out', 'direct-mesh', 'direct-point']
        if len(cv) == 1:
            convs += ['direct-flat1d']
    for conv in convs:
        if conv.startswith('array') and len(pts) == 1 and len(cv) == 1:
            continue  # a (1,)-array in 1d is a single point by the documented input rules
        del _RET[:]
        try:
            with warnings.catch_warnings():
                warnings.simplefilter('ignore')
                r = run_conv(conv)
            status = 'ok'
            toks = flat_tokens(r, dt)
            sample_tie(case, conv, shape, len(pts), r, toks)
            if str(np.asarray(r).dtype) != dt and not (conv.startswith('direct') and case['ck'] == 'vec_noot'):
                status = 'err:dtype:result dtype {} instead of {}'.format(np.asarray(r).dtype, dt)
        except Exception as e:  # noqa
            status, toks = 'err:{}:{}'.format(type(e).__name__, str(e)[:120]), None
        sig = ('sampling', case['ck'], case['d'], case['usage'], dt, conv, case['space']['kind'])
        ctx.case(sig if nontrivial else None,
                 {'case': {k: case[k] for k in ('ck', 'poly', 'space')}, 'conv': conv, 'impl': toks}
                 if len(ctx.samples) < 10 and len(pts) <= 6 and nontrivial else None)
        ctx.hit('sampling/{}/{}'.format(case['ck'], conv))
        want = exp_tok[:12] if conv in ('point', 'direct-point') else exp_tok
        key = 'sampling ck={} usage={} d={} dtype={} grid={} :: input={}'.format(
            case['ck'], case['usage'], case['d'], dt, case['space']['kind'], conv)
        if status != 'ok':
            if case['d'] == 1 and case['ck'] in ('dual_kw', 'ufunc1d') and conv.endswith('+out'):
                limited_violation(ctx, 'sampling-1d-inplace-' + case['ck'], key + ' raised', status,
                                  dict(case, conv=conv))
            else:
                ctx.violation(key + ' raised', status, dict(case, conv=conv))
            ctx.err(status.split(':')[1])
        elif toks != want:
            k = [i for i, (a, b) in enumerate(zip(toks, want)) if a != b]
            k = k[0] if k else -1
            ctx.violation(key + ' values differ from the callable at the grid points',
                          'shape {} entry {} (point {}): expected {} got {}'.format(
                              list(shape), k, [str(x) for x in pts[k]] if k >= 0 else '?',
                              want[k] if k >= 0 else len(want), toks[k] if k >= 0 else len(toks)),
                          dict(case, conv=conv))


def run_vector_valued(ctx):
    """sampling_function on an array of callables / constants (vector valued)."""
    from odl.discr.discr_utils import sampling_function, point_collocation
    import odl
    rng = ctx.rng
    for rep in range(2 if ctx.quick else 8):
        d = rng.choice([1, 2, 3])
        shp = [rng.choice([2, 3]) for _ in range(d)]
        sp = dict(kind='uniform', min=['0'] * d, max=[frs(Fr(n, 2)) for n in shp], shape=shp,
                  dtype='float64')
        space = make_space(sp)
        cv = [[Fr(float(t)) for t in c] for c in space.grid.coord_vectors]
        pts = list(itertools.product(*cv))
        polys = [gen_poly(rng, d, sorted(rng.sample(range(d), rng.randint(1, d))), False) for _ in range(2)]
        const = Fr(rng.randint(-4, 4), 2)
        cases = [dict(ck='oop', d=d, dtype='float64', poly=poly_json(p)) for p in polys]
        cases[1]['ck'] = 'dual'
        funcs = [make_callable(cases[0]), float(const), make_callable(cases[1])]
        exp = [[ctok(peval(polys[0], pt)) for pt in pts], [ctok((const, Fr(0)))] * len(pts),
               [ctok(peval(polys[1], pt)) for pt in pts]]
        f0, f2 = funcs[0], funcs[2]

        def tuple_func(x):
            # one function returning a tuple of components (broadcasting, a constant)
            return (f0(x), float(const), f2(x))
        allpts = np.array([[float(t) for t in pt] for pt in pts]).T.reshape(d, len(pts))
        for conv in ('mesh', 'mesh+out', 'tuple-mesh', 'tuple-array', 'tuple-point', 'point',
                     'tuple-mesh+out', 'tuple-array+out'):
            key = 'sampling vector-valued {} d={} :: input={}'.format(
                'function returning a tuple' if conv.startswith('tuple') else 'array of callables', d, conv)
            rc = dict(kind='vector', d=d, conv=conv)
            try:
                if conv.startswith('tuple'):
                    sf = sampling_function(tuple_func, space.domain, out_dtype=(float, (3,)))
                else:
                    sf = sampling_function(funcs, space.domain)
                if conv in ('mesh', 'tuple-mesh'):
                    r = point_collocation(sf, space.meshgrid)
                elif conv == 'tuple-array':
                    r = sf(allpts)
                elif conv in ('tuple-point', 'point'):
                    cols = []
                    for pt in pts:
                        v = sf(float(pt[0]) if d == 1 else [float(t) for t in pt])
                        if np.shape(v) != (3,):
                            raise AssertionError('single point gave shape {}'.format(np.shape(v)))
                        cols.append(np.asarray(v, dtype=float))
                    r = np.array(cols).T
                elif conv == 'tuple-mesh+out':
                    # out-of-place-only callable returning a ragged tuple, `out` given: _default_ip
                    # has to broadcast the nested result
                    r = np.full((3,) + space.shape, np.nan)
                    sf(space.meshgrid, out=r)
                elif conv == 'tuple-array+out':
                    r = np.full((3, len(pts)), np.nan)
                    sf(allpts, out=r)
                else:
                    r = np.full((3,) + space.shape, np.nan)
                    point_collocation(sf, space.meshgrid, out=r)
                got = [flat_tokens(r[i], 'float64') for i in range(3)]
                ctx.case(('vector', d, conv), None)
                ctx.hit('sampling/vector/' + conv)
                if got != exp:
                    ctx.violation(key + ' values differ from the callables at the grid points',
                                  'expected {} got {}'.format(exp, got)[:400], rc)
            except Exception as e:  # noqa
                ctx.case(None)
                ctx.violation(key + ' raised', '{}: {}'.format(type(e).__name__, str(e)[:200]), rc)


def run_input_classes(ctx, with_model=True):
    """Well-formed and malformed array-like inputs of every small shape: the real interpolators
    accept (scalar / N results) or reject (ValueError) exactly as `classifyArrayInput` says.
    ORACLE: accepted inputs give the node value at every point (all points sit on a node)."""
    from odl.discr import discr_utils as du
    lines, batch = [], []
    for d in (1, 2, 3):
        cv = [np.array([0.0, 1.0, 2.0]) + j for j in range(d)]
        f = np.arange(3.0 ** d).reshape((3,) * d) + 1
        node = tuple(1 + j for j in range(d))           # coordinates of node (1, .., 1)
        expect = fs(float(f[(1,) * d]))
        shapes = [(), (0,), (1,), (3,), (d,), (d, 0), (d, 1), (d, 4), (1, 4), (2, 4), (d + 1,),
                  (d + 1, 2), (d, 2, 2), (1, 1, 3)]
        for shape in sorted(set(shapes)):
            for api in ('linear', 'nearest', 'peraxis'):
                x = np.zeros(shape)
                # put every point on the node (1,..,1) where the layout allows it
                if len(shape) == 2 and shape[0] == d:
                    x = x + np.array(node, dtype=float)[:, None]
                elif shape == (d,) and d > 1:
                    x = np.array(node, dtype=float)
                else:
                    x = x + float(node[0])
                try:
                    with warnings.catch_warnings():
                        warnings.simplefilter('ignore')
                        if api == 'linear':
                            itp = du.linear_interpolator(f, cv)
                        elif api == 'nearest':
                            itp = du.nearest_interpolator(f, cv)
                        else:
                            itp = du.per_axis_interpolator(f, cv, ['nearest', 'linear', 'nearest'][:d])
                        r = itp(x)
                    if isinstance(r, np.ndarray):
                        impl = 'ok scalar=0 n={}'.format(r.shape[0]) if r.ndim == 1 else \
                            'ok shape={}'.format(r.shape)
                        vals = [fs(v) for v in r.ravel().tolist()]
                    else:
                        impl, vals = 'ok scalar=1 n=1', [fs(r)]
                except ValueError:
                    impl, vals = 'err:value', None
                except Exception as e:  # noqa
                    impl, vals = 'err:{}:{}'.format(type(e).__name__, str(e)[:80]), None
                case = dict(kind='inputclass', d=d, shape=list(shape), api=api)
                ctx.case(('inputclass', d, shape, api), None)
                ctx.hit('input/' + ('rejected' if impl == 'err:value' else 'accepted'))
                on_node = (len(shape) == 2 and shape[0] == d) or (shape == (d,) and d > 1) or d == 1
                if vals is not None and on_node and any(v != expect for v in vals):
                    ctx.violation('interp input shape={} d={} api={} :: node value not reproduced'.format(
                        shape, d, api), 'expected {} got {}'.format(expect, vals[:6]), case)
                if impl.startswith('err:') and impl != 'err:value':
                    ctx.violation('interp input shape={} d={} api={} :: raised'.format(shape, d, api),
                                  impl, case)
                # ORACLE: the documented input rules ("expected scalar, array-like of shape (1,),
                # (n,) or (1, n)" in 1d, "({d},) or ({d}, n)" otherwise); a single point gives a
                # scalar, N points give N results, anything else is rejected with ValueError
                if d == 1:
                    doc = 'ok scalar=1 n=1' if shape == () else \
                        'ok scalar=0 n={}'.format(shape[-1]) if (len(shape) == 1 or (len(shape) == 2 and shape[0] == 1)) \
                        else 'err:value'
                else:
                    doc = 'ok scalar=1 n=1' if shape == (d,) else \
                        'ok scalar=0 n={}'.format(shape[1]) if (len(shape) == 2 and shape[0] == d) \
                        else 'err:value'
                if impl != doc:
                    ctx.violation('interp input shape={} d={} api={} :: documented input rule'.format(
                        shape, d, api), 'documented: {}; got {}'.format(doc, impl), case)
                lines.append('classify d={} shape={}'.format(d, ','.join(str(n) for n in shape) or '-'))
                batch.append((case, impl))
    if not with_model:
        return
    outs = core.run_driver('C15', lines)
    for (case, impl), ans in zip(batch, outs):
        if ans != impl:
            ctx.disagree(case, impl, ans)


def run_dispatch(ctx, with_model=True):
    """Tie of the dispatch table: instrumented callables of every signature kind record
    whether the wrapper handed them an `out`; `_func_out_type` gives (has_out, out_optional).
    ORACLE: the sampled values are right on every path."""
    from odl.discr import discr_utils as du
    import odl
    space = odl.uniform_discr([0, 0], [2, 1], (4, 2))
    mesh = space.meshgrid
    pts = list(itertools.product(*[[Fr(float(t)) for t in c] for c in space.grid.coord_vectors]))
    exp = [ctok((2 * x - 3 * y + Fr(1, 2), Fr(0))) for x, y in pts]

    def expr(x):
        return 2 * x[0] - 3 * x[1] + 0.5

    def mk(kind, log):
        if kind == 'plain':
            def f(x):
                log.append(False)
                return expr(x)
        elif kind == 'optional':
            def f(x, out=None):
                log.append(out is not None)
                if out is None:
                    return expr(x)
                out[:] = expr(x)
        elif kind == 'kwonly':
            def f(x, *, out=None):
                log.append(out is not None)
                if out is None:
                    return expr(x)
                out[:] = expr(x)
        elif kind == 'required':
            def f(x, out):
                log.append(out is not None)
                out[:] = expr(x)
        elif kind == 'object_required':
            class F(object):
                def __call__(self, x, out):
                    log.append(out is not None)
                    out[:] = expr(x)
            f = F()
        elif kind == 'object_plain':
            class G(object):
                def __call__(self, x):
                    log.append(False)
                    return expr(x)
            f = G()
        return f

    lines, batch = [], []
    for kind in ('plain', 'optional', 'kwonly', 'required', 'object_required', 'object_plain'):
        for out_given in (False, True):
            log = []
            case = dict(kind='dispatch', sig=kind, out=out_given)
            try:
                f = mk(kind, log)
                has_out, optional = du._func_out_type(f)
                sf = du.sampling_function(f, space.domain, out_dtype='float64')
                if out_given:
                    arr = np.full(space.shape, np.nan)
                    du.point_collocation(sf, mesh, out=arr)
                else:
                    arr = du.point_collocation(sf, mesh)
                toks = flat_tokens(arr, 'float64')
                status = 'ok'
            except Exception as e:  # noqa
                status, toks, has_out, optional = 'err:{}:{}'.format(type(e).__name__, str(e)[:100]), None, None, None
            ctx.case(('dispatch', kind, out_given), None)
            ctx.hit('dispatch/{}/{}'.format(kind, 'out' if out_given else 'noout'))
            key = 'sampling dispatch signature={} out_given={}'.format(kind, out_given)
            if status != 'ok':
                ctx.violation(key + ' raised', status, case)
                continue
            if toks != exp:
                ctx.violation(key + ' values differ from the callable at the grid points',
                              'expected {} got {}'.format(exp, toks), case)
            # the signature class as written above (not as classified by the code)
            sig_has, sig_opt = {'plain': (0, 0), 'object_plain': (0, 0), 'optional': (1, 1),
                                'kwonly': (1, 1), 'required': (1, 0), 'object_required': (1, 0)}[kind]
            lines.append('dispatch hasout={} optional={} out={}'.format(sig_has, sig_opt, int(out_given)))
            batch.append((case, log, (int(bool(has_out)), int(bool(optional))), (sig_has, sig_opt)))
    if not with_model or not lines:
        return
    outs = core.run_driver('C15', lines)
    for (case, log, classified, written), ans in zip(batch, outs):
        impl = 'user_out={}'.format(int(bool(log and log[-1]))) if len(log) == 1 else 'calls={}'.format(len(log))
        if not ans.startswith('ok ') or ans.split()[-1] != impl:
            ctx.disagree(case, impl, ans)
        elif classified != written:
            ctx.disagree(case, '_func_out_type -> (has_out, out_optional) = {}'.format(classified),
                         'signature is {}'.format(written))


def run_bounds_check(ctx):
    """bounds_check: points outside the domain are refused unless bounds_check=False, in which
    case the callable's values are returned there as well."""
    from odl.discr.discr_utils import sampling_function
    import odl
    for d in (1, 2):
        dom = odl.IntervalProd([0] * d, [2] * d)
        poly = [((Fr(1, 2), Fr(0)), (0,) * d)] + [((Fr(j + 1), Fr(0)), tuple(int(i == j) for i in range(d)))
                                                  for j in range(d)]
        f = make_callable(dict(ck='oop', d=d, dtype='float64', poly=poly_json(poly)))
        sf = sampling_function(f, dom, out_dtype='float64')
        inside = [tuple(Fr(k, 2) for _ in range(d)) for k in (0, 1, 4)]
        outside = inside + [tuple(Fr(5, 2) for _ in range(d)), tuple(Fr(-1, 4) for _ in range(d))]
        for name, pts, bc, want_ok in (('inside', inside, True, True), ('outside', outside, True, False),
                                       ('outside-unchecked', outside, False, True)):
            x = np.array([[float(t) for t in pt] for pt in pts]).T.reshape(d, len(pts))
            rc = dict(kind='bounds', d=d, name=name)
            key = 'sampling bounds_check d={} points={}'.format(d, name)
            ctx.case(('bounds', d, name), None)
            ctx.hit('sampling/bounds/' + name)
            try:
                r = sf(x, bounds_check=bc)
                got = flat_tokens(r, 'float64')
                if not want_ok:
                    ctx.violation(key + ' :: points outside the domain accepted', str(got)[:200], rc)
                elif got != [ctok(peval(poly, pt)) for pt in pts]:
                    ctx.violation(key + ' :: values differ from the callable', str(got)[:200], rc)
            except ValueError as e:
                if want_ok:
                    ctx.violation(key + ' raised', 'ValueError: ' + str(e)[:200], rc)
            except Exception as e:  # noqa
                ctx.violation(key + ' raised', '{}: {}'.format(type(e).__name__, str(e)[:200]), rc)


def run_tuple_1d_plain(ctx):
    """1d vector-valued function written in terms of `x` (not `x[0]`) with a constant
    component: the ragged result goes through `_broadcast_nested_list`."""
    from odl.discr.discr_utils import sampling_function, point_collocation
    import odl
    space = odl.uniform_discr(0, 2, 4)
    pts = [Fr(float(t)) for t in space.grid.coord_vectors[0]]
    exp = [[ctok((2 * t, Fr(0))) for t in pts], [ctok((Fr(3, 2), Fr(0)))] * 4,
           [ctok((t * t - 1, Fr(0))) for t in pts]]
    for conv in ('mesh', 'array'):
        rc = dict(kind='tuple1d', conv=conv)
        key = 'sampling vector-valued 1d function of plain x returning a tuple :: input=' + conv
        ctx.case(('tuple1d', conv), None)
        ctx.hit('sampling/tuple1d/' + conv)
        try:
            sf = sampling_function(lambda x: (2 * x, 1.5, x * x - 1), space.domain,
                                   out_dtype=(float, (3,)))
            r = point_collocation(sf, space.meshgrid) if conv == 'mesh' else \
                sf(np.array([[float(t) for t in pts]]))
            if np.shape(r) != (3, 4):
                raise AssertionError('result shape {}'.format(np.shape(r)))
            got = [flat_tokens(r[i], 'float64') for i in range(3)]
            if got != exp:
                ctx.violation(key + ' values differ from the callable at the grid points',
                              'expected {} got {}'.format(exp, got)[:400], rc)
        except Exception as e:  # noqa
            ctx.violation(key + ' raised', '{}: {}'.format(type(e).__name__, str(e)[:200]), rc)


def run_vector_kwargs(ctx):
    """array of callables with a keyword parameter, out-of-place and in place"""
    from odl.discr.discr_utils import sampling_function, point_collocation
    import odl
    space = odl.uniform_discr([0, 0], [2, 1], (4, 2))
    pts = list(itertools.product(*[[Fr(float(t)) for t in c] for c in space.grid.coord_vectors]))

    def g(x, out=None, c=0.0):
        if out is None:
            return x[0] * x[1] - c
        out[:] = x[0] * x[1] - c
    funcs = [lambda x, c=0.0: x[0] + c, g]
    cval = Fr(3, 2)
    exp = [[ctok((x + cval, Fr(0))) for x, y in pts], [ctok((x * y - cval, Fr(0))) for x, y in pts]]
    for conv in ('mesh', 'mesh+out'):
        rc = dict(kind='veckw', conv=conv)
        key = 'sampling vector-valued array of callables with keyword parameter :: input=' + conv
        ctx.case(('veckw', conv), None)
        ctx.hit('sampling/veckw/' + conv)
        try:
            sf = sampling_function(funcs, space.domain)
            if conv == 'mesh':
                r = point_collocation(sf, space.meshgrid, c=float(cval))
            else:
                r = np.full((2,) + space.shape, np.nan)
                point_collocation(sf, space.meshgrid, out=r, c=float(cval))
            got = [flat_tokens(r[i], 'float64') for i in range(2)]
            if got != exp:
                ctx.violation(key + ' values differ from the callables at the grid points',
                              'expected {} got {}'.format(exp, got)[:400], rc)
        except Exception as e:  # noqa
            ctx.violation(key + ' raised', '{}: {}'.format(type(e).__name__, str(e)[:200]), rc)


ALIAS_CALLABLES = [
    ('x[k]', lambda x, k: x[k]),
    ('x[k][...]', lambda x, k: x[k][...]),
    ('x[k].reshape', lambda x, k: x[k].reshape(x[k].shape)),
    ('x[k].T.T', lambda x, k: x[k].T.T),
    ('broadcast_to', lambda x, k: np.broadcast_to(x[k], np.shape(x[k]))),
    ('x[k] + 0', lambda x, k: x[k] + 0),        # harmless control: a fresh array
]


def alias_strata():
    """(d, k, shape, shape kind) for every coordinate index k and every set of non-degenerate
    axes containing k (the other axes have length 1); the full set is the generic shape"""
    out = []
    for d in (1, 2, 3):
        for k in range(d):
            others = [j for j in range(d) if j != k]
            for r in range(len(others) + 1):
                for extra in itertools.combinations(others, r):
                    U = set(extra) | {k}
                    shape = tuple((3 + j) if j in U else 1 for j in range(d))
                    kind = ''.join('n' if j in U else '1' for j in range(d))
                    out.append((d, k, shape, kind))
    return out


ALIAS_INPUTS = ['element', 'mesh', 'array-C', 'array-F', 'array-strided']
ALIAS_BRANCHES = ['alias/coord-{}/{}/{}/{}'.format(k, d, kind, inp)
                  for d, k, shape, kind in alias_strata()
                  for inp in ALIAS_INPUTS + (['flat'] if d == 1 else [])]


def run_alias_check(ctx):
    """EXHAUSTIVE aliasing stratum.  A callable that returns a coordinate array itself (or a view
    of it) is sampled on every dimension d = 1..3, for EVERY coordinate index k, on every shape
    in which a set of axes containing k is non-degenerate and the others have length 1, from a
    mesh grid (space.element and the wrapped function), from (d, N) point arrays (C, F, strided)
    and from a flat array in 1d.  Required: the values are the coordinate; the result shares no
    memory with the grid of the space, the mesh arrays or the caller's buffer; and HISTORY:
    mutating the result in place (`e *= 0.5`) and sampling again / re-reading the caller's buffer
    gives unchanged values, mutating the caller's buffer leaves the result unchanged."""
    import odl
    from odl.discr.discr_utils import sampling_function

    def report(cls, key, what, rc):
        limited_violation(ctx, 'alias/{}/{}/k{}'.format(cls, rc.get('input'), rc.get('k')), key, what, rc, limit=1)

    for d, k, shape, kind in alias_strata():
        for inp in ALIAS_INPUTS + (['flat'] if d == 1 else []):
            ctx.hit('alias/coord-{}/{}/{}/{}'.format(k, d, kind, inp))
            for cname, cf in ALIAS_CALLABLES + ([('x', lambda x, k: x)] if d == 1 else []):
                rc = dict(kind='alias', d=d, k=k, shape=list(shape), input=inp, callable=cname)
                key = 'sampling coordinate-returning callable {} d={} k={} shape={} input={} :: '.format(
                    cname, d, k, shape, inp)
                ctx.case(('alias', d, k, kind, inp, cname), None)

                def f(x, cf=cf, k=k):
                    return cf(x, k)
                try:
                    space = odl.uniform_discr([0] * d, [float(n) for n in shape], shape)
                    grid0 = [np.array(c, copy=True) for c in space.grid.coord_vectors]
                    gpts = list(itertools.product(*[[Fr(float(t)) for t in c] for c in grid0]))
                    want = [fs(pt[k]) for pt in gpts]
                    if inp == 'element':
                        e = space.element(f)
                        got = flat_tokens(e.asarray(), 'float64')
                        shared = any(np.shares_memory(e.asarray(), c) for c in space.grid.coord_vectors)
                        e *= 0.5
                        moved = any(not np.array_equal(c, b) for c, b in zip(space.grid.coord_vectors, grid0))
                        again = flat_tokens(space.element(f).asarray(), 'float64')
                        if moved:      # undo: the grid object is shared with equal spaces
                            e /= 0.5
                        if got != want:
                            report('values', key + 'values differ from the coordinate at the grid points',
                                   'expected {} got {}'.format(want[:6], got[:6]), rc)
                        if shared or moved or again != want:
                            report('grid', key + 'element aliases the sampling grid',
                                   'shares memory with space.grid.coord_vectors: {}; `e *= 0.5` moved the grid: '
                                   '{}; sampling again gives {} instead of {}'.format(
                                       shared, moved, again[:6], want[:6]), rc)
                        continue
                    sf = sampling_function(f, space.domain, out_dtype='float64')
                    if inp == 'mesh':
                        mesh = space.meshgrid
                        bufs = list(mesh) + list(space.grid.coord_vectors)
                        owner = bufs
                        r = sf(mesh)
                        reread = lambda: flat_tokens(sf(space.meshgrid), 'float64')  # noqa
                    else:
                        pts = np.array([[float(t) for t in pt] for pt in gpts]).T.reshape(d, len(gpts))
                        if inp == 'flat':
                            x = pts[0].copy()
                        else:
                            x = relayout(pts, inp.split('-')[1])
                        owner = [x if x.base is None else x.base]
                        bufs = [x]
                        r = sf(x)
                        reread = None
                    got = flat_tokens(r, 'float64')
                    if got != want:
                        report('values', key + 'values differ from the coordinate at the points',
                               'expected {} got {}'.format(want[:6], got[:6]), rc)
                    shared = any(np.shares_memory(r, b) for b in owner)
                    snap_bufs = [np.array(b, copy=True) for b in bufs]
                    if r.flags.writeable:
                        r *= 0.5
                        r /= 0.5
                        r *= 0.5            # net effect: halved
                    buf_moved = any(not np.array_equal(b, sb) for b, sb in zip(bufs, snap_bufs))
                    if buf_moved:
                        for b, sb in zip(bufs, snap_bufs):
                            if b.flags.writeable:
                                b[...] = sb
                    hist = None
                    if reread is not None:
                        hist = reread()
                    else:
                        r2 = sf(bufs[0])
                        keep = np.array(r2, copy=True)
                        bufs[0][...] = 0.25          # the caller reuses its point buffer
                        if not np.array_equal(r2, keep):
                            hist = flat_tokens(r2, 'float64')
                        bufs[0][...] = snap_bufs[0]
                    if shared or buf_moved or (hist is not None and hist != want):
                        report('buffer', key + 'result aliases the caller\'s arrays',
                               'shares memory with the input / grid: {}; writing to the result changed the '
                               'input: {}; values after reuse of the buffer / sampling again: {}'.format(
                                   shared, buf_moved, None if hist is None else hist[:6]), rc)
                except Exception as ex:  # noqa
                    report('raised', key + 'raised', '{}: {}'.format(type(ex).__name__, str(ex)[:200]), rc)


VEC_ROUTES = ['decorator', 'decorator-otypes', 'np.vectorize-lambda']
VEC_FIRST = ['none', 'int-points', 'int-single', 'float-single', 'float32-array', 'after']
VEC_BRANCHES = ['vectorize/{}/history-{}'.format(r, f) for r in VEC_ROUTES for f in VEC_FIRST]


def run_vectorize_history(ctx):
    """Non-vectorised (scalar, point-by-point) callables through every vectorisation route the
    library offers — `odl.util.vectorize` without and with `otypes`, and a `numpy.vectorize`
    object behind a lambda — with a HISTORY: the SAME wrapped callable is first called on integer
    points / a single integer point / a single float point / a float32 array (or not at all),
    then sampled on float64 and float32 (resp. complex) spaces from a mesh grid (space.element,
    wrapped function) and from a point array; with `after` the integer call comes last.  Every
    result of every call is compared with the pointwise Python evaluation (exact).  (The output
    type of each scalar function is uniform within one call, so NumPy's documented per-call type
    inference of `np.vectorize` without otypes is not what is being tested.)"""
    import odl
    from odl.discr.discr_utils import sampling_function
    variants = [('follow', (1, 2, -3), False),          # integer coefficients: type follows the input
                ('float', (0.5, 1.5, -0.25), False),
                ('complex', (0.5 + 1j, 1.5j, -0.25), True)]

    def toks(arr):
        vals = []
        for z in np.asarray(arr).ravel(order='C').tolist():
            p = num_pair(z)
            vals.append('nonfinite' if p is None else ctok(p))
        return vals

    for route in VEC_ROUTES:
        for first in VEC_FIRST:
            ctx.hit('vectorize/{}/history-{}'.format(route, first))
            for d in (1, 2):
                for vname, (c0, c1, c2), cplx in variants:
                    for sdt in (('complex128',) if cplx else ('float64', 'float32')):
                        rc = dict(kind='vectorize-history', route=route, first=first, d=d, variant=vname,
                                  dtype=sdt)
                        key = 'sampling vectorize route={} history={} d={} callable={} dtype={} :: '.format(
                            route, first, d, vname, sdt)
                        ctx.case(('vechist', route, first, d, vname, sdt), None)

                        def scalar(x, c0=c0, c1=c1, c2=c2):
                            # plain Python on ONE point
                            if x[0] < 100:
                                return c0 + c1 * x[0] + c2 * x[0] * x[-1]
                            return c0

                        def exact(pt, c0=c0, c1=c1, c2=c2):
                            def fr(c):
                                c = complex(c)
                                return (Fr(c.real), Fr(c.imag))
                            a0, a1, a2 = fr(c0), fr(c1), fr(c2)
                            m1, m2 = pt[0], pt[0] * pt[-1]
                            return (a0[0] + a1[0] * m1 + a2[0] * m2, a0[1] + a1[1] * m1 + a2[1] * m2)
                        try:
                            if route == 'decorator':
                                f = odl.util.vectorize(scalar)
                            elif route == 'decorator-otypes':
                                f = odl.util.vectorize(otypes=[sdt])(scalar)
                            else:
                                vf = np.vectorize(lambda *coords: scalar(np.array(coords)))
                                f = lambda x, vf=vf: vf(*x)   # noqa

                            def check(label, result, points):
                                want = [ctok(exact(pt)) for pt in points]
                                got = toks(result)
                                if got != want:
                                    bad = [i for i, (a, b) in enumerate(zip(got, want)) if a != b]
                                    i = bad[0] if bad else -1
                                    limited_violation(
                                        ctx, 'vechist/{}/{}/{}'.format(route, first, label),
                                        key + '{} values differ from the pointwise evaluation'.format(label),
                                        'at point {} expected {} got {} (result dtype {})'.format(
                                            [str(t) for t in points[i]] if i >= 0 else '?',
                                            want[i] if i >= 0 else len(want), got[i] if i >= 0 else len(got),
                                            np.asarray(result).dtype), rc, limit=2)

                            ipts = [tuple(Fr(v + j) for j in range(d)) for v in (0, 1, 3)]

                            def int_call():
                                if first == 'int-single' :
                                    pt = ipts[1]
                                    x = int(pt[0]) if (d == 1 and route != 'np.vectorize-lambda') else \
                                        [int(t) for t in pt] if route != 'np.vectorize-lambda' else \
                                        np.array([[int(t)] for t in pt])
                                    check('first call (single integer point)', f(x), [pt])
                                else:
                                    x = np.array([[int(t) for t in pt] for pt in ipts]).T.reshape(d, len(ipts))
                                    check('call on an integer point array', f(x), ipts)
                            if first in ('int-points', 'int-single'):
                                int_call()
                            elif first == 'float-single':
                                pt = tuple(Fr(1, 2) + j for j in range(d))
                                x = float(pt[0]) if (d == 1 and route != 'np.vectorize-lambda') else \
                                    [float(t) for t in pt] if route != 'np.vectorize-lambda' else \
                                    np.array([[float(t)] for t in pt])
                                check('first call (single float point)', f(x), [pt])
                            elif first == 'float32-array':
                                fpts = [tuple(Fr(v, 4) + j for j in range(d)) for v in (1, 2, 5)]
                                x = np.array([[float(t) for t in pt] for pt in fpts],
                                             dtype='float32').T.reshape(d, len(fpts))
                                check('first call (float32 point array)', f(x), fpts)
                            # --- sampling on the grid of a space
                            shape = (4,) if d == 1 else (3, 2)
                            space = odl.uniform_discr([0] * d, [float(n) / 2 for n in shape], shape, dtype=sdt)
                            gpts = list(itertools.product(*[[Fr(float(t)) for t in c]
                                                            for c in space.grid.coord_vectors]))
                            e = space.element(f)
                            check('space.element', e.asarray(), gpts)
                            if str(e.asarray().dtype) != sdt:
                                limited_violation(ctx, 'vechist/dtype', key + 'element dtype',
                                                  'dtype {} instead of {}'.format(e.asarray().dtype, sdt), rc)
                            sf = sampling_function(f, space.domain, out_dtype=sdt)
                            check('mesh grid', sf(space.meshgrid), gpts)
                            apts = np.array([[float(t) for t in pt] for pt in gpts]).T.reshape(d, len(gpts))
                            check('point array', sf(apts), gpts)
                            out = np.full(space.shape, np.nan, dtype=sdt)
                            sf(space.meshgrid, out=out)
                            check('mesh grid with out', out, gpts)
                            if first == 'after':
                                int_call()
                                check('space.element again', space.element(f).asarray(), gpts)
                        except Exception as ex:  # noqa
                            limited_violation(ctx, 'vechist/raised/{}/{}'.format(route, first), key + 'raised',
                                              '{}: {}'.format(type(ex).__name__, str(ex)[:200]), rc, limit=2)


def run_single_node_axis(ctx):
    """Axes with a single node: the node is the whole hull, its value must come back there
    (nearest: everywhere along that axis)."""
    from odl.discr import discr_utils as du
    for d, shape in ((1, (1,)), (2, (3, 1)), (2, (1, 3))):
        cv = [np.array([0.5 + k for k in range(n)]) for n in shape]
        f = (np.arange(int(np.prod(shape)), dtype=float) + 1).reshape(shape)
        node = [c[-1] for c in cv]
        exp = fs(float(f[tuple(n - 1 for n in shape)]))
        for api in ('nearest', 'peraxis-nearest', 'linear'):
            rc = dict(kind='single-node', d=d, shape=list(shape), api=api)
            key = 'interp single-node axis shape={} api={} :: '.format(shape, api)
            ctx.case(('single-node', shape, api), None)
            ctx.hit('single-node/' + api)
            try:
                with warnings.catch_warnings():
                    warnings.simplefilter('ignore')
                    itp = du.nearest_interpolator(f, cv) if api == 'nearest' else \
                        du.per_axis_interpolator(f, cv, 'nearest') if api == 'peraxis-nearest' else \
                        du.linear_interpolator(f, cv)
                    r = itp(node[0] if d == 1 else node)
                    beside = [t + 0.25 for t in node]
                    rb = itp(beside[0] if d == 1 else beside)
                tok = value_token(r, 'float64')
                if tok != exp:
                    ctx.violation(key + 'node value not reproduced', 'at the node {} expected {} got {}'.format(
                        node, exp, tok), rc)
                tokb = value_token(rb, 'float64')
                if api != 'linear' and tokb != exp:
                    ctx.violation(key + 'closest-node rule beside the node', 'at {} expected {} got {}'.format(
                        beside, exp, tokb), rc)
                if api == 'linear' and tokb == 'nonfinite':
                    ctx.violation(key + 'non-finite result beside the node', 'at {} got {}'.format(
                        beside, rb), rc)
            except Exception as ex:  # noqa
                ctx.violation(key + 'raised', '{}: {}'.format(type(ex).__name__, str(ex)[:200]), rc)
    # the same through Resampling from a single-cell space
    import odl
    for interp in ('nearest', 'linear'):
        rc = dict(kind='single-node', api='resampling-' + interp)
        key = 'Resampling from a single-cell domain interp={} :: '.format(interp)
        ctx.case(('single-node', 'resampling', interp), None)
        ctx.hit('single-node/resampling-' + interp)
        try:
            with warnings.catch_warnings():
                warnings.simplefilter('ignore')
                dom, ran = odl.uniform_discr(0, 1, 1), odl.uniform_discr(0, 1, 1)
                y = odl.Resampling(dom, ran, interp)(dom.element([3.0])).asarray()
                y2 = odl.Resampling(dom, odl.uniform_discr(0, 1, 2), interp)(dom.element([3.0])).asarray()
            tok = value_token(y[0], 'float64')
            if tok != '3':
                ctx.violation(key + 'node value not reproduced', 'expected 3 got {}'.format(tok), rc)
            toks2 = [value_token(t, 'float64') for t in y2]
            if interp == 'nearest' and toks2 != ['3', '3']:
                ctx.violation(key + 'closest-node rule beside the node', 'expected [3, 3] got {}'.format(toks2), rc)
            if interp == 'linear' and 'nonfinite' in toks2:
                ctx.violation(key + 'non-finite result beside the node', str(y2), rc)
        except Exception as ex:  # noqa
            ctx.violation(key + 'raised', '{}: {}'.format(type(ex).__name__, str(ex)[:200]), rc)


def run_sampling(ctx, with_model=True):
    run_vectorize_history(ctx)
    run_alias_check(ctx)
    run_bounds_check(ctx)
    run_tuple_1d_plain(ctx)
    run_vector_kwargs(ctx)
    for case in samp_configs(ctx):
        run_sampling_case(ctx, case)
    run_vector_valued(ctx)
    flush_sample_tie(ctx, with_model)


# ---------------------------------------------------------------------------
# round 5: strata that reach the remaining functions / branches of the anchored classes

def expect_raises(ctx, key, exc_types, fn, rc):
    """ORACLE for validation branches: a malformed construction / call is rejected with the
    documented exception (and not accepted, and not with an unrelated error)."""
    try:
        fn()
    except exc_types:
        return True
    except Exception as e:  # noqa
        ctx.violation(key + ' :: rejected with an undocumented exception',
                      '{}: {}'.format(type(e).__name__, str(e)[:160]), rc)
        return False
    ctx.violation(key + ' :: malformed input accepted', 'no exception', rc)
    return False


def run_deform_operators(ctx):
    """LinDeformFixedTempl.derivative, LinDeformFixedDisp.adjoint (ORACLE: the documented formulas
    with the textbook interpolant at x +/- v(x); gradient / divergence of the other properties are
    taken from the real operators), validation branches of both constructors."""
    import odl
    from odl.deform import LinDeformFixedTempl, LinDeformFixedDisp, linear_deform
    rng = ctx.rng
    for rep in range(3 if ctx.quick else 12):
        d = 1 + rep % 3
        sch = ''.join(rng.choice('ln') for _ in range(d))
        interp = [SCH_NAME[s] for s in sch]
        dom_spec, _ = gen_space_pair(rng, d, 'float64', False)
        dom_spec['shape'] = [max(n, 2) for n in dom_spec['shape']]
        coords = spec_coords(dom_spec)
        dims = [len(c) for c in coords]
        size = int(np.prod(dims))
        gpts = list(itertools.product(*coords))
        vals = gen_values(rng, size, 'float64', distinct=True)
        disp = [[Fr(rng.choice([0, 1, -1, 2, -2, 3, -3]), 8) for _ in range(size)] for _ in range(d)]
        hfield = [[Fr(rng.randint(-4, 4), 2) for _ in range(size)] for _ in range(d)]
        rc = dict(kind='deform-ops', rep=rep)
        key = 'deform operators d={} sch={} :: '.format(d, sch)
        try:
            dom = make_space(dom_spec)
            x = dom.element(np.array([float(parse_c(t)[0]) for t in vals]).reshape(dims))
            tb = dom.tangent_bundle
            field = tb.element([np.array([float(t) for t in row]).reshape(dims) for row in disp])
            hel = tb.element([np.array([float(t) for t in row]).reshape(dims) for row in hfield])
        except Exception as e:  # noqa
            ctx.violation(key + 'setup raised', '{}: {}'.format(type(e).__name__, str(e)[:120]), rc)
            continue

        def interp_at(flat_vals, sign):
            out = []
            for k, pt in enumerate(gpts):
                moved = tuple(pt[j] + sign * disp[j][k] for j in range(d))
                out.append(ref_interp(coords, sch, flat_vals, dims, moved))
            return out
        # --- derivative: sum_i linear_deform(grad_i template, v) * h_i
        ctx.hit('deform-ops/derivative')
        ctx.case(('deform-derivative', d, sch), None)
        try:
            got = LinDeformFixedTempl(x, interp=interp).derivative(field)(hel).asarray().ravel()
            grad = odl.Gradient(domain=dom, method='central', pad_mode='symmetric')(x)
            exp = [Fr(0)] * size
            ok = [True] * size
            for i in range(d):
                gv = [(Fr(float(t)), Fr(0)) for t in grad[i].asarray().ravel()]
                for k, r in enumerate(interp_at(gv, 1)):
                    if r is None:
                        ok[k] = False
                    else:
                        exp[k] += r[0] * hfield[i][k]
            scale = max([abs(e) for e in exp] + [Fr(1)])
            for k in range(size):
                if ok[k] and abs(Fr(float(got[k])) - exp[k]) > Fr(1, 10 ** 9) * scale:
                    ctx.violation(key + 'LinDeformFixedTempl.derivative(v)(h) is not sum_i (grad_i I)(x + v(x)) h_i',
                                  'entry {} expected {} got {}'.format(k, float(exp[k]), float(got[k])), rc)
                    break
        except Exception as e:  # noqa
            ctx.violation(key + 'LinDeformFixedTempl.derivative raised',
                          '{}: {}'.format(type(e).__name__, str(e)[:160]), rc)
        # --- adjoint: exp(-div v) * I(x - v(x))
        ctx.hit('deform-ops/adjoint')
        ctx.case(('deform-adjoint', d, sch), None)
        try:
            got = LinDeformFixedDisp(field, interp=interp).adjoint(x).asarray().ravel()
            div = odl.Divergence(domain=tb, method='forward', pad_mode='symmetric')(field).asarray().ravel()
            fv = [parse_c(t) for t in vals]
            inv = interp_at(fv, -1)
            for k in range(size):
                if inv[k] is None:
                    continue
                e = float(np.exp(-div[k])) * float(inv[k][0])
                if abs(float(got[k]) - e) > 1e-9 * max(1.0, abs(e)):
                    ctx.violation(key + 'LinDeformFixedDisp.adjoint(x) is not exp(-div v) * I(x - v(x))',
                                  'entry {} expected {} got {}'.format(k, e, float(got[k])), rc)
                    break
        except Exception as e:  # noqa
            ctx.violation(key + 'LinDeformFixedDisp.adjoint raised',
                          '{}: {}'.format(type(e).__name__, str(e)[:160]), rc)
    # --- complex template: derivative documented as not implemented
    sp = odl.uniform_discr(0, 1, 4)
    spc = odl.uniform_discr(0, 1, 4, dtype=complex)
    sp5 = odl.uniform_discr(0, 1, 5)
    tb = sp.tangent_bundle
    rc = dict(kind='deform-ops')
    ctx.hit('deform-ops/validation')
    checks = [
        ('LinDeformFixedTempl complex template derivative', (NotImplementedError,),
         lambda: LinDeformFixedTempl(spc.element([1, 2j, 3, 4])).derivative(tb.zero())),
        ('LinDeformFixedTempl(template=list)', (TypeError,), lambda: LinDeformFixedTempl([0, 1, 0, 0])),
        ('LinDeformFixedTempl(domain=DiscretizedSpace)', (TypeError,),
         lambda: LinDeformFixedTempl(sp.one(), domain=sp)),
        ('LinDeformFixedTempl(domain=non-power product space)', (TypeError,),
         lambda: LinDeformFixedTempl(sp.one(), domain=odl.ProductSpace(sp, sp5))),
        ('LinDeformFixedTempl(domain=power of rn)', (TypeError,),
         lambda: LinDeformFixedTempl(sp.one(), domain=odl.ProductSpace(odl.rn(4), 1))),
        ('LinDeformFixedTempl(domain with another partition)', (ValueError,),
         lambda: LinDeformFixedTempl(sp.one(), domain=sp5.tangent_bundle)),
        ('LinDeformFixedDisp(displacement=list)', (TypeError,), lambda: LinDeformFixedDisp([[0, 0, 0, 0]])),
        ('LinDeformFixedDisp(displacement in a non-power space)', (ValueError,),
         lambda: LinDeformFixedDisp(odl.ProductSpace(sp, sp5).zero())),
        ('LinDeformFixedDisp(displacement in a power of rn)', (ValueError,),
         lambda: LinDeformFixedDisp(odl.ProductSpace(odl.rn(4), 1).zero())),
        ('LinDeformFixedDisp(templ_space=rn)', (TypeError,),
         lambda: LinDeformFixedDisp(tb.zero(), templ_space=odl.rn(4))),
        ('LinDeformFixedDisp(templ_space with another partition)', (ValueError,),
         lambda: LinDeformFixedDisp(tb.zero(), templ_space=sp5)),
    ]
    for name, exc, fn in checks:
        ctx.case(('deform-validation', name), None)
        expect_raises(ctx, 'deform operators validation ' + name, exc, fn, rc)


def run_misc_branches(ctx):
    """validation / option branches of _Interpolator, _func_out_type, is_valid_input_meshgrid,
    OptionalArgDecorator, DiscretizedSpace.__init__ / element, and the accessors of a sampled
    element (ORACLE: the callable's values at the grid points, seen through every accessor)."""
    import odl
    from odl.discr import discr_utils as du
    from odl.util import vectorization as vec
    rng = ctx.rng
    rc = dict(kind='misc-branches')
    cv = [np.array([0.0, 1.0, 2.0])]
    ctx.hit('misc/interpolator-validation')
    checks = [
        ('_Interpolator(input_type=unknown)', (ValueError,), lambda: du._Interpolator(cv, [1.0, 2.0, 3.0], 'grid')),
        ('_Interpolator(2 coordinate vectors, 1-d values)', (ValueError,),
         lambda: du._Interpolator(cv + cv, [1.0, 2.0, 3.0], 'array')),
        ('_Interpolator(2-d coordinate vector)', (ValueError,),
         lambda: du._Interpolator([np.zeros((3, 1))], [1.0, 2.0, 3.0], 'array')),
        ('_Interpolator(3 nodes, 2 values)', (ValueError,), lambda: du._Interpolator(cv, [1.0, 2.0], 'array')),
        ('linear_interpolator(3 nodes, 2 values)', (ValueError,), lambda: du.linear_interpolator([1.0, 2.0], cv)(0.5)),
        ('nearest_interpolator(2 coordinate vectors, 1-d values)', (ValueError,),
         lambda: du.nearest_interpolator([1.0, 2.0, 3.0], cv + cv)([0.5, 0.5])),
        ('_Interpolator._evaluate (abstract)', (NotImplementedError,),
         lambda: du._Interpolator(cv, [1.0, 2.0, 3.0], 'array')._evaluate(None, None)),
        ('_func_out_type(np.add)', (ValueError,), lambda: du._func_out_type(np.add)),
        ('_func_out_type(np.modf)', (ValueError,), lambda: du._func_out_type(np.modf)),
        ('_func_out_type(3)', (TypeError,), lambda: du._func_out_type(3)),
        ('sampling_function(np.add)', (ValueError,),
         lambda: du.sampling_function(np.add, odl.IntervalProd(0, 1))),
    ]
    for name, exc, fn in checks:
        ctx.case(('misc-validation', name), None)
        expect_raises(ctx, 'validation ' + name, exc, fn, rc)
    # is_valid_input_meshgrid: no ndim / not broadcastable -> not a mesh grid
    ctx.hit('misc/meshgrid-test')
    ctx.case(('misc-meshgrid',), None)
    bad = (np.zeros((2, 1)), np.zeros((1, 3, 1)), np.zeros(5))
    if vec.is_valid_input_meshgrid((np.zeros(3),), None) is not False or \
            vec.is_valid_input_meshgrid((np.zeros((2, 1)), np.zeros((3, 4))), 2) is not False or \
            vec.is_valid_input_meshgrid(tuple(np.meshgrid([0., 1.], [0., 1., 2.], indexing='ij', sparse=True)), 2) \
            is not True:
        ctx.violation('is_valid_input_meshgrid :: wrong classification of a tuple input', 'see harness', rc)
    sf = du.sampling_function(lambda x: x[0] + x[1], odl.IntervalProd([0, 0], [4, 4]))
    expect_raises(ctx, 'sampling_function call with a non-broadcastable tuple', (TypeError, ValueError),
                  lambda: sf((np.zeros((2, 1)), np.zeros((3, 4)))), rc)
    del bad
    # OptionalArgDecorator._wrapper: the default wrapper hands the function back
    ctx.hit('misc/optional-arg-decorator')
    ctx.case(('misc-decorator',), None)
    f = lambda x: 2 * x[0]  # noqa
    try:
        g = vec.OptionalArgDecorator._wrapper(f)
        el = odl.uniform_discr(0, 2, 4).element(g)
        if g is not f or flat_tokens(el.asarray(), 'float64') != ['1/2', '3/2', '5/2', '7/2']:
            ctx.violation('OptionalArgDecorator._wrapper :: default wrapper changes the callable',
                          str(flat_tokens(el.asarray(), 'float64')), rc)
    except Exception as e:  # noqa
        ctx.violation('OptionalArgDecorator._wrapper :: raised', '{}: {}'.format(type(e).__name__, str(e)[:120]), rc)
    # DiscretizedSpace.__init__ validation and option branches
    ctx.hit('misc/space-init')
    part = odl.uniform_partition(0, 1, 4)
    part4 = odl.uniform_partition([0] * 4, [1] * 4, [2] * 4)
    for name, exc, fn in [
            ('DiscretizedSpace(partition=grid)', (TypeError,),
             lambda: odl.DiscretizedSpace(part.grid, odl.rn(4))),
            ('DiscretizedSpace(tspace=list)', (TypeError,), lambda: odl.DiscretizedSpace(part, [1, 2, 3, 4])),
            ('DiscretizedSpace(shape mismatch)', (ValueError,), lambda: odl.DiscretizedSpace(part, odl.rn(5))),
            ('DiscretizedSpace(unknown keyword)', (ValueError,),
             lambda: odl.DiscretizedSpace(part, odl.rn(4), colour='red'))]:
        ctx.case(('misc-validation', name), None)
        expect_raises(ctx, 'validation ' + name, exc, fn, rc)
    try:
        s1 = odl.DiscretizedSpace(part, odl.rn(4), axis_labels=['t'])
        s4 = odl.DiscretizedSpace(part4, odl.rn((2,) * 4))
        if s1.axis_labels != ('t',) or s4.axis_labels != ('$x_0$', '$x_1$', '$x_2$', '$x_3$'):
            ctx.violation('DiscretizedSpace axis_labels :: option not honoured', str((s1.axis_labels, s4.axis_labels)), rc)
        el4 = s4.element(lambda x: x[0] + 2 * x[3])
        if flat_tokens(el4.asarray(), 'float64')[:3] != ['3/4', '7/4', '3/4']:
            ctx.violation('sampling on a 4-d space :: values differ from the callable',
                          str(flat_tokens(el4.asarray(), 'float64')[:4]), rc)
    except Exception as e:  # noqa
        ctx.violation('DiscretizedSpace axis_labels / 4-d sampling :: raised',
                      '{}: {}'.format(type(e).__name__, str(e)[:120]), rc)
    # a sampled complex element seen through its accessors
    for rep in range(2 if ctx.quick else 6):
        d = 1 + rep % 2
        shp = [rng.choice([2, 3, 4]) for _ in range(d)]
        spec = dict(kind='uniform', min=['0'] * d, max=[frs(Fr(n, 2)) for n in shp], shape=shp, dtype='complex128')
        poly = gen_poly(rng, d, list(range(d)), True)
        pts = list(itertools.product(*spec_coords(spec)))
        exp = [peval(poly, pt) for pt in pts]
        key = 'sampled element accessors d={} :: '.format(d)
        ctx.hit('misc/element-accessors')
        ctx.case(('misc-accessors', d, tuple(shp)), None)
        try:
            space = make_space(spec)
            el = space.element(make_callable(dict(ck='oop', d=d, dtype='complex128', poly=poly_json(poly))))
            k = rng.randrange(len(pts))
            idx = tuple(int(i) for i in np.unravel_index(k, shp))
            el_r = el.copy(); el_r.real = el.imag
            el_i = el.copy(); el_i.imag = el.real
            same = space.element(el)
            wrapped = space.element(el.tensor)
            empty = space.element()
            set_el = space.element()
            set_el[:] = el
            set_re = space.element()
            set_re[:] = el.real
            views = {
                'setitem(element)': (set_el.asarray(), exp),
                'setitem(real element)': (set_re.asarray(), [(a, Fr(0)) for a, b in exp]),
                'asarray': (el.asarray(), exp),
                'real': (el.real.asarray(), [(a, Fr(0)) for a, b in exp]),
                'imag': (el.imag.asarray(), [(b, Fr(0)) for a, b in exp]),
                'conj': (el.conj().asarray(), [(a, -b) for a, b in exp]),
                'conj(out)': (el.conj(out=space.element()).asarray(), [(a, -b) for a, b in exp]),
                'copy': (el.copy().asarray(), exp),
                'astype(complex64)': (el.astype('complex64').asarray(), exp),
                'data': (np.asarray(el.data), exp),
                'getitem': (np.asarray(el[idx]), [exp[k]]),
                'real setter': (el_r.asarray(), [(b, b) for a, b in exp]),
                'imag setter': (el_i.asarray(), [(a, a) for a, b in exp]),
                'element(element)': (same.asarray(), exp),
                'element(tensor)': (wrapped.asarray(), exp),
            }
            for name, (arr, e) in sorted(views.items()):
                got = flat_tokens(arr, 'complex128')
                if got != [ctok(z) for z in e]:
                    ctx.violation(key + '{} differs from the callable at the grid points'.format(name),
                                  'expected {} got {}'.format([ctok(z) for z in e], got)[:300], rc)
            facts = [('dtype', el.dtype == np.dtype('complex128')), ('size', el.size == len(pts)),
                     ('len', len(el) == shp[0]), ('eq copy', el == el.copy()),
                     ('ne conj', (el != el.conj()) or all(b == 0 for a, b in exp)),
                     ('element(element) is the same object', same is el),
                     ('copy owns its memory', not np.shares_memory(el.copy().asarray(), el.asarray())),
                     ('element() has the space shape', empty.shape == tuple(shp)),
                     ('cell_sides', [Fr(float(t)) for t in el.cell_sides] == [Fr(1, 2)] * d),
                     ('cell_volume', Fr(float(el.cell_volume)) == Fr(1, 2 ** d)),
                     ('space.cell_sides', [Fr(float(t)) for t in space.cell_sides] == [Fr(1, 2)] * d),
                     ('space.cell_volume', Fr(float(space.cell_volume)) == Fr(1, 2 ** d)),
                     ('min_pt', [Fr(float(t)) for t in space.min_pt] == [Fr(0)] * d),
                     ('max_pt', [Fr(float(t)) for t in space.max_pt] == [Fr(n, 2) for n in shp]),
                     ('is_uniform', space.is_uniform and all(space.is_uniform_byaxis))]
            for name, okf in facts:
                if not okf:
                    ctx.violation(key + name + ' wrong for the sampled element', 'see harness', rc)
        except Exception as e:  # noqa
            ctx.violation(key + 'raised', '{}: {}'.format(type(e).__name__, str(e)[:160]), rc)


# ---------------------------------------------------------------------------

MODEL_BRANCHES = ['axis/{}/{}'.format(s_, b) for s_ in 'ln' for b in ('lo', 'hi', 'node', 'tie', 'in<', 'in>')] + \
    ['conv/{}/{}'.format(a, c) for a in ('nearest', 'linear', 'peraxis') for c in ('point', 'array', 'mesh')] + \
    ['conv/resampling/mesh', 'conv/deform/array', 'mesh/one-point-first-axis', 'nonnumeric-linear/type-error',
     'ops/single-node-axis'] + \
    ['dtype/' + vk for vk in sorted(set(v for _, v in VKINDS))] + \
    ['dispatch/{}/{}'.format(k, o) for k in ('plain', 'optional', 'required') for o in ('out', 'noout')] + \
    ['retform/grid/' + f for f in ('bcast-full', 'bcast-partial', 'const', 'lead1d')] + \
    ['sample-tie/{}/{}'.format(k, c) for k in ('oopOnly', 'dual', 'ipOnly')
     for c in ('element', 'mesh', 'mesh+out', 'array', 'array+out', 'array-flat', 'array-flat+out', 'point')] + \
    ['input/accepted', 'input/rejected'] + \
    ['e2e/grid/' + b for b in ('n=1', 'n=2', 'n>2', 'bdry-tt', 'bdry-tf', 'bdry-ft', 'bdry-ff', 'general')] + \
    ['e2e/resample/' + b for b in ('dom-uniform', 'dom-nonuniform', 'axis-same', 'axis-coarsen', 'axis-refine',
                                   'all-inside-hull', 'point-outside-hull')] + \
    ['e2e/deform/' + b for b in ('zero-disp', 'moved', 'all-inside-hull', 'point-outside-hull')] + \
    ['conv/resampling/mesh+inverse', 'conv/resampling/mesh+adjoint', 'conv/deform/array+dispinverse',
     'conv/deform/array+templspace', 'conv/deform/array+domain', 'conv/deform/array+fixedtempl+out',
     'deform-ops/derivative', 'deform-ops/adjoint', 'deform-ops/validation', 'misc/interpolator-validation',
     'misc/meshgrid-test', 'misc/optional-arg-decorator', 'misc/space-init', 'misc/element-accessors',
     'sampling/vector/tuple-mesh+out', 'sampling/vector/tuple-array+out'] + \
    ['e2e/theorem/' + b for b in ('resampling_same_grid_identity', 'resampling_affine_exact', 'resampling_nearest_refine', 'resampling_nearest_refine_inverse', 'roundtrip-nondyadic',
                                  'deform_zero_identity', 'deform_affine_exact', 'deform_onto_nodes')]


LAYOUT_BRANCHES = ['layout/{}/{}'.format(e, l) for e in
                   ('interp-values', 'interp-points', 'interp-out', 'resampling-x', 'resampling-out',
                    'deform-x', 'deform-disp', 'deform-out', 'sampling-points', 'sampling-out')
                   for l in ('F', 'strided')]
EXPECTED_BRANCHES = MODEL_BRANCHES + LAYOUT_BRANCHES + ALIAS_BRANCHES + VEC_BRANCHES


def regenerate(ctx):
    changed = extract_interp.regenerate()
    # where each artefact came from: 'source' (AST, possibly after sound normalisations) or
    # 'live (...)' (behavioural probe of the class of the tree under test, equal to the model)
    ctx.extra['extraction_source'] = dict(extract_interp.LAST_INFO)
    for k, v in sorted(extract_interp.LAST_INFO.items()):
        if v.startswith('live'):
            print('C15 extraction: {} obtained behaviourally: {}'.format(k, v)[:600])
    return [('extract(discr_utils edge/weight helpers, nearest rule, _find_indices -> '
             'Gen/InterpEdges.lean)', True,
             ('regenerated' if changed else 'unchanged') + '; ' +
             ', '.join('{}={}'.format(k, v.split(' ')[0]) for k, v in sorted(extract_interp.LAST_INFO.items())))]


def run(ctx):
    run_interp(ctx, interp_configs(ctx))
    run_ops(ctx, op_configs(ctx))
    run_grid_general(ctx)
    run_deform_operators(ctx)
    run_misc_branches(ctx)
    run_roundtrip_nondyadic(ctx)
    run_dtype_table(ctx)
    run_dispatch(ctx)
    run_input_classes(ctx)
    run_single_node_axis(ctx)
    run_sampling(ctx)
    unhit = [b for b in EXPECTED_BRANCHES if not ctx.branches.get(b)]
    ctx.extra['unhit_model_branches'] = unhit
    if unhit:
        ctx.notes.append('model branches not exercised in this run: {}'.format(unhit))


def search(ctx, broken):
    """An obligation / the correspondence broke without an oracle failure: look harder on the
    real code with the oracle (thorough generation, every point evaluated singly as well)."""
    saved = ctx.tier
    ctx.tier = 'thorough'
    try:
        for case in interp_configs(ctx):
            case['all_points'] = True
            results, _, _ = eval_conventions(case)
            check_interp_case(ctx, case, results, {})
            affine_check(ctx, case)
        run_ops(ctx, op_configs(ctx), with_model=False)
        run_grid_general(ctx, with_model=False)
        run_deform_operators(ctx)
        run_misc_branches(ctx)
        run_roundtrip_nondyadic(ctx)
        run_dtype_table(ctx, with_model=False)
        run_dispatch(ctx, with_model=False)
        run_input_classes(ctx, with_model=False)
        run_single_node_axis(ctx)
        run_sampling(ctx, with_model=False)
    finally:
        ctx.tier = saved


def replay(ctx, case):
    before = len(ctx.violations)
    kind = case.get('kind')
    c = dict(case)
    c.pop('conv', None)
    if kind == 'interp' and case.get('api') in ('resampling', 'deform'):
        run_ops(ctx, [c], with_model=False)
    elif kind == 'interp':
        c['all_points'] = True
        was_affine = c.pop('affine', None)
        results, _, _ = eval_conventions(c)
        check_interp_case(ctx, c, results, {})
        if not was_affine:
            affine_check(ctx, c)
    elif kind == 'sampling':
        run_sampling_case(ctx, c)
    elif kind == 'grid-general':
        run_grid_general(ctx, with_model=False)
    elif kind == 'deform-ops':
        run_deform_operators(ctx)
    elif kind == 'misc-branches':
        run_misc_branches(ctx)
    elif kind == 'roundtrip-nondyadic':
        run_roundtrip_nondyadic(ctx)
    elif kind == 'dtype':
        run_dtype_table(ctx, with_model=False)
    elif kind == 'vector':
        run_vector_valued(ctx)
    elif kind == 'bounds':
        run_bounds_check(ctx)
    elif kind == 'tuple1d':
        run_tuple_1d_plain(ctx)
    elif kind == 'veckw':
        run_vector_kwargs(ctx)
    elif kind == 'alias':
        run_alias_check(ctx)
    elif kind == 'vectorize-history':
        run_vectorize_history(ctx)
    elif kind == 'single-node':
        run_single_node_axis(ctx)
    elif kind == 'dispatch':
        run_dispatch(ctx, with_model=False)
    elif kind == 'inputclass':
        run_input_classes(ctx, with_model=False)
    if len(ctx.violations) > before:
        v = ctx.violations[before]
        return '{} :: {}'.format(v['key'], v['what'])
    return None
