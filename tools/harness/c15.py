"""C15 — sampling and interpolation.

Tie to /repo (correspondence, no translator):
  the real `nearest_interpolator`, `linear_interpolator`, `per_axis_interpolator`,
  `Resampling` and `linear_deform` are run on generated grids / values / points in every
  calling convention and compared EXACTLY (dyadic inputs) or within the tolerance of
  DESIGN section 4 (decimal grids) with the Lean execution of `Model/Interp.lean`
  (`Drivers/C15.lean`).  The sampling wrapper is compared with the dispatch model.
Oracle (independent of the model, on the real code):
  * textbook reference with exact Fractions: nearest = closest node, right one on ties,
    clamped outside; linear = multilinear blend of the surrounding nodes, with one ghost
    node of value 0 one cell outside (the documented zero extension); mixed per axis;
  * node values reproduced exactly; affine data reproduced exactly inside the hull;
  * single point / point array / mesh grid / out= give identical entries;
  * `space.element(callable)` and `sampling_function(...)` equal the callable at the grid
    points (exact rational evaluation of the polynomial) in every calling convention.
"""
import bisect
import itertools
import random
import warnings
from fractions import Fraction as Fr

import numpy as np

from vf import core
from vf.core import fs

RULE = ('interpolation: api(nearest/linear/per-axis) x dimension 1-3 x per-axis scheme tuple x '
        'per-axis coordinate kind (uniform / power-of-two non-uniform / dyadic non-uniform / '
        'decimal) x value dtype x calling convention (point/array/mesh, out given or not); '
        'points per axis drawn from nodes, exact midpoints, cell interior, one cell outside '
        '(low/high), far outside. sampling: callable kind x dimension x dtype x input '
        'convention. A case is non-trivial when the expected output is not constant; distinct = '
        'distinct such signatures together with the set of point categories hit.')
TRUSTED = ['np.searchsorted(side=left) on an ascending vector = number of nodes < p; NumPy '
           'advanced indexing/broadcasting of the per-axis index arrays (modelled as position-wise '
           'resp. cartesian combination); np.vectorize, np.broadcast_to',
           'python reference oracle in tools/harness/c15.py (exact Fractions)']
ASSUMPTIONS = ['floating-point rounding is outside the model: on the exact stream all inputs are '
               'few-bit dyadic rationals with points placed at dyadic fractions of a cell, so every '
               'operation on the path is exact and outputs are compared exactly; on the decimal '
               'stream outputs agree within 1e-9*scale+1e-12 (float64) / 1e-4 relative (float32) '
               'and no point is placed near a branch point except exactly on it',
               'coordinate vectors strictly increasing with at least two nodes per axis (a '
               'single-node axis divides by zero in _find_indices: outside the property)',
               'the cast of the evaluation points to the value dtype in _find_indices is the '
               'identity on real points for float/complex/int/narrow-string values',
               'NaN/inf values and points are outside the model']

SCH_NAME = {'n': 'nearest', 'l': 'linear'}
INSIDE_T = [Fr(1, 8), Fr(1, 4), Fr(3, 8), Fr(5, 8), Fr(3, 4), Fr(7, 8)]
OUT1_T = [Fr(1, 8), Fr(1, 4), Fr(1, 2), Fr(3, 4), Fr(1)]
FAR_T = [Fr(5, 4), Fr(3, 2), Fr(2), Fr(3)]


# ---------------------------------------------------------------------------
# wire helpers

def ctok(z):
    """canonical token of a real/complex number given as (re, im) Fractions"""
    re, im = z
    return fs(re) if im == 0 else fs(re) + ':' + fs(im)


def parse_c(tok):
    if ':' in tok:
        a, b = tok.split(':')
        return (core.pfrac(a), core.pfrac(b))
    return (core.pfrac(tok), Fr(0))


def num_pair(z):
    """exact (re, im) of a numpy / python number; None if not finite"""
    if isinstance(z, (complex, np.complexfloating)):
        z = complex(z)
        if z != z or abs(z) == float('inf'):
            return None
        return (Fr(z.real), Fr(z.imag))
    if isinstance(z, (float, np.floating)):
        z = float(z)
        if z != z or abs(z) == float('inf'):
            return None
        return (Fr(z), Fr(0))
    if isinstance(z, (int, np.integer, bool, np.bool_)):
        return (Fr(int(z)), Fr(0))
    raise TypeError(type(z))


def frs(x):
    return str(x)


def pfr(s):
    return Fr(s)


# ---------------------------------------------------------------------------
# generators (everything from ctx.rng; cases are JSON-able dicts)

def gen_coords(rng, n, kind):
    start = Fr(rng.randint(-8, 8), 4)
    if kind == 'uniform':
        hs = [Fr(rng.choice([1, 2, 4, 8]), 4)] * (n - 1)
    elif kind == 'pow2':
        while True:
            hs = [Fr(rng.choice([1, 2, 4, 8]), 4) for _ in range(n - 1)]
            if n <= 2 or len(set(hs)) > 1:
                break
    elif kind == 'dyadic':
        while True:
            hs = [Fr(rng.choice([1, 3, 5, 6, 7, 10, 12]), 8) for _ in range(n - 1)]
            if n <= 2 or len(set(hs)) > 1:
                break
    elif kind == 'decimal':
        # what uniform_partition produces for "round" decimal domains; floats, not dyadic
        h = rng.choice([0.1, 0.2, 0.3, 0.4, 0.7])
        s = rng.choice([0.0, 0.05, -0.3, 0.1])
        return [Fr(float(s + (k + 0.5) * h)) for k in range(n)]
    else:
        raise KeyError(kind)
    c = [start]
    for h in hs:
        c.append(c[-1] + h)
    return c


def gen_axis_points(rng, c, exact, count, want=None):
    """points on one axis with their categories"""
    n = len(c)
    h0, hl = c[1] - c[0], c[-1] - c[-2]
    pts = []
    cats = ['node', 'mid', 'in', 'lo1', 'hi1', 'lofar', 'hifar', 'node', 'in', 'mid']
    for j in range(count):
        cat = want[j] if want and j < len(want) else rng.choice(cats)
        if cat == 'mid' and not exact:
            cat = 'in'
        if cat == 'node':
            k = rng.choice([0, n - 1, rng.randrange(n), rng.randrange(n)])
            p = c[k]
        elif cat == 'mid':
            i = rng.randrange(n - 1)
            p = (c[i] + c[i + 1]) / 2
        elif cat == 'in':
            i = rng.choice([0, n - 2, rng.randrange(n - 1)])
            t = rng.choice(INSIDE_T if exact else [Fr(1, 4), Fr(3, 4), Fr(1, 8), Fr(7, 8)])
            p = c[i] + (c[i + 1] - c[i]) * t
        elif cat == 'lo1':
            p = c[0] - h0 * rng.choice(OUT1_T if exact else [Fr(1, 4), Fr(3, 4)])
        elif cat == 'hi1':
            p = c[-1] + hl * rng.choice(OUT1_T if exact else [Fr(1, 4), Fr(3, 4)])
        elif cat == 'lofar':
            p = c[0] - h0 * rng.choice(FAR_T)
        elif cat == 'hifar':
            p = c[-1] + hl * rng.choice(FAR_T)
        else:
            raise KeyError(cat)
        if exact:
            assert Fr(float(p)) == p
        else:
            if cat != 'node':
                p = Fr(float(p))
        pts.append((p, cat))
    return pts


def gen_values(rng, size, dtype, distinct):
    """flat list of tokens + python values"""
    if dtype.startswith('U'):
        width = int(dtype[1:])
        alphabet = 'abcdefghijklmnopqrstuvwxyz'
        seen, vals = set(), []
        while len(vals) < size:
            s = ''.join(rng.choice(alphabet) for _ in range(rng.randint(1, min(width, 3))))
            if s not in seen:
                seen.add(s)
                vals.append(s)
        return vals
    if dtype.startswith('int'):
        ks = rng.sample(range(-60, 61), size) if distinct else [rng.randint(-9, 9) for _ in range(size)]
        return [str(k) for k in ks]
    if distinct:
        ks = rng.sample(range(-64, 65), size)
    else:
        ks = [rng.randint(-40, 40) for _ in range(size)]
    if dtype.startswith('complex'):
        ks2 = [rng.randint(-40, 40) for _ in range(size)]
        return [ctok((Fr(k, 8), Fr(k2, 8))) for k, k2 in zip(ks, ks2)]
    return [ctok((Fr(k, 8), Fr(0))) for k in ks]


def values_array(case):
    dims = tuple(len(c) for c in case['coords'])
    dt = case['dtype']
    toks = case['vals']
    if dt.startswith('U'):
        return np.array(toks, dtype=dt).reshape(dims)
    if dt.startswith('int'):
        return np.array([int(t) for t in toks], dtype=dt).reshape(dims)
    pairs = [parse_c(t) for t in toks]
    if dt.startswith('complex'):
        arr = np.array([complex(float(a), float(b)) for a, b in pairs], dtype=dt)
    else:
        arr = np.array([float(a) for a, _ in pairs], dtype=dt)
    return arr.reshape(dims)


def value_token(z, dtype):
    if dtype.startswith('U'):
        return str(z)
    if dtype.startswith('int'):
        return str(int(z))
    p = num_pair(z)
    return 'nonfinite' if p is None else ctok(p)


def interp_configs(ctx):
    """Generate interpolator configurations (JSON-able)."""
    rng = ctx.rng
    quick = ctx.quick
    cfgs = []
    sch_all = {d: [''.join(t) for t in itertools.product('ln', repeat=d)] for d in (1, 2, 3)}
    kinds = ['uniform', 'pow2', 'dyadic', 'decimal']
    num_dt = ['float64', 'float32', 'complex128', 'complex64']
    near_dt = num_dt + ['int64', 'int32', 'U1', 'U3']
    reps = 1 if quick else 4
    for rep in range(reps):
        for d in (1, 2, 3):
            # per-axis interpolator: every scheme combination x a rotating coordinate kind / dtype
            for si, sch in enumerate(sch_all[d]):
                for kk in range(len(kinds) if (d < 3 or not quick) else 2):
                    ck = [kinds[(kk + si + j + rep) % len(kinds)] for j in range(d)]
                    if 'decimal' in ck:
                        ck = ['decimal' if rng.random() < 0.7 else 'uniform' for _ in range(d)]
                        if 'decimal' not in ck:
                            ck[0] = 'decimal'
                    dt = num_dt[(kk + si + rep) % len(num_dt)]
                    cfgs.append(dict(api='peraxis', sch=sch, ckinds=ck, dtype=dt))
            # linear_interpolator / nearest_interpolator
            for kk, k in enumerate(kinds):
                for dt in (num_dt if not quick else [num_dt[(kk + d + rep) % 4], num_dt[(kk + d + rep + 2) % 4]]):
                    ck = [k if j == 0 else rng.choice(kinds[:3] if k != 'decimal' else kinds) for j in range(d)]
                    cfgs.append(dict(api='linear', sch='l' * d, ckinds=ck, dtype=dt))
                for dt in (near_dt if not quick else rng.sample(near_dt, 3)):
                    ck = [k if j == 0 else rng.choice(kinds[:3] if k != 'decimal' else kinds) for j in range(d)]
                    cfgs.append(dict(api='nearest', sch='n' * d, ckinds=ck, dtype=dt))
    out = []
    for cfg in cfgs:
        d = len(cfg['sch'])
        exact = 'decimal' not in cfg['ckinds']
        maxn = {1: 7, 2: 5, 3: 4}[d]
        coords = []
        for k in cfg['ckinds']:
            n = rng.choice([2, 2, 3, 4, maxn]) if d > 1 else rng.choice([2, 3, 4, 5, maxn])
            coords.append(gen_coords(rng, n, k))
        size = 1
        for c in coords:
            size *= len(c)
        npts = {1: 9, 2: 5, 3: 3}[d]
        pts = []
        for j, c in enumerate(coords):
            # first config points: make sure ties and both outsides are present regularly
            want = None
            r = rng.random()
            if r < 0.25:
                want = ['mid', 'node', 'hi1', 'lo1']
            elif r < 0.4:
                want = ['node'] * npts
            elif r < 0.5:
                want = ['in'] * npts
            pl = gen_axis_points(rng, c, exact, npts, want)
            rng.shuffle(pl)
            pts.append(pl)
        case = dict(kind='interp', api=cfg['api'], sch=cfg['sch'], ckinds=cfg['ckinds'],
                    dtype=cfg['dtype'], exact=exact,
                    coords=[[frs(x) for x in c] for c in coords],
                    vals=gen_values(rng, size, cfg['dtype'], distinct=(cfg['api'] == 'nearest' or rng.random() < 0.5)),
                    pts=[[frs(p) for p, _ in pl] for pl in pts],
                    cats=[[cat for _, cat in pl] for pl in pts],
                    single_string=(rng.random() < 0.5),
                    use_out=(rng.random() < 0.5),
                    flat1d=(rng.random() < 0.5),
                    aseed=rng.getrandbits(30))
        out.append(case)
    return out


# ---------------------------------------------------------------------------
# reference oracle (textbook definition, exact)

def ref_axis(c, scheme, p):
    """list of (weight, node index or None for the ghost node of value 0); None if the point
    is outside the range where the property speaks (more than one cell outside, linear)."""
    n = len(c)
    if scheme == 'n':
        best = min(range(n), key=lambda k: (abs(p - c[k]), -k))
        return [(Fr(1), best)]
    ext = [c[0] - (c[1] - c[0])] + list(c) + [c[-1] + (c[-1] - c[-2])]
    if p < ext[0] or p > ext[-1]:
        return None
    j = min(bisect.bisect_right(ext, p) - 1, len(ext) - 2)
    t = (p - ext[j]) / (ext[j + 1] - ext[j])
    res = []
    for w, node in ((1 - t, j - 1), (t, j)):
        res.append((w, node if 0 <= node < n else None))
    return res


def ref_interp(coords, sch, vals, dims, point):
    """exact reference value at one point; vals: flat list of (re, im); None if out of range"""
    per_axis = []
    for c, s, p in zip(coords, sch, point):
        r = ref_axis(c, s, p)
        if r is None:
            return None
        per_axis.append(r)
    re = im = Fr(0)
    for combo in itertools.product(*per_axis):
        w = Fr(1)
        idx = 0
        ghost = False
        for (wj, node), n in zip(combo, dims):
            w *= wj
            if node is None:
                ghost = True
            else:
                idx = idx * n + node
        if ghost or w == 0:
            continue
        re += w * vals[idx][0]
        im += w * vals[idx][1]
    return (re, im)


def ref_nearest_index(coords, point, dims):
    idx = 0
    for c, p, n in zip(coords, point, dims):
        best = min(range(n), key=lambda k: (abs(p - c[k]), -k))
        idx = idx * n + best
    return idx


# ---------------------------------------------------------------------------
# running the real interpolators

def build_interpolator(case, f):
    from odl.discr import discr_utils as du
    cvecs = [np.array([float(pfr(x)) for x in c]) for c in case['coords']]
    api = case['api']
    if api == 'nearest':
        return du.nearest_interpolator(f, cvecs)
    if api == 'linear':
        return du.linear_interpolator(f, cvecs)
    sch = case['sch']
    if case.get('single_string') and len(set(sch)) == 1:
        return du.per_axis_interpolator(f, cvecs, SCH_NAME[sch[0]])
    return du.per_axis_interpolator(f, cvecs, [SCH_NAME[s] for s in sch])


def flat_tokens(res, dtype):
    arr = np.asarray(res)
    return [value_token(z, dtype) for z in arr.ravel(order='C').tolist()]


def eval_conventions(case, f=None):
    """Run the real code in every calling convention.
    Returns dict conv -> (status, tokens (flat, C order of the mesh))."""
    from odl.discr.grid import sparse_meshgrid
    if f is None:
        f = values_array(case)
    dt = str(f.dtype) if not case['dtype'].startswith('U') else case['dtype']
    d = len(case['coords'])
    P = [[float(pfr(x)) for x in pl] for pl in case['pts']]
    shape = tuple(len(p) for p in P)
    prod_pts = list(itertools.product(*P))
    res = {}
    rnd = random.Random(case.get('aseed', 0))

    def guard(name, fn):
        try:
            with warnings.catch_warnings():
                warnings.simplefilter('ignore')
                r = fn()
            res[name] = ('ok', flat_tokens(r, case['dtype']))
        except Exception as e:  # noqa
            res[name] = ('err:{}:{}'.format(type(e).__name__, str(e)[:100]), None)

    def garbage(shp):
        if case['dtype'].startswith('U'):
            return np.full(shp, 'zz', dtype=f.dtype)
        if case['dtype'].startswith('int'):
            return np.full(shp, -77, dtype=f.dtype)
        return np.full(shp, np.nan, dtype=f.dtype)

    def mesh_call():
        itp = build_interpolator(case, f)
        mesh = sparse_meshgrid(*[np.array(p) for p in P])
        if case.get('use_out'):
            out = garbage(shape)
            r = itp(mesh, out=out)
            if r is not out:
                raise AssertionError('out= given but a different object returned')
            return out
        return itp(mesh)

    def array_call():
        itp = build_interpolator(case, f)
        x = np.array(prod_pts, dtype=float).T.reshape(d, len(prod_pts))
        if d == 1 and case.get('flat1d'):
            x = x.reshape(-1)
        if not case.get('use_out'):
            out = garbage((len(prod_pts),))
            r = itp(x, out=out)
            if r is not out:
                raise AssertionError('out= given but a different object returned')
            return out
        return itp(x)

    def point_calls():
        itp = build_interpolator(case, f)
        vals = []
        for pt in prod_pts:
            if d == 1:
                x = pt[0] if rnd.random() < 0.5 else np.array(pt[0])
            else:
                x = list(pt) if rnd.random() < 0.5 else np.array(pt)
            r = itp(x)
            if isinstance(r, np.ndarray):
                raise AssertionError('single point returned an array of shape {}'.format(r.shape))
            vals.append(r)
        if case['dtype'].startswith('U'):
            return np.array(vals, dtype=f.dtype)
        return np.array(vals)

    guard('mesh', mesh_call)
    guard('array', array_call)
    if len(prod_pts) <= 30 or case.get('all_points'):
        guard('point', point_calls)
    return res, prod_pts, shape


def model_lines(case, convs):
    d = len(case['coords'])
    dims = [len(c) for c in case['coords']]
    kind = 'nearest' if case['api'] == 'nearest' else 'peraxis'
    head = 'interp kind={} sch={} dims={} c={} v={}'.format(
        kind, ','.join(case['sch']), ','.join(str(n) for n in dims),
        ';'.join(','.join(fs(pfr(x)) for x in c) for c in case['coords']),
        ','.join(case['vals']))
    P = [[pfr(x) for x in pl] for pl in case['pts']]
    prod_pts = list(itertools.product(*P))
    lines = {}
    if 'mesh' in convs:
        lines['mesh'] = [head + ' conv=mesh x=' + ';'.join(','.join(fs(p) for p in pl) for pl in P)]
    if 'array' in convs:
        lines['array'] = [head + ' conv=array x=' + ';'.join(
            ','.join(fs(pt[j]) for pt in prod_pts) for j in range(d))]
    if 'point' in convs:
        lines['point'] = [head + ' conv=point x=' + ';'.join(fs(pt[j]) for j in range(d))
                          for pt in prod_pts]
    return lines


def tol_for(case, scale):
    if case['exact']:
        return Fr(0)
    if case['dtype'] in ('float32', 'complex64'):
        return Fr(1, 10000) * scale + Fr(1, 10 ** 6)
    return Fr(1, 10 ** 9) * scale + Fr(1, 10 ** 12)


def close(a, b, tol):
    return abs(a[0] - b[0]) <= tol and abs(a[1] - b[1]) <= tol


def point_class(case, j, p):
    """model branch taken on axis j at coordinate p (for the histogram)"""
    c = [pfr(x) for x in case['coords'][j]]
    s = case['sch'][j]
    if p < c[0]:
        return s + '/lo'
    if p > c[-1]:
        return s + '/hi'
    if p in c:
        return s + '/node'
    i = bisect.bisect_left(c, p) - 1
    t = (p - c[i]) / (c[i + 1] - c[i])
    if t == Fr(1, 2):
        return s + '/tie'
    return s + ('/in<' if t < Fr(1, 2) else '/in>')


def desc_of(case):
    return {k: v for k, v in case.items()}


def key_of(case, what):
    return 'interp api={} sch={} coords={} dtype={} :: {}'.format(
        case['api'], case['sch'], '/'.join(case['ckinds']), case['dtype'], what)


def check_interp_case(ctx, case, results, prod_pts, shape, model_out):
    """oracle on the real results + correspondence with the model answers"""
    coords = [[pfr(x) for x in c] for c in case['coords']]
    dims = [len(c) for c in coords]
    numeric = not (case['dtype'].startswith('U') or case['dtype'].startswith('int'))
    ptsF = [tuple(pfr(case['pts'][j][i]) for j, i in enumerate(ix))
            for ix in itertools.product(*[range(n) for n in shape])]
    if numeric:
        vals = [parse_c(t) for t in case['vals']]
        scale = max([abs(a) + abs(b) for a, b in vals] + [Fr(1)])
    else:
        vals = None
        scale = Fr(1)
    tol = tol_for(case, scale)
    cats_hit = set()
    for j, pl in enumerate(case['pts']):
        for x in pl:
            pc = point_class(case, j, pfr(x))
            cats_hit.add(pc)
            ctx.hit('axis/' + pc)
    # expected by the textbook reference
    expected = []
    for pt in ptsF:
        if case['api'] == 'nearest':
            expected.append(case['vals'][ref_nearest_index(coords, pt, dims)])
        else:
            expected.append(ref_interp(coords, case['sch'], vals, dims, pt))
    nontrivial = len(set(map(str, expected))) > 1
    for conv, (status, toks) in sorted(results.items()):
        sig = ('interp', case['api'], case['sch'], tuple(case['ckinds']), case['dtype'], conv,
               bool(case.get('use_out')), tuple(sorted(cats_hit)))
        sample = None
        if len(ctx.samples) < 6 and len(ptsF) <= 9:
            sample = {'case': {k: case[k] for k in ('api', 'sch', 'coords', 'dtype', 'vals', 'pts')},
                      'conv': conv, 'impl': toks}
        ctx.case(sig if nontrivial else None, sample)
        ctx.hit('conv/{}/{}'.format(case['api'], conv))
        rc = dict(desc_of(case), conv=conv)
        if status != 'ok':
            ctx.violation(key_of(case, 'conv={} raised'.format(conv)), status, rc)
            ctx.err(status.split(':')[1])
        else:
            # --- oracle
            bad = None
            for k, (pt, exp, tok) in enumerate(zip(ptsF, expected, toks)):
                if exp is None:
                    continue
                if case['api'] == 'nearest' or not numeric:
                    if tok != exp:
                        bad = (pt, exp, tok)
                        break
                else:
                    if tok == 'nonfinite' or not close(parse_c(tok), exp, tol):
                        bad = (pt, ctok(exp), tok)
                        break
            if bad is not None:
                pt, exp, tok = bad
                what = 'closest-node rule' if case['api'] == 'nearest' else 'multilinear blend of the surrounding nodes'
                ctx.violation(key_of(case, 'conv={} {}'.format(conv, what)),
                              'at point {} expected {} got {}'.format([str(x) for x in pt], exp, tok),
                              dict(rc, bad_point=[str(x) for x in pt]))
        # --- correspondence
        mo = model_out.get(conv)
        if mo is None:
            continue
        if any(not a.startswith('ok r=') for a in mo):
            ctx.disagree(rc, status, [a for a in mo if not a.startswith('ok r=')][0])
            continue
        mt = []
        for a in mo:
            mt.extend(a[len('ok r='):].split(','))
        if status != 'ok':
            ctx.disagree(rc, status, 'ok')
            continue
        if len(mt) != len(toks):
            ctx.disagree(rc, 'length {}'.format(len(toks)), 'length {}'.format(len(mt)))
            continue
        for k, (a, b) in enumerate(zip(toks, mt)):
            same = (a == b)
            if not same and numeric and tol > 0 and a != 'nonfinite':
                same = close(parse_c(a), parse_c(b), tol)
            if not same:
                ctx.disagree(dict(rc, point=[str(x) for x in ptsF[k]]),
                             'entry {} = {}'.format(k, a), 'entry {} = {}'.format(k, b))
                break
    # --- calling conventions agree on the real code (also far outside, where the reference
    # is silent)
    oks = {cv: t for cv, (s, t) in results.items() if s == 'ok'}
    if len(oks) > 1:
        names = sorted(oks)
        base = oks[names[0]]
        for other in names[1:]:
            if oks[other] != base:
                k = [i for i, (a, b) in enumerate(zip(base, oks[other])) if a != b]
                k = k[0] if k else -1
                ctx.violation(key_of(case, 'calling conventions {} vs {} differ'.format(names[0], other)),
                              'point {}: {} gives {}, {} gives {}'.format(
                                  [str(x) for x in ptsF[k]] if k >= 0 else '?', names[0],
                                  base[k] if k >= 0 else len(base), other,
                                  oks[other][k] if k >= 0 else len(oks[other])),
                              dict(desc_of(case), conv='all'))


def affine_check(ctx, case):
    """ORACLE: affine data a + sum b_j c_j on linear axes (constant along nearest axes) is
    reproduced exactly at every point inside the hull, node values are reproduced at nodes."""
    if case['api'] == 'nearest' or case['dtype'].startswith(('U', 'int')):
        return
    rnd = random.Random(case['aseed'])
    coords = [[pfr(x) for x in c] for c in case['coords']]
    dims = [len(c) for c in coords]
    cplx = case['dtype'].startswith('complex')
    a = (Fr(rnd.randint(-8, 8), 4), Fr(rnd.randint(-8, 8), 4) if cplx else Fr(0))
    bs = []
    for s in case['sch']:
        if s == 'l':
            bs.append((Fr(rnd.choice([-6, -3, -2, -1, 1, 2, 3, 5]), 4),
                       Fr(rnd.randint(-4, 4), 4) if cplx else Fr(0)))
        else:
            bs.append((Fr(0), Fr(0)))
    vals = []
    for ix in itertools.product(*[range(n) for n in dims]):
        re = a[0] + sum(b[0] * coords[j][i] for j, (b, i) in enumerate(zip(bs, ix)))
        im = a[1] + sum(b[1] * coords[j][i] for j, (b, i) in enumerate(zip(bs, ix)))
        vals.append((re, im))
    case2 = dict(case, vals=[ctok(v) for v in vals])
    # evaluation points: inside the hull only (incl. nodes and the hull boundary)
    pts = []
    for j, c in enumerate(coords):
        pl = [pfr(x) for x in case['pts'][j] if c[0] <= pfr(x) <= c[-1]]
        pl += [c[0], c[-1]]
        pts.append(pl[:6])
    case2['pts'] = [[frs(p) for p in pl] for pl in pts]
    case2['all_points'] = False
    results, prod_pts, shape = eval_conventions(case2)
    scale = max([abs(x) + abs(y) for x, y in vals] + [Fr(1)])
    tol = tol_for(case, scale)
    if not case['exact']:
        tol = tol * 4
    ptsF = [tuple(pts[j][i] for j, i in enumerate(ix))
            for ix in itertools.product(*[range(n) for n in shape])]
    for conv, (status, toks) in sorted(results.items()):
        ctx.case(('affine', case['api'], case['sch'], tuple(case['ckinds']), case['dtype'], conv), None)
        ctx.hit('oracle/affine')
        rc = dict(case2, conv=conv, affine=True)
        if status != 'ok':
            ctx.violation(key_of(case, 'affine data conv={} raised'.format(conv)), status, rc)
            continue
        for pt, tok in zip(ptsF, toks):
            exp = (a[0] + sum(b[0] * x for b, x in zip(bs, pt)),
                   a[1] + sum(b[1] * x for b, x in zip(bs, pt)))
            if tok == 'nonfinite' or not close(parse_c(tok), exp, tol):
                ctx.violation(key_of(case, 'affine function not reproduced inside the grid conv={}'.format(conv)),
                              'a={} b={} at point {} expected {} got {}'.format(
                                  ctok(a), [ctok(b) for b in bs], [str(x) for x in pt], ctok(exp), tok),
                              dict(rc, bad_point=[str(x) for x in pt]))
                break


def run_interp(ctx, cases):
    batch = []
    lines = []
    for case in cases:
        results, prod_pts, shape = eval_conventions(case)
        ml = model_lines(case, results.keys())
        spans = {}
        for conv, ls in ml.items():
            spans[conv] = (len(lines), len(lines) + len(ls))
            lines.extend(ls)
        batch.append((case, results, prod_pts, shape, spans))
    outs = core.run_driver('C15', lines)
    for case, results, prod_pts, shape, spans in batch:
        model_out = {conv: outs[a:b] for conv, (a, b) in spans.items()}
        check_interp_case(ctx, case, results, prod_pts, shape, model_out)
        affine_check(ctx, case)


# ---------------------------------------------------------------------------

def run(ctx):
    cases = interp_configs(ctx)
    run_interp(ctx, cases)


def search(ctx, broken):
    """An obligation / the correspondence broke without an oracle failure: look harder on the
    real code with the oracle (thorough generation, every point evaluated singly as well)."""
    saved = ctx.tier
    ctx.tier = 'thorough'
    try:
        cases = interp_configs(ctx)
        for case in cases:
            case['all_points'] = True
            results, prod_pts, shape = eval_conventions(case)
            check_interp_case(ctx, case, results, prod_pts, shape, {})
            affine_check(ctx, case)
    finally:
        ctx.tier = saved


def replay(ctx, case):
    before = len(ctx.violations)
    if case.get('kind') == 'interp':
        c = dict(case)
        c.pop('conv', None)
        c['all_points'] = True
        if c.pop('affine', None):
            results, prod_pts, shape = eval_conventions(c)
            # affine replay: the recorded values already are the affine data; use the reference
            check_interp_case(ctx, c, results, prod_pts, shape, {})
        else:
            results, prod_pts, shape = eval_conventions(c)
            check_interp_case(ctx, c, results, prod_pts, shape, {})
            affine_check(ctx, c)
    if len(ctx.violations) > before:
        v = ctx.violations[before]
        return '{} :: {}'.format(v['key'], v['what'])
    return None
