"""C03 — operator calls: in-place equals out-of-place, input untouched, result in range,
malformed input rejected.

Tie to /repo (C, hand-written model + correspondence):
  * dispatch stream: synthetic Operator subclasses with each `_call` signature class
    (out-of-place only / in-place only / dual), each return behaviour (None / out / another
    object), raw or element results, operator or functional, x in {domain element, castable,
    non-castable}, out in {None, range element, foreign}: outcome (error kind or returned
    object, values, x afterwards) of the REAL `Operator.__call__` vs the model `call` of
    Model/Call.lean (driver at Float);
  * tree stream: random expression trees built with the real expression classes over real
    default_ops / proximal leaves vs the model's `callO` / `callI` on the same tree, in the
    three modes out-of-place, in-place (garbage / NaN / inf in out), aliased (out is x);
  * the trees and block matrices also contain `accum`, a harness-defined leaf that obeys the call
    protocol but is deliberately NOT alias safe (it overwrites out before reading x); aliased
    modes are skipped for such trees (C03 is about x != out);
  * wrapper strata (oracle): every expression / product-space class with an in-place branch x
    {accum, accum with junk, Laplacian, PartialDerivative, RosenbrockFunctional.gradient, square
    MatrixOperator} directly underneath x {default, cached temporaries tmp / tmp_ran / tmp_dom},
    called in place with x, out distinct; the expected value is composed from the leaf alone;
  * product-space stream: ProductSpaceOperator (random sparsity, several blocks per row, empty
    rows), BroadcastOperator, ReductionOperator, DiagonalOperator (also aliased),
    ComponentProjection, ComponentProjectionAdjoint with random trees as blocks vs the model.
Oracle (independent of the model): every concrete Operator/Functional class reachable from
odl.* (introspection + constructor table, plus instances of function-local classes such as
SimpleFunctional; adjoint/derivative/inverse/gradient/proximal/convex_conj of every instance TWO
levels deep): op(x) in range; a second op(x) gives the same result; op(x, out=y) is y and equals
op(x) for NaN / inf / garbage prefilled y; x bitwise unchanged; five expression classes around the
instance do not write x; an ndarray passed as x is not written; whatever the DOMAIN ITSELF refuses
to convert (20 kinds: wrong length/nesting/type, overflowing, None, dict, element of another
space ...) -> OpDomainError, also together with a bad out; near-miss outs (other dtype /
weighting / space kind / ndarray / list / component) -> OpRangeError; out with a functional ->
TypeError.  RESULT OWNERSHIP: the caller overwrites the element returned by op(x) and reuses it
as out; later op(x) / op(x, out=r) must give the same values and the result must not share
memory with an attribute of the operator (results that are views of x are listed, not
violations: the protocol text does not exclude them).  LAYOUT / SIZE: out and / or x
Fortran-ordered or strided, 2-d spaces just above the BLAS threshold, bit for bit against C
copies.  A class counts as tested only after one successful op(x); op(x) raising on a valid
input is a violation, except NotImplementedError of classes without a `_call` (listed) and
ValueError off the positive orthant when the positive draw succeeds (listed).  Callables passed
to a discretised space execute user code and are not "malformed data".  Classes without a
constructor are listed in the evidence (skipped_classes).
"""
import ast
import importlib
import os
import inspect
import pkgutil
import struct
import warnings

import numpy as np

from vf import core

EXTRA_TARGETS = ('OdlModel.Model.ProxFloat', 'OdlModel.Model.Call')   # imported by the driver
RULE = ('zoo: class x constructor variant x derived operator (self, adjoint, derivative, inverse, '
        'gradient, proximal, convex_conj) x input draw x prefill {nan, inf, garbage}; dispatch: '
        'signature class x return behaviour x raw x functional x x-kind x out-kind; tree: random '
        'expression trees (depth <= 4) x mode. Non-trivial = the call returned a result that is '
        'not identically zero; distinct = distinct (stream, class/variant/derived | dispatch '
        'tuple | tree shape, mode) signatures among non-trivial cases. leaf (round 4): kind x size '
        'x constant x prefill x mode, fixed enumeration + seeded draws, bitwise; wrap (round 4): '
        'every bcast / red / diag case of the pso stream a second time through the model\'s own '
        'block lists and identity wrapping.')
TRUSTED = ['hand-written model Model/Call.lean (dispatch, bridges, expression classes) and '
           'Model/ProxProg.lean (leaf bodies), tied by running them against the real classes',
           'constructor table of the harness (classes it cannot construct are listed as skipped)']
ASSUMPTIONS = ['leaf operator classes without an executable model are opaque: the leaf contract '
               '(fresh out-of-place result, in-place result independent of the old content of '
               'out, no write to x) is established for them on sampled inputs only (a test)',
               'of the membership checks of the inner calls made by expression classes only the '
               'rejection of out by a functional is modelled (constructors enforce matching spaces)',
               'identity aliasing only; IEEE rounding outside the model (in-place vs out-of-place on '
               'the real code: 1e-9 relative; model vs code on trees / block matrices: 1e-12 '
               'relative; dispatch stream: bitwise)',
               'the input cast is modelled as a copy (castable -> new object); rn(n).element(ndarray) '
               'wraps without copying: equivalent as long as no body writes its input, which the '
               'ndarray-input oracle tests; range membership / castability are tags of the model '
               '(XArg, OArg, Leaf.junk), tied to Operator.__call__ by the dispatch stream only',
               'user temporaries (tmp= / tmp_ran=) of OperatorRightScalarMult / OperatorComp / '
               'OperatorSum are modelled for the in-place bodies (tmpw lines); tmp_dom and the wrappers '
               'derived with a shared temporary are oracle only (history stream, wrapper strata)',
               'the leaf stream reaches only the size < THRESHOLD_SMALL branch of _lincomb_impl '
               '(lincombSmall); ImagPart / ComplexModulus are modelled on real spaces only; the '
               'in-place bodies of PowerOperator / MultiplyOperator on a FIELD domain with a '
               'field range are unreachable through __call__ (TypeError first) and not modelled']


def bits(x):
    return struct.unpack('<Q', struct.pack('<d', float(x)))[0]


def unbits(n):
    return struct.unpack('<d', struct.pack('<Q', int(n)))[0]


def bl(arr, sep=','):
    arr = np.asarray(arr, dtype=float).ravel()
    return sep.join(str(bits(v)) for v in arr.tolist()) if arr.size else '-'


def parse_bl(s):
    return np.array([] if s in ('', '-') else [unbits(t) for t in s.split(',')], dtype=float)


# ---------------------------------------------------------------------------
# generic element helpers

def flat(x):
    """Any element / scalar / array -> flat complex-or-float numpy array."""
    import odl
    if isinstance(x, odl.set.space.LinearSpaceElement) and isinstance(x.space, odl.ProductSpace):
        parts = [flat(p) for p in x]
        return np.concatenate(parts) if parts else np.zeros(0)
    if hasattr(x, 'asarray'):
        return np.asarray(x.asarray()).ravel(order='C')
    return np.asarray(x).ravel()


def _same(a, b, rtol=1e-9):
    a, b = np.asarray(a), np.asarray(b)
    if a.shape != b.shape:
        return False
    if a.dtype == bool or b.dtype == bool:
        return bool(np.array_equal(a, b))
    with np.errstate(all='ignore'):
        return bool(np.allclose(a, b, rtol=rtol, atol=1e-12, equal_nan=True))


same = _same


def bitsame(a, b):
    a, b = np.asarray(a), np.asarray(b)
    return a.shape == b.shape and a.dtype == b.dtype and a.tobytes() == b.tobytes()


def rand_elem(space, rng, positive=False):
    import odl
    if isinstance(space, odl.ProductSpace):
        return space.element([rand_elem(s, rng, positive) for s in space])
    if isinstance(space, odl.set.sets.Field) or isinstance(space, (odl.RealNumbers,
                                                                   odl.ComplexNumbers)):
        v = rng.randint(1, 16) / 8.0 if positive else rng.randint(-16, 16) / 8.0
        if isinstance(space, odl.ComplexNumbers):
            return complex(v, rng.randint(-8, 8) / 8.0)
        return float(v)
    if isinstance(space, odl.Integers):
        return rng.randint(-5, 5)
    shape = space.shape
    n = int(np.prod(shape))
    dt = np.dtype(space.dtype)
    if positive:
        ks = np.array([rng.randint(2, 15) for _ in range(n)], dtype=float) / 8
    else:
        ks = np.array([rng.randint(-16, 16) for _ in range(n)], dtype=float) / 8
    if np.issubdtype(dt, np.complexfloating):
        ks = ks + 1j * np.array([rng.randint(-8, 8) for _ in range(n)], dtype=float) / 8
    elif np.issubdtype(dt, np.integer):
        ks = np.array([rng.randint(1, 6) if positive else rng.randint(-6, 6) for _ in range(n)])
    elif dt == bool:
        ks = np.array([rng.random() < 0.5 for _ in range(n)])
    return space.element(np.asarray(ks).astype(dt).reshape(shape))


def filled(space, kind, rng):
    """Range element prefilled with NaN / inf / garbage (integers: garbage)."""
    import odl
    if isinstance(space, odl.ProductSpace):
        return space.element([filled(s, kind, rng) for s in space])
    dt = np.dtype(space.dtype)
    n = int(np.prod(space.shape))
    if np.issubdtype(dt, np.floating) or np.issubdtype(dt, np.complexfloating):
        val = {'nan': np.nan, 'inf': np.inf, 'garbage': None}[kind]
        if val is None:
            arr = np.array([(-1) ** k * (1234.5 + 1e5 * k) for k in range(n)])
        else:
            arr = np.full(n, val)
    elif dt == bool:
        arr = np.array([k % 2 == 0 for k in range(n)])
    else:
        arr = np.array([(-1) ** k * (77 + k) for k in range(n)])
    return space.element(arr.astype(dt).reshape(space.shape))


def is_field(s):
    import odl
    return isinstance(s, odl.set.sets.Field)


def snapshot(x):
    a = flat(x)
    return a.copy()


def enc_vals(a):
    """JSON-able exact encoding of a flat array (floats as hex strings, complex as pairs)."""
    a = np.asarray(a).ravel()
    if np.iscomplexobj(a):
        return {'c': [[float(v.real).hex(), float(v.imag).hex()] for v in a.tolist()]}
    if a.dtype.kind in 'iub':
        return {'i': [int(v) for v in a.tolist()], 'dt': str(a.dtype)}
    return {'f': [float(v).hex() for v in a.tolist()]}


def dec_vals(d):
    if 'c' in d:
        return np.array([complex(float.fromhex(r), float.fromhex(i)) for r, i in d['c']])
    if 'i' in d:
        return np.array(d['i'], dtype=d.get('dt', 'int64'))
    return np.array([float.fromhex(v) for v in d['f']])


def elem_from_flat(space, vals):
    """Inverse of `flat`: rebuild an element (or scalar) of `space` from its flat values."""
    import odl
    vals = np.asarray(vals)
    if isinstance(space, odl.ProductSpace):
        parts, k = [], 0
        for sp in space:
            n = int(np.prod(sp.shape)) if not isinstance(sp, odl.ProductSpace) else \
                len(flat(sp.zero()))
            parts.append(elem_from_flat(sp, vals[k:k + n]))
            k += n
        return space.element(parts)
    if is_field(space):
        v = vals.ravel()[0]
        return complex(v) if isinstance(space, odl.ComplexNumbers) else float(np.real(v))
    return space.element(np.array(vals).astype(space.dtype).reshape(space.shape))


def malformed_inputs(domain, rng):
    """Candidates for `x` that may not be convertible. Whether one IS malformed is decided by
    the space itself (`domain.element(c)` raises), independently of `Operator.__call__`."""
    import odl
    cands = [('object', object()), ('str', 'not-an-element'), ('none-list', [None, 1, 2]),
             ('dict', {'a': 1}), ('short-list', [1.0]), ('long-list', list(range(1, 40))),
             ('nested', [[1, 2], [3]]), ('non-numeric', [1, 'a', 3]),
             ('overflow-int', [10 ** 400, 1, 2]), ('inf-list', [float('inf'), 1, 2]),
             ('bytes', b'abc'), ('lambda', lambda t: t), ('other-space', odl.rn(23).one()),
             ('other-nd', odl.rn((5, 7)).one()), ('str-array', np.array(['a', 'b', 'c'])),
             ('set', {1, 2, 3})]
    shape = getattr(domain, 'shape', None)
    if shape:
        n = int(np.prod(shape))
        cands += [('overflow-fit', [10 ** 400] + [1] * (n - 1)),
                  ('inf-fit', np.array([float('inf')] + [1.0] * (n - 1)).reshape(shape).tolist()),
                  ('off-by-one', np.zeros(n + 1)), ('wrong-axes', np.zeros(tuple(shape) + (1, 2)))]
    rng.shuffle(cands)
    return cands


def near_miss_outs(rng_space, rng):
    """Objects that look like range elements but are not (`obj in range` is False)."""
    import odl
    cands = [('rn17', odl.rn(17).one())]
    shape = getattr(rng_space, 'shape', None)
    if shape is not None and not isinstance(rng_space, odl.ProductSpace):
        cands.append(('ndarray', np.zeros(shape)))
        cands.append(('list', np.zeros(shape).tolist()))
        for dt in ('float32', 'complex128', 'int64'):
            try:
                other = rng_space.astype(dt)
                if other != rng_space:
                    cands.append(('astype-' + dt, other.zero()))
            except Exception:
                pass
        try:
            cands.append(('other-weighting', odl.rn(shape, weighting=3.0).zero()))
            cands.append(('tensor-not-discr', odl.rn(shape).zero()))
        except Exception:
            pass
    elif isinstance(rng_space, odl.ProductSpace) and len(rng_space) > 0:
        cands.append(('component', rng_space[0].zero()))
        cands.append(('longer-power', odl.ProductSpace(rng_space[0], len(rng_space) + 1).zero()))
    rng.shuffle(cands)
    return cands


def arrays_of(obj, depth=0):
    """The ndarrays behind an element / array / container (no copies), one level deep."""
    import odl
    if isinstance(obj, np.ndarray):
        return [obj]
    if isinstance(obj, odl.set.space.LinearSpaceElement):
        if isinstance(obj.space, odl.ProductSpace):
            return [a for p in obj for a in arrays_of(p, depth)]
        for attr in ('tensor', 'data'):
            inner = getattr(obj, attr, None)
            if isinstance(inner, np.ndarray):
                return [inner]
            if inner is not None and inner is not obj and attr == 'tensor':
                return arrays_of(inner, depth)
        return []
    if depth == 0 and isinstance(obj, (list, tuple)):
        return [a for o in obj for a in arrays_of(o, 1)]
    if depth == 0 and isinstance(obj, dict):
        return [a for o in obj.values() for a in arrays_of(o, 1)]
    return []


def shares(a_list, b_list):
    for a in a_list:
        for b in b_list:
            try:
                if a.size and b.size and np.shares_memory(a, b):
                    return True
            except Exception:
                pass
    return False


def ownership_check(op, x, rng, same):
    """RESULT OWNERSHIP: the caller may overwrite the element returned by op(x) (and reuse it as
    `out`) without changing what the operator computes afterwards. Returns a list of
    (check, text); `aliases-input` entries are informational (NumPy-like views of x, e.g.
    RealPart / FlatteningOperator, are not excluded by the protocol text)."""
    problems, info = [], []
    mkx = (lambda: x.copy()) if hasattr(x, 'copy') else (lambda: x)
    xa = mkx()
    xa0 = snapshot(xa)
    o1 = safe_call(op, xa)
    if o1.status != 'ok' or not hasattr(o1.obj, 'space'):
        return problems, info
    r1, snap = o1.obj, o1.val.copy()
    if not np.all(np.isfinite(snap)) if snap.dtype.kind in 'fc' else False:
        return problems, info
    state = [a for v in vars(op).values() for a in arrays_of(v)]
    if shares(arrays_of(r1), state):
        problems.append(('ownership-shares-operator-state',
                         'the element returned by op(x) shares memory with an attribute of the '
                         'operator: overwriting the result changes the operator'))
    for round_ in (1, 2):
        try:
            r1.assign(filled(op.range, 'nan', rng))       # the caller overwrites ITS result
        except Exception:
            return problems, info
        if not bitsame(snapshot(xa), xa0):
            info.append('aliases-input')
        o2 = safe_call(op, mkx())
        if o2.status != 'ok' or not same(o2.val, snap):
            problems.append(('ownership-later-call-changed',
                             'after the caller overwrote the element returned by op(x), op(x) gives '
                             '{} instead of {} (round {})'.format(
                                 o2.val[:4] if o2.status == 'ok' else o2.status, snap[:4], round_)))
            break
        o3 = safe_call(op, mkx(), out=r1)                # ... and reuses it as out
        if o3.status != 'ok' or not same(snapshot(r1), snap):
            problems.append(('ownership-reuse-as-out',
                             'op(x, out=r) with r the overwritten result of an earlier op(x) leaves '
                             '{} instead of {} (round {})'.format(
                                 snapshot(r1)[:4] if o3.status == 'ok' else o3.status, snap[:4],
                                 round_)))
            break
        xa = mkx()
        xa0 = snapshot(xa)
        o1 = safe_call(op, xa)
        if o1.status != 'ok':
            break
        r1 = o1.obj
    return problems, info


# ---------------------------------------------------------------------------
# the zoo: classes by introspection + constructor table

def all_operator_classes():
    import odl
    seen, import_failures = {}, {}
    with warnings.catch_warnings():
        warnings.simplefilter('ignore')
        for m in pkgutil.walk_packages(odl.__path__, 'odl.'):
            if '.test' in m.name or 'conftest' in m.name or 'examples' in m.name:
                continue
            try:
                mod = importlib.import_module(m.name)
            except Exception as e:  # missing optional back-end
                import_failures[m.name] = type(e).__name__
                continue
            for nm, c in inspect.getmembers(mod, inspect.isclass):
                if issubclass(c, odl.Operator) and c.__module__ == mod.__name__:
                    seen[nm] = c
    return seen, import_failures


ABSTRACT = {'Operator', 'Functional', 'PointwiseTensorFieldOperator', 'PointwiseInnerBase',
            'DiscreteFourierTransformBase', 'FourierTransformBase', 'WaveletTransformBase'}


def matrix_nd():
    """MatrixOperator along every axis of 3-d and 4-d tensor spaces: square and non-square,
    dense (scipy sparse matrices are refused by the constructor for more than one axis)."""
    import odl
    out = []
    for shape in ((3, 3, 2), (3, 2, 4), (2, 3, 2, 3)):
        for axis in range(len(shape)):
            for square in (True, False):
                rows = shape[axis] if square else shape[axis] + 1
                arr = (np.arange(rows * shape[axis], dtype=float).reshape(rows, shape[axis]) % 5
                       - 2.0) / 2
                tag = '{}d{}-ax{}-{}'.format(len(shape), 'x'.join(map(str, shape)), axis,
                                             'sq' if square else 'rect')
                out.append((tag, lambda arr=arr, shape=shape, axis=axis:
                            odl.MatrixOperator(arr, domain=odl.rn(shape), axis=axis)))
    return out


def resizing_bdry():
    """ResizingOperator on spaces with grid nodes on the boundary (fractional boundary cells),
    1-d and 2-d, every padding mode, growing and shrinking; the adjoints are reached as derived
    operators."""
    import odl
    out = []
    s1 = odl.uniform_discr(0, 1, 5, nodes_on_bdry=True)
    s2 = odl.uniform_discr([0, 0], [1, 1], (4, 5), nodes_on_bdry=True)
    s2m = odl.uniform_discr([0, 0], [1, 1], (4, 5), nodes_on_bdry=[(True, False), (False, True)])
    for mode in ('constant', 'symmetric', 'periodic', 'order0', 'order1'):
        kw = {'pad_mode': mode, 'discr_kwargs': {'nodes_on_bdry': True}}
        out.append(('bdry1d-grow-' + mode, lambda kw=kw: odl.ResizingOperator(s1, ran_shp=(9,), **kw)))
        out.append(('bdry1d-shrink-' + mode,
                    lambda kw=kw: odl.ResizingOperator(s1, ran_shp=(3,), **kw)))
        out.append(('bdry2d-grow-' + mode,
                    lambda kw=kw: odl.ResizingOperator(s2, ran_shp=(8, 7), **kw)))
        out.append(('bdry2d-mixed-' + mode, lambda mode=mode: odl.ResizingOperator(
            s2m, ran_shp=(6, 4), pad_mode=mode,
            discr_kwargs={'nodes_on_bdry': [(True, False), (False, True)]})))
    return out


def constructors():
    """class name -> list of (variant, thunk)."""
    import odl
    S = odl.solvers
    r3 = odl.rn(3)
    r4 = odl.rn(4)
    c3 = odl.cn(3)
    d6 = odl.uniform_discr(0, 1, 6)
    d2 = odl.uniform_discr([0, 0], [1, 1], (4, 3))
    dc = odl.uniform_discr(0, 1, 8, dtype='complex128')
    ps = odl.ProductSpace(r3, 2)
    ps3 = odl.ProductSpace(r3, 3)
    vf = odl.ProductSpace(d2, 2)
    i3 = odl.tensor_space(3, dtype='int64')
    R = odl.RealNumbers()
    v3 = r3.element([1, -2, 0.5])
    w3 = r3.element([0.5, 2, -1])
    Id = odl.IdentityOperator(r3)
    Sc = odl.ScalingOperator(r3, 2.0)
    Mu = odl.MultiplyOperator(v3)
    Pw = odl.PowerOperator(r3, 2)
    Cn = odl.ConstantOperator(w3)
    inner = odl.InnerProductOperator(v3)
    mat = np.array([[1.0, 2, 0], [0, -1, 0.5]])
    T = {
        'ComplexEmbedding': [('real', lambda: odl.ComplexEmbedding(r3, scalar=1 + 2j)),
                             ('cplx', lambda: odl.ComplexEmbedding(c3, scalar=2j))],
        'ComplexModulus': [('c', lambda: odl.ComplexModulus(c3)), ('r', lambda: odl.ComplexModulus(r3))],
        'ComplexModulusSquared': [('c', lambda: odl.ComplexModulusSquared(c3)),
                                  ('r', lambda: odl.ComplexModulusSquared(r3))],
        'ConstantOperator': [('same', lambda: odl.ConstantOperator(w3)),
                             ('dom', lambda: odl.ConstantOperator(w3, domain=d6)),
                             ],
        'DistOperator': [('', lambda: odl.DistOperator(v3))],
        'IdentityOperator': [('', lambda: odl.IdentityOperator(r3)),
                             ('ps', lambda: odl.IdentityOperator(ps))],
        'ImagPart': [('c', lambda: odl.ImagPart(c3)), ('r', lambda: odl.ImagPart(r3))],
        'RealPart': [('c', lambda: odl.RealPart(c3)), ('r', lambda: odl.RealPart(r3))],
        'InnerProductOperator': [('', lambda: odl.InnerProductOperator(v3))],
        'LinCombOperator': [('', lambda: odl.LinCombOperator(r3, 2.0, -1.0)),
                            ('a0', lambda: odl.LinCombOperator(r3, 0.0, 1.0))],
        'MultiplyOperator': [('elem', lambda: odl.MultiplyOperator(v3)),
                             ('scal', lambda: odl.MultiplyOperator(2.0, domain=r3, range=r3)),
                             ('fielddom', lambda: odl.MultiplyOperator(v3, domain=R))],
        'NormOperator': [('', lambda: odl.NormOperator(r3))],
        'PowerOperator': [('2', lambda: odl.PowerOperator(r3, 2)),
                          ('3', lambda: odl.PowerOperator(d6, 3)),
                          ('field', lambda: odl.PowerOperator(R, 2))],
        'ScalingOperator': [('2', lambda: odl.ScalingOperator(r3, 2.0)),
                            ('0', lambda: odl.ScalingOperator(r3, 0.0)),
                            ('ps', lambda: odl.ScalingOperator(ps, -1.5))],
        'ZeroOperator': [('same', lambda: odl.ZeroOperator(r3)),
                         ('ran', lambda: odl.ZeroOperator(r3, range=d6))],
        'OperatorSum': [('', lambda: odl.OperatorSum(Sc, Mu)), ('nl', lambda: odl.OperatorSum(Pw, Cn)),
                        ('func', lambda: odl.OperatorSum(inner, odl.NormOperator(r3)))],
        'OperatorVectorSum': [('', lambda: odl.OperatorVectorSum(Sc, w3)),
                              ('pw', lambda: odl.OperatorVectorSum(Pw, w3))],
        'OperatorComp': [('', lambda: odl.OperatorComp(Sc, Mu)), ('nl', lambda: odl.OperatorComp(Pw, Cn)),
                         ('mat', lambda: odl.OperatorComp(odl.MatrixOperator(mat),
                                                          odl.ScalingOperator(r3, 2.0)))],
        'OperatorPointwiseProduct': [('', lambda: odl.OperatorPointwiseProduct(Sc, Mu)),
                                     ('func', lambda: odl.OperatorPointwiseProduct(
                                         inner, odl.NormOperator(r3)))],
        'OperatorLeftScalarMult': [('', lambda: odl.OperatorLeftScalarMult(Pw, -2.0)),
                                   ('func', lambda: odl.OperatorLeftScalarMult(inner, 3.0))],
        'OperatorRightScalarMult': [('', lambda: odl.OperatorRightScalarMult(Pw, -2.0)),
                                    ('tmp', lambda: odl.OperatorRightScalarMult(Pw, 0.5,
                                                                                tmp=r3.element()))],
        'FunctionalLeftVectorMult': [('', lambda: odl.FunctionalLeftVectorMult(inner, w3))],
        'OperatorLeftVectorMult': [('', lambda: odl.OperatorLeftVectorMult(Pw, w3))],
        'OperatorRightVectorMult': [('', lambda: odl.OperatorRightVectorMult(Pw, w3)),
                                    ('func', lambda: odl.OperatorRightVectorMult(inner, w3))],
        'BroadcastOperator': [('', lambda: odl.BroadcastOperator(Id, Sc)),
                              ('nl', lambda: odl.BroadcastOperator(Pw, Mu, Cn))],
        'ComponentProjection': [('0', lambda: odl.ComponentProjection(ps, 0)),
                                ('list', lambda: odl.ComponentProjection(ps3, [0, 2]))],
        'ComponentProjectionAdjoint': [('1', lambda: odl.ComponentProjectionAdjoint(ps, 1)),
                                       ('list', lambda: odl.ComponentProjectionAdjoint(ps3, [0, 2]))],
        'DiagonalOperator': [('', lambda: odl.DiagonalOperator(Id, Sc)),
                             ('nl', lambda: odl.DiagonalOperator(Pw, Mu))],
        'ProductSpaceOperator': [('full', lambda: odl.ProductSpaceOperator([[Id, Sc], [Mu, Pw]])),
                                 ('sparse', lambda: odl.ProductSpaceOperator([[Id, None], [Sc, Mu]])),
                                 ('emptyrow', lambda: odl.ProductSpaceOperator(
                                     [[None, Id], [None, None]], domain=ps, range=ps))],
        'ReductionOperator': [('', lambda: odl.ReductionOperator(Id, Sc)),
                              ('nl', lambda: odl.ReductionOperator(Pw, Mu, Cn))],
        'FlatteningOperator': [('C', lambda: odl.FlatteningOperator(odl.rn((2, 3)))),
                               ('F', lambda: odl.FlatteningOperator(odl.rn((2, 3)), order='F'))],
        'MatrixOperator': [('rect', lambda: odl.MatrixOperator(mat)),
                           ('square', lambda: odl.MatrixOperator(np.array([[0.0, 1, 0], [2, 0, 0],
                                                                            [0, 0, -1]]))),
                           ('axis', lambda: odl.MatrixOperator(mat, domain=odl.rn((2, 3)), axis=1)),
                           ('sparse', lambda: odl.MatrixOperator(
                               __import__('scipy.sparse').sparse.csr_matrix(mat)))] + matrix_nd(),
        'PointwiseInner': [('', lambda: odl.PointwiseInner(vf, vf.one())),
                           ('w', lambda: odl.PointwiseInner(vf, vf.one(), weighting=[1, 2]))],
        'PointwiseInnerAdjoint': [('', lambda: odl.PointwiseInner(vf, vf.one()).adjoint)],
        'PointwiseNorm': [('2', lambda: odl.PointwiseNorm(vf)), ('1', lambda: odl.PointwiseNorm(vf, 1)),
                          ('inf', lambda: odl.PointwiseNorm(vf, float('inf'))),
                          ('w', lambda: odl.PointwiseNorm(vf, 2, weighting=[1, 2])),
                          ('p', lambda: odl.PointwiseNorm(vf, 1.5))],
        'PointwiseSum': [('', lambda: odl.PointwiseSum(vf))],
        'SamplingOperator': [('pt', lambda: odl.SamplingOperator(d2, [[0, 1, 3], [1, 2, 0]])),
                             ('int', lambda: odl.SamplingOperator(d2, [[0, 1], [1, 2]],
                                                                  variant='integrate'))],
        'WeightedSumSamplingOperator': [
            ('char', lambda: odl.WeightedSumSamplingOperator(d2, [[0, 1, 1], [1, 2, 2]])),
            ('dirac', lambda: odl.WeightedSumSamplingOperator(d2, [[0, 1], [1, 2]], variant='dirac'))],
        'Gradient': [('', lambda: odl.Gradient(d2)),
                     ('c', lambda: odl.Gradient(d2, method='central', pad_mode='symmetric')),
                     ('1d', lambda: odl.Gradient(d6, method='backward', pad_mode='periodic'))],
        'Divergence': [('', lambda: odl.Divergence(range=d2)),
                       ('c', lambda: odl.Divergence(range=d2, method='central', pad_mode='order1'))],
        'Laplacian': [('', lambda: odl.Laplacian(d2)),
                      ('sym', lambda: odl.Laplacian(d2, pad_mode='symmetric'))],
        'PartialDerivative': [('f', lambda: odl.PartialDerivative(d2, 0)),
                              ('b', lambda: odl.PartialDerivative(d2, 1, method='backward',
                                                                  pad_mode='constant', pad_const=1)),
                              ('c', lambda: odl.PartialDerivative(d6, 0, method='central',
                                                                  pad_mode='order2'))],
        'Resampling': [('up', lambda: odl.Resampling(d6, odl.uniform_discr(0, 1, 12), interp='linear')),
                       ('down', lambda: odl.Resampling(d6, odl.uniform_discr(0, 1, 3), interp='nearest'))],
        'ResizingOperator': [('grow', lambda: odl.ResizingOperator(d6, ran_shp=(10,))),
                             ('shrink', lambda: odl.ResizingOperator(d6, ran_shp=(4,))),
                             ('sym', lambda: odl.ResizingOperator(d2, ran_shp=(6, 5),
                                                                  pad_mode='symmetric'))]
        + resizing_bdry(),
        'LinDeformFixedDisp': [('', lambda: odl.deform.LinDeformFixedDisp(
            odl.ProductSpace(d6, 1).element([np.linspace(-0.1, 0.1, 6)])))],
        'LinDeformFixedTempl': [('', lambda: odl.deform.LinDeformFixedTempl(
            d6.element(np.arange(6.0))))],
        'DiscreteFourierTransform': [('', lambda: odl.trafos.DiscreteFourierTransform(dc)),
                                     ('half', lambda: odl.trafos.DiscreteFourierTransform(
                                         odl.uniform_discr(0, 1, 8), halfcomplex=True))],
        'DiscreteFourierTransformInverse': [
            ('', lambda: odl.trafos.DiscreteFourierTransform(dc).inverse)],
        'FourierTransform': [('', lambda: odl.trafos.FourierTransform(dc)),
                             ('real', lambda: odl.trafos.FourierTransform(odl.uniform_discr(-1, 1, 8)))],
        'FourierTransformInverse': [('', lambda: odl.trafos.FourierTransform(dc).inverse)],
        'WaveletTransform': [('', lambda: odl.trafos.WaveletTransform(
            odl.uniform_discr(0, 1, 8), 'haar', nlevels=2))],
        'WaveletTransformInverse': [('', lambda: odl.trafos.WaveletTransform(
            odl.uniform_discr(0, 1, 8), 'haar', nlevels=2).inverse)],
        'RayTransform': [('', lambda: odl.tomo.RayTransform(
            odl.uniform_discr([-1, -1], [1, 1], (8, 8)),
            odl.tomo.parallel_beam_geometry(odl.uniform_discr([-1, -1], [1, 1], (8, 8)), 5),
            impl='skimage'))],
        'NumericalDerivative': [('', lambda: S.NumericalDerivative(Pw, v3))],
        'NumericalGradient': [('', lambda: S.NumericalGradient(S.L2NormSquared(r3)))],
        'RosenbrockFunctional': [('', lambda: S.RosenbrockFunctional(odl.rn(2)))],
        # functionals
        'LpNorm': [('1.5', lambda: S.LpNorm(r3, 1.5))],
        'L1Norm': [('', lambda: S.L1Norm(r3)), ('d', lambda: S.L1Norm(d6))],
        'L2Norm': [('', lambda: S.L2Norm(r3))],
        'L2NormSquared': [('', lambda: S.L2NormSquared(d6))],
        'GroupL1Norm': [('', lambda: S.GroupL1Norm(vf))],
        'IndicatorGroupL1UnitBall': [('', lambda: S.IndicatorGroupL1UnitBall(vf))],
        'IndicatorLpUnitBall': [('2', lambda: S.IndicatorLpUnitBall(r3, 2)),
                                ('1', lambda: S.IndicatorLpUnitBall(r3, 1)),
                                ('inf', lambda: S.IndicatorLpUnitBall(r3, float('inf')))],
        'ConstantFunctional': [('', lambda: S.ConstantFunctional(r3, 2.0))],
        'ZeroFunctional': [('', lambda: S.ZeroFunctional(r3))],
        'ScalingFunctional': [('', lambda: S.ScalingFunctional(R, 3.0))],
        'IdentityFunctional': [('', lambda: S.IdentityFunctional(R))],
        'IndicatorBox': [('', lambda: S.IndicatorBox(r3, -1, 1))],
        'IndicatorNonnegativity': [('', lambda: S.IndicatorNonnegativity(r3))],
        'IndicatorZero': [('', lambda: S.IndicatorZero(r3))],
        'KullbackLeibler': [('', lambda: S.KullbackLeibler(r3, prior=r3.element([1, 2, 0.5])))],
        'KullbackLeiblerConvexConj': [('', lambda: S.KullbackLeibler(
            r3, prior=r3.element([1, 2, 0.5])).convex_conj)],
        'KullbackLeiblerCrossEntropy': [('', lambda: S.KullbackLeiblerCrossEntropy(
            r3, prior=r3.element([1, 2, 0.5])))],
        'KullbackLeiblerCrossEntropyConvexConj': [('', lambda: S.KullbackLeiblerCrossEntropy(
            r3, prior=r3.element([1, 2, 0.5])).convex_conj)],
        'SeparableSum': [('', lambda: S.SeparableSum(S.L1Norm(r3), S.L2NormSquared(r3)))],
        'QuadraticForm': [('', lambda: S.QuadraticForm(operator=Sc, vector=v3, constant=1.0))],
        'NuclearNorm': [('', lambda: S.NuclearNorm(odl.ProductSpace(odl.ProductSpace(d6, 2), 2)))],
        'IndicatorNuclearNormUnitBall': [('', lambda: S.IndicatorNuclearNormUnitBall(
            odl.ProductSpace(odl.ProductSpace(d6, 2), 2)))],
        'IndicatorSimplex': [('', lambda: S.IndicatorSimplex(r3))],
        'IndicatorSumConstraint': [('', lambda: S.IndicatorSumConstraint(r3))],
        'MoreauEnvelope': [('', lambda: S.MoreauEnvelope(S.L1Norm(r3)))],
        'Huber': [('', lambda: S.Huber(r3, 0.5)), ('ps', lambda: S.Huber(vf, 0.5))],
        'BregmanDistance': [('', lambda: S.BregmanDistance(S.L2NormSquared(r3), v3, S.L2NormSquared(r3).gradient(v3)))],
        'FunctionalComp': [('', lambda: S.L1Norm(r3) * Sc)],
        'FunctionalDefaultConvexConjugate': [('', lambda: __import__('odl.solvers.functional.functional', fromlist=['x'])
            .FunctionalDefaultConvexConjugate(S.L2NormSquared(r3)))],
        'FunctionalLeftScalarMult': [('', lambda: 2.0 * S.L1Norm(r3))],
        'FunctionalRightScalarMult': [('', lambda: S.L1Norm(r3) * 2.0)],
        'FunctionalProduct': [('', lambda: S.FunctionalProduct(S.L1Norm(r3), S.L2NormSquared(r3)))],
        'FunctionalQuadraticPerturb': [('', lambda: S.FunctionalQuadraticPerturb(
            S.L1Norm(r3), quadratic_coeff=0.5, linear_term=v3))],
        'FunctionalQuotient': [('', lambda: S.FunctionalQuotient(S.L1Norm(r3),
                                                                 S.ConstantFunctional(r3, 2.0)))],
        'FunctionalRightVectorMult': [('', lambda: S.L1Norm(r3) * v3)],
        'FunctionalScalarSum': [('', lambda: S.L1Norm(r3) + 2.0)],
        'FunctionalSum': [('', lambda: S.L1Norm(r3) + S.L2NormSquared(r3))],
        'FunctionalTranslation': [('', lambda: S.L1Norm(r3).translated(v3))],
        'InfimalConvolution': [('', lambda: S.InfimalConvolution(S.L1Norm(r3), S.L2NormSquared(r3)))],
    }
    return T, dict(r3=r3, i3=i3, R=R)


INT_UFUNCS = ('shift', 'bitwise', 'invert')


def ufunc_instances(name, cls):
    import odl
    if name.endswith('_func'):
        return [('', lambda: cls(odl.RealNumbers()))]
    if any(t in name for t in INT_UFUNCS):
        return [('int', lambda: cls(odl.tensor_space(3, dtype='int64')))]
    return [('rn', lambda: cls(odl.rn(3))), ('discr', lambda: cls(odl.uniform_discr(0, 1, 4)))]


DERIVED = ('adjoint', 'inverse', 'gradient', 'convex_conj', 'derivative', 'proximal')


def derived_ops(op, x):
    """One level of operators reachable from an instance."""
    out = []
    for attr in DERIVED:
        try:
            if attr == 'derivative':
                d = op.derivative(x)
            elif attr == 'proximal':
                d = op.proximal(0.5)
            else:
                d = getattr(op, attr)
        except Exception:  # not available
            continue
        import odl
        if isinstance(d, odl.Operator) and d is not op:
            out.append((attr, d))
    return out


class Outcome(object):
    def __init__(self, status, val=None, obj=None):
        self.status, self.val, self.obj = status, val, obj


def errkind(e):
    import odl
    from odl.operator.operator import OpDomainError, OpRangeError
    if isinstance(e, OpDomainError):
        return 'err:domain'
    if isinstance(e, OpRangeError):
        return 'err:range'
    if isinstance(e, TypeError):
        return 'err:type'
    if isinstance(e, ValueError):
        return 'err:value'
    return 'err:other:' + type(e).__name__


def safe_call(op, x, **kw):
    try:
        with warnings.catch_warnings():
            warnings.simplefilter('ignore')
            with np.errstate(all='ignore'):
                r = op(x, **kw)
        return Outcome('ok', snapshot(r), r)
    except Exception as e:  # noqa
        return Outcome(errkind(e) + ':' + str(e)[:80])


def check_instance(ctx, label, op, rng, deep=False, fixed=None):
    """The C03 oracle on one operator instance. Returns (non-trivial, evaluated at least once).
    `fixed` = {'x': enc_vals(...)} replays exactly one recorded input."""
    import odl
    if COVERAGE is not None and fixed is None:
        COVERAGE.watch(type(op).__name__, getattr(type(op), '_call', None))
        coverage_pass(label, op)
    problems = []
    nontrivial = False
    evaluated = False
    draws = [False, True, 'zero'] if not deep else [False, True, 'zero', False, 'small']
    if fixed is not None:
        draws = ['fixed']
    functional = is_field(op.range)
    single = any(str(getattr(sp, 'dtype', '')) in ('float32', 'complex64', 'float16')
                 for sp in (op.domain, op.range)) or \
        any(str(getattr(getattr(sp, '__getitem__', lambda i: None)(0), 'dtype', ''))
            in ('float32', 'complex64') for sp in (op.domain, op.range)
            if isinstance(sp, odl.ProductSpace) and len(sp) > 0)
    rt = 1e-4 if single else 1e-9      # single-precision spaces: tolerance of DESIGN section 4

    def same(a, b, rtol=None):       # noqa: shadows the module-level helper on purpose
        return _same(a, b, rt if rtol is None else max(rtol, rt))
    for positive in draws:
        try:
            if positive == 'fixed':
                x = elem_from_flat(op.domain, dec_vals(fixed['x']))
            elif positive in ('zero', 'small'):
                # the zero / a tiny element: reaches the `set_zero` / degenerate branches
                x = rand_elem(op.domain, rng, False)
                if hasattr(x, 'space'):
                    x = x * (0.0 if positive == 'zero' else 0.015625)
                    if not (x in op.domain):
                        x = op.domain.element(x)
                else:
                    x = type(x)(0)
            else:
                x = rand_elem(op.domain, rng, positive)
        except Exception as e:  # noqa
            ctx.extra.setdefault('no_input_generator', {})[label] = str(e)[:80]
            return False, False
        x0 = snapshot(x)
        ref = safe_call(op, x)
        xdesc = enc_vals(x0)
        if ref.status != 'ok':
            ctx.err(':'.join(ref.status.split(':')[1:3]))
            if 'NotImplementedError' in ref.status:
                # the class has no `_call` implementation (abstract placeholder such as the
                # default convex conjugate): documented, listed as not evaluable
                ctx.extra.setdefault('not_evaluable(no _call implementation)', {})[label] = \
                    ref.status[:90]
            elif ref.status.startswith('err:value') and positive in (False, 'zero', 'small'):
                # ValueError off the positive orthant: a documented restriction of the domain of
                # definition (e.g. the KL cross-entropy gradient for non-positive input); it is a
                # violation only if the positive draw fails too (handled by the branch below)
                ctx.extra.setdefault('restricted_domain(ValueError for non-positive input)',
                                     {})[label] = ref.status[:90]
            else:
                # a valid domain element on which op(x) raises is inside the quantifier
                problems.append(('raises-on-valid-input',
                                 'op(x) raises {} on a domain element'.format(ref.status), xdesc))
            continue
        evaluated = True
        if not (ref.obj in op.range):
            problems.append(('result-in-range', 'op(x) is not an element of op.range', xdesc))
        if not bitsame(snapshot(x), x0):
            problems.append(('input-unchanged-oop', 'x modified by op(x)', xdesc))
        if np.any(ref.val != 0):
            nontrivial = True
        # a second call on the same input must give the same result (an operator that scaled
        # the array behind x in place would not)
        again = safe_call(op, x)
        if again.status != 'ok' or not same(again.val, ref.val, rtol=1e-12):
            problems.append(('second-call-same-result',
                             'op(x) called twice gives different results: {} then {}'.format(
                                 ref.val[:4], again.val[:4] if again.status == 'ok'
                                 else again.status), xdesc))
        if not functional and positive in (False, 'fixed'):
            ctx.hit('ownership/result')
            ctx.hit('ownership/result/' + type(op).__name__)
            own, info = ownership_check(op, x, rng, same)
            for chk, what in own:
                problems.append((chk, what, xdesc))
            if info:
                ctx.extra.setdefault('result_is_a_view_of_x(informational)', {})[label] = True
        if functional:
            o = safe_call(op, x, out=ref.obj)
            if not o.status.startswith('err:type'):
                problems.append(('functional-out-rejected',
                                 'op(x, out=..) with a functional gave {} instead of TypeError'
                                 .format(o.status), xdesc))
        else:
            for kind in ('nan', 'inf', 'garbage'):
                try:
                    y = filled(op.range, kind, rng)
                except Exception:
                    continue
                o = safe_call(op, x, out=y)
                if o.status != 'ok':
                    problems.append(('in-place-raises', 'op(x, out=y) raises {}'.format(o.status),
                                     xdesc))
                    break
                if o.obj is not y:
                    problems.append(('returns-out', 'op(x, out=y) did not return y', xdesc))
                yv0 = snapshot(y)
                with np.errstate(all='ignore'):
                    fin = np.isfinite(ref.val) if ref.val.dtype.kind in 'fc' else \
                        np.ones(ref.val.shape, dtype=bool)
                if yv0.shape != ref.val.shape:
                    fin = None
                # entries where op(x) itself is not finite (x outside the domain of definition,
                # e.g. the KL gradient at 0) are not compared
                if fin is None or not same(yv0[fin], ref.val[fin]):
                    yv = snapshot(y)
                    bad = [i for i in range(min(len(yv), len(ref.val)))
                           if not same(yv[i:i + 1], ref.val[i:i + 1])]
                    problems.append(('in-place-equals-oop prefill=' + kind,
                                     'op(x, out=y) with {}-prefilled y differs from op(x) at flat '
                                     'index {}: got {!r}, op(x) gives {!r}'.format(
                                         kind, bad[:1], yv[bad[0]] if bad else None,
                                         ref.val[bad[0]] if bad else None), xdesc))
                if not bitsame(snapshot(x), x0):
                    problems.append(('input-unchanged-ip', 'x modified by op(x, out=y)', xdesc))
                    break
            # aliased call where possible is C10's subject; here: OperatorVectorSum must not
            # write into x even if the leaf returns its input
            if isinstance(op.range, odl.LinearSpace) and (deep or positive is False):
                # expression classes around the instance must not write into x even when op(x)
                # returns x itself or a view of x (RealPart, FlatteningOperator, ...)
                try:
                    v = rand_elem(op.range, rng)
                    vv = snapshot(v)
                    wrappers = [
                        ('vecsum', lambda: odl.OperatorVectorSum(op, v), lambda r: r + vv),
                        ('leftvecmult', lambda: odl.OperatorLeftVectorMult(op, v), lambda r: r * vv),
                        ('leftscalmult', lambda: odl.OperatorLeftScalarMult(op, 2.0),
                         lambda r: 2.0 * r),
                        ('sum', lambda: odl.OperatorSum(op, op), lambda r: r + r),
                        ('pwprod', lambda: odl.OperatorPointwiseProduct(op, op), lambda r: r * r),
                    ]
                except Exception:
                    wrappers = []
                for wname, mkw, expect in wrappers:
                    try:
                        wop = mkw()
                    except Exception:  # construction not possible for this range / field
                        continue
                    x1 = x.copy() if hasattr(x, 'copy') else x
                    x1s = snapshot(x1)
                    o = safe_call(wop, x1)
                    if o.status != 'ok':
                        continue
                    if not bitsame(snapshot(x1), x1s):
                        problems.append((wname + '-input-unchanged',
                                         '{}(op, ..)(x) wrote into x (op(x) returned x or an object '
                                         'sharing its data with x)'.format(type(wop).__name__), xdesc))
                    elif np.all(np.isfinite(ref.val)) and not same(o.val, expect(ref.val)):
                        problems.append((wname + '-value', '{}(op, ..)(x) has the wrong value'
                                         .format(type(wop).__name__), xdesc))
        # an ndarray (not an element) as input: `domain.element(arr)` WRAPS the array without
        # copying, so the bodies see the caller's memory; it must stay untouched as well
        if hasattr(x, 'asarray') and not isinstance(op.domain, odl.ProductSpace):
            arr = np.array(x.asarray())
            a0 = arr.copy()
            o = safe_call(op, arr)
            if o.status != 'ok' or not same(o.val[np.isfinite(ref.val)] if o.val.shape ==
                                            ref.val.shape and ref.val.dtype.kind in 'fc'
                                            else o.val, ref.val[np.isfinite(ref.val)]
                                            if ref.val.dtype.kind in 'fc' else ref.val):
                problems.append(('ndarray-input', 'op(ndarray) gives {} instead of op(x)'.format(
                    o.status if o.status != 'ok' else o.val[:4]), xdesc))
            if not bitsame(arr, a0):
                problems.append(('ndarray-input-unchanged', 'op(ndarray) wrote into the array',
                                 xdesc))
            if not functional:
                try:
                    y = filled(op.range, 'nan', rng)
                    o = safe_call(op, arr, out=y)
                    if o.status == 'ok' and not bitsame(arr, a0):
                        problems.append(('ndarray-input-unchanged',
                                         'op(ndarray, out=y) wrote into the array', xdesc))
                except Exception:
                    pass
        # malformed input: whatever the domain itself refuses to convert must be rejected with
        # OpDomainError, also when `out` is bad as well (priority of the checks)
        n_mal = 0
        for mname, cand in malformed_inputs(op.domain, rng):
            if callable(cand) and hasattr(op.domain, 'partition'):
                # a discretised space SAMPLES a callable: exceptions raised while executing the
                # user's function propagate unchanged; that is not "malformed data"
                continue
            try:
                if cand in op.domain:
                    continue
                op.domain.element(cand)
                continue            # convertible: not malformed for this domain
            except Exception:
                pass
            n_mal += 1
            o = safe_call(op, cand)
            if not o.status.startswith('err:domain'):
                problems.append(('malformed-x kind=' + mname,
                                 'op(<{}>) gave {} instead of OpDomainError'.format(mname, o.status),
                                 None))
            if not functional:
                o = safe_call(op, cand, out=odl.rn(17).one())
                if not o.status.startswith('err:domain'):
                    problems.append(('malformed-both kind=' + mname,
                                     'op(<{}>, out=foreign) gave {} instead of OpDomainError'
                                     .format(mname, o.status), None))
            ctx.hit('malformed/' + mname)
            if n_mal >= (4 if not deep else 40):
                break
        if not functional:
            n_out = 0
            for oname, cand in near_miss_outs(op.range, rng):
                try:
                    if cand in op.range:
                        continue
                except Exception:
                    pass
                n_out += 1
                o = safe_call(op, x, out=cand)
                if not o.status.startswith('err:range'):
                    problems.append(('foreign-out kind=' + oname,
                                     'op(x, out=<{}>) gave {} instead of OpRangeError'.format(
                                         oname, o.status), xdesc))
                ctx.hit('foreign-out/' + oname)
                if n_out >= (3 if not deep else 20):
                    break
            if not bitsame(snapshot(x), x0):
                problems.append(('input-unchanged-rejected', 'x modified by a rejected call', xdesc))
    seen = set()
    for check, what, xdesc in problems:
        if check in seen:
            continue
        seen.add(check)
        ctx.violation('zoo {} check={}'.format(label, check), what,
                      {'kind': 'zoo', 'label': label, 'check': check, 'x': xdesc})
    return nontrivial, evaluated


def zoo_instances(ctx):
    """Yield (label, thunk) for every constructible class; record the skipped ones."""
    classes, import_failures = all_operator_classes()
    table, _ = constructors()
    skipped = []
    for name in sorted(classes):
        cls = classes[name]
        if name in ABSTRACT:
            continue
        if cls.__module__ == 'odl.ufunc_ops.ufunc_ops':
            variants = ufunc_instances(name, cls)
        else:
            variants = table.get(name)
        if not variants:
            skipped.append(name)
            continue
        for vname, thunk in variants:
            yield name, vname, thunk
    ctx.extra['skipped_classes(no constructor)'] = skipped
    ctx.extra['modules_not_importable'] = import_failures
    ctx.extra['classes_found'] = len(classes)


def extra_instances():
    """Instances of classes that are defined inside functions (not reachable by module
    introspection) and not derived from a listed instance."""
    import odl
    from odl.solvers.functional.functional import simple_functional
    r3 = odl.rn(3)
    return [
        ('SimpleFunctional', 'full', lambda: simple_functional(
            r3, fcall=lambda x: x.norm() ** 2, grad=lambda x: 2 * x,
            prox=lambda sigma: odl.ScalingOperator(r3, 1 / (1 + 2 * sigma)),
            convex_conj_fcall=lambda x: x.norm() ** 2 / 4, convex_conj_grad=lambda x: x / 2)),
        ('SimpleFunctional', 'opgrad', lambda: simple_functional(
            r3, fcall=lambda x: x.inner(x), grad=odl.ScalingOperator(r3, 2.0))),
    ]


def option_instances():
    """Constructor options that select another `_call` branch (driven by the branch-coverage
    table in the evidence): weightings incl. ARRAY weightings on domain and / or range, explicit
    range=, nodes_on_bdry, negative axes, dtypes, every difference method x pad mode, impl
    variants, priors given / not given, exponents, proximal factories with every option
    combination (the plans of the C10 harness)."""
    import odl
    S = odl.solvers
    out = []
    r3 = odl.rn(3)
    c3 = odl.cn(3)
    d6 = odl.uniform_discr(0, 1, 6)
    d2 = odl.uniform_discr([0, 0], [1, 1], (4, 3))
    v3 = r3.element([1, -2, 0.5])
    # ResizingOperator with an explicit range and array / constant weightings
    wd = np.array([1.0, 2, 3, 2, 1])
    wr = np.arange(1.0, 10)
    for dname, dkw in (('w0', {}), ('warr', {'weighting': wd}), ('wconst', {'weighting': 3.0})):
        for rname, rkw in (('w0', {}), ('warr', {'weighting': wr}), ('wconst', {'weighting': 0.5})):
            for mode in ('constant', 'symmetric', 'order0'):
                out.append(('ResizingOperator', 'range-{}-{}-{}'.format(dname, rname, mode),
                            lambda dkw=dkw, rkw=rkw, mode=mode: odl.ResizingOperator(
                                odl.uniform_discr(0, 1, 5, **dkw),
                                odl.uniform_discr(-0.4, 1.4, 9, **rkw), pad_mode=mode)))
    out.append(('ResizingOperator', 'range-2d-warr', lambda: odl.ResizingOperator(
        odl.uniform_discr([0, 0], [1, 1], (2, 3), weighting=np.arange(1.0, 7).reshape(2, 3)),
        odl.uniform_discr([-0.5, 0], [1.5, 1], (4, 3), weighting=np.arange(1.0, 13).reshape(4, 3)))))
    # finite differences: every method x pad mode, negative axis, out given / not given
    from odl.discr.diff_ops import _SUPPORTED_DIFF_METHODS, _SUPPORTED_PAD_MODES
    for meth in _SUPPORTED_DIFF_METHODS:
        for pm in _SUPPORTED_PAD_MODES:
            kw = {'method': meth, 'pad_mode': pm}
            if pm == 'constant':
                kw['pad_const'] = 1.5
            out.append(('PartialDerivative', '{}-{}'.format(meth, pm),
                        lambda kw=kw: odl.PartialDerivative(d2, -1, **kw)))
            out.append(('Gradient', '{}-{}'.format(meth, pm), lambda kw=kw: odl.Gradient(d6, **kw)))
            out.append(('Divergence', '{}-{}'.format(meth, pm),
                        lambda kw=kw: odl.Divergence(range=d2, **kw)))
    # Fourier / wavelet variants
    dc = odl.uniform_discr(0, 1, 8, dtype='complex128')
    dr = odl.uniform_discr(-1, 1, 8)
    for impl in ('numpy', 'pyfftw'):
        out.append(('DiscreteFourierTransform', impl, lambda impl=impl:
                    odl.trafos.DiscreteFourierTransform(dc, impl=impl)))
        out.append(('DiscreteFourierTransform', impl + '-half', lambda impl=impl:
                    odl.trafos.DiscreteFourierTransform(dr, halfcomplex=True, impl=impl)))
        out.append(('DiscreteFourierTransform', impl + '-plus', lambda impl=impl:
                    odl.trafos.DiscreteFourierTransform(dc, sign='+', impl=impl)))
        out.append(('DiscreteFourierTransform', impl + '-2d-axes', lambda impl=impl:
                    odl.trafos.DiscreteFourierTransform(
                        odl.uniform_discr([0, 0], [1, 1], (4, 6), dtype='complex64'), axes=(1,),
                        impl=impl)))
        out.append(('FourierTransform', impl, lambda impl=impl:
                    odl.trafos.FourierTransform(dc, impl=impl)))
        out.append(('FourierTransform', impl + '-real-half', lambda impl=impl:
                    odl.trafos.FourierTransform(dr, halfcomplex=True, impl=impl)))
        out.append(('FourierTransform', impl + '-shift', lambda impl=impl:
                    odl.trafos.FourierTransform(dc, shift=False, sign='+', impl=impl)))
    for size, wav, pm, nl in ((8, 'haar', 'constant', 2), (7, 'db2', 'symmetric', 1),
                              (9, 'haar', 'periodic', 2), (6, 'db2', 'order0', None)):
        out.append(('WaveletTransform', '{}-{}-{}'.format(size, wav, pm),
                    lambda size=size, wav=wav, pm=pm, nl=nl: odl.trafos.WaveletTransform(
                        odl.uniform_discr(0, 1, size), wav, nlevels=nl, pad_mode=pm)))
    out.append(('WaveletTransform', '2d-axes', lambda: odl.trafos.WaveletTransform(
        odl.uniform_discr([0, 0], [1, 1], (5, 8)), 'haar', nlevels=1, axes=(1,))))
    # tensor operators with weights / complex fields
    vf = odl.ProductSpace(d2, 2)
    vfc = odl.ProductSpace(odl.uniform_discr([0, 0], [1, 1], (4, 3), dtype='complex128'), 2)
    out.append(('PointwiseInner', 'complex', lambda: odl.PointwiseInner(vfc, vfc.one())))
    out.append(('PointwiseInner', 'complex-w', lambda: odl.PointwiseInner(vfc, vfc.one(),
                                                                           weighting=[1, 2])))
    out.append(('PointwiseSum', 'w', lambda: odl.PointwiseSum(vf, weighting=[0.5, 2])))
    out.append(('PointwiseNorm', 'complex', lambda: odl.PointwiseNorm(vfc)))
    out.append(('PointwiseNorm', 'inf-w', lambda: odl.PointwiseNorm(vf, float('inf'),
                                                                    weighting=[1, 2])))
    out.append(('WeightedSumSamplingOperator', 'complex', lambda: odl.WeightedSumSamplingOperator(
        odl.uniform_discr([0, 0], [1, 1], (4, 3), dtype='complex128'), [[0, 1, 1], [1, 2, 2]])))
    out.append(('SamplingOperator', 'complex-int', lambda: odl.SamplingOperator(
        odl.uniform_discr([0, 0], [1, 1], (4, 3), dtype='complex128'), [[0, 1], [1, 2]],
        variant='integrate')))
    out.append(('MatrixOperator', 'complex', lambda: odl.MatrixOperator(
        np.array([[1, 1j], [0, 2]]))))
    out.append(('MatrixOperator', 'float32', lambda: odl.MatrixOperator(
        np.array([[1, 2], [0, 2.5]], dtype='float32'))))
    out.append(('ComplexModulus', 'r-deriv-adj', lambda: odl.ComplexModulus(r3).derivative(v3).adjoint))
    out.append(('ComplexModulusSquared', 'r-deriv-adj',
                lambda: odl.ComplexModulusSquared(r3).derivative(v3).adjoint))
    out.append(('ComplexModulus', 'c-deriv-adj',
                lambda: odl.ComplexModulus(c3).derivative(c3.element([1 + 1j, 2, -1j])).adjoint))
    # deformations: interpolation schemes
    for interp in ('nearest', 'linear'):
        out.append(('LinDeformFixedDisp', interp, lambda interp=interp: odl.deform.LinDeformFixedDisp(
            odl.ProductSpace(d6, 1).element([np.linspace(-0.1, 0.1, 6)]), interp=interp)))
        out.append(('LinDeformFixedTempl', interp, lambda interp=interp:
                    odl.deform.LinDeformFixedTempl(d6.element(np.arange(6.0)), interp=interp)))
        out.append(('Resampling', interp, lambda interp=interp: odl.Resampling(
            d2, odl.uniform_discr([0, 0], [1, 1], (6, 2)), interp=interp)))
    # functionals: option branches
    g3 = r3.element([1, 2, 0.5])
    out += [
        ('Huber', 'gamma0', lambda: S.Huber(r3, 0)),
        ('KullbackLeibler', 'noprior', lambda: S.KullbackLeibler(r3)),
        ('KullbackLeiblerConvexConj', 'noprior', lambda: S.KullbackLeibler(r3).convex_conj),
        ('KullbackLeiblerCrossEntropy', 'noprior', lambda: S.KullbackLeiblerCrossEntropy(r3)),
        ('KullbackLeiblerCrossEntropyConvexConj', 'noprior',
         lambda: S.KullbackLeiblerCrossEntropy(r3).convex_conj),
        ('LpNorm', 'inf', lambda: S.LpNorm(r3, float('inf'))), ('LpNorm', '0', lambda: S.LpNorm(r3, 0)),
        ('LpNorm', '1', lambda: S.LpNorm(r3, 1)), ('LpNorm', '2', lambda: S.LpNorm(r3, 2)),
        ('IndicatorBox', 'lower', lambda: S.IndicatorBox(r3, lower=-1)),
        ('IndicatorBox', 'upper', lambda: S.IndicatorBox(r3, upper=1)),
        ('IndicatorBox', 'none', lambda: S.IndicatorBox(r3)),
        ('QuadraticForm', 'vec', lambda: S.QuadraticForm(vector=v3)),
        ('QuadraticForm', 'op', lambda: S.QuadraticForm(operator=odl.ScalingOperator(r3, 2.0))),
        ('NumericalDerivative', 'backward', lambda: S.NumericalDerivative(
            odl.PowerOperator(r3, 2), v3, method='backward')),
        ('NumericalDerivative', 'central', lambda: S.NumericalDerivative(
            odl.PowerOperator(r3, 2), v3, method='central')),
        ('NumericalGradient', 'backward', lambda: S.NumericalGradient(S.L2NormSquared(r3),
                                                                       method='backward')),
        ('NumericalGradient', 'central', lambda: S.NumericalGradient(S.L2NormSquared(r3),
                                                                      method='central')),
        ('IndicatorSimplex', 'w', lambda: S.IndicatorSimplex(odl.rn(3, weighting=[1.0, 2, 0.5]), 2.0)),
        ('IndicatorSumConstraint', 'w',
         lambda: S.IndicatorSumConstraint(odl.rn(3, weighting=[1.0, 2, 0.5]), 2.0)),
    ]
    ms = odl.ProductSpace(odl.ProductSpace(d6, 2), 2)
    for oe, se in ((1, 1), (1, 2), (1, float('inf')), (2, 2), (float('inf'), float('inf'))):
        out.append(('NuclearNorm', '{}-{}'.format(oe, se), lambda oe=oe, se=se: S.NuclearNorm(
            ms, outer_exp=oe, singular_vector_exp=se)))
    # proximal factories with every option combination: the plans of the C10 harness
    try:
        from harness import c10
        for k, plan in enumerate(c10.plans()):
            for kind in plan.kinds[:3]:
                def mk(plan=plan, kind=kind, k=k):
                    return c10.build(plan, kind, 7919 * (k + 1), 'gen')['P']
                out.append(('Proximal', '{}-{}-{}'.format(plan.mid, plan.flags or '-', kind), mk))
    except Exception:  # the C10 harness is an optional source of instances
        pass
    return out


def argform_instances():
    """ARGUMENT-FORM variants: one instance per spelling of every constructor option that takes
    an index / axis / shape / sequence, each with the instance built from the canonical spelling.
    Returns [(class, 'option=spelling', thunk, canonical thunk)]."""
    import odl
    S = odl.solvers
    out = []
    # MatrixOperator: axis negative and positive, ndim 2-3, square and non-square
    for shape in ((3, 3), (2, 3), (3, 2), (2, 3, 2), (3, 3, 3)):
        nd = len(shape)
        for axis in list(range(nd)) + [-k for k in range(1, nd + 1)]:
            for rows in sorted({shape[axis], shape[axis] + 1}):
                mat = (np.arange(rows * shape[axis], dtype=float).reshape(rows, shape[axis]) % 5
                       - 2.0) / 2
                out.append(('MatrixOperator', 'axis={}@{}r{}'.format(axis, 'x'.join(map(str, shape)),
                                                                     rows),
                            lambda mat=mat, shape=shape, axis=axis:
                            odl.MatrixOperator(mat, domain=odl.rn(shape), axis=axis),
                            lambda mat=mat, shape=shape, axis=axis, nd=nd:
                            odl.MatrixOperator(mat, domain=odl.rn(shape), axis=axis % nd)))
    d2 = odl.uniform_discr([0, 0], [1, 1], (4, 3))
    d3 = odl.uniform_discr([0, 0, 0], [1, 1, 1], (2, 3, 2))
    for sp, nd, nm in ((d2, 2, '2d'), (d3, 3, '3d')):
        for axis in range(-nd, nd):
            out.append(('PartialDerivative', 'axis={}@{}'.format(axis, nm),
                        lambda sp=sp, axis=axis: odl.PartialDerivative(sp, axis),
                        lambda sp=sp, axis=axis, nd=nd: odl.PartialDerivative(sp, axis % nd)))
    ps3 = odl.ProductSpace(odl.rn(3), 3)
    for spell, canon in ((1, 1), (-1, 2), ([0, 2], [0, 2]), ((0, 2), [0, 2]),
                         (slice(0, 2), [0, 1]), (slice(None, None, 2), [0, 2]), ([-1, 0], [2, 0])):
        for cls in (odl.ComponentProjection, odl.ComponentProjectionAdjoint):
            out.append((cls.__name__, 'index={!r}'.format(spell).replace(' ', ''),
                        lambda cls=cls, spell=spell: cls(ps3, spell),
                        lambda cls=cls, canon=canon: cls(ps3, canon)))
    idx = [[0, 1, 3], [1, 2, 0]]
    forms = (('list', idx, idx), ('array', np.array(idx), idx),
             ('tuple', tuple(tuple(r) for r in idx), idx),
             ('negative', [[-1, -4, 1], [-1, 0, -2]], [[3, 0, 1], [2, 0, 1]]),
             ('repeated', [[1, 1, 1], [2, 2, 0]], [[1, 1, 1], [2, 2, 0]]))
    for fname, spell, canon in forms:
        out.append(('SamplingOperator', 'sampling_points=' + fname,
                    lambda spell=spell: odl.SamplingOperator(d2, spell),
                    lambda canon=canon: odl.SamplingOperator(d2, canon)))
        out.append(('WeightedSumSamplingOperator', 'sampling_points=' + fname,
                    lambda spell=spell: odl.WeightedSumSamplingOperator(d2, spell),
                    lambda canon=canon: odl.WeightedSumSamplingOperator(d2, canon)))
    d1 = odl.uniform_discr(0, 1, 5)
    out.append(('SamplingOperator', 'sampling_points=1d-flat',
                lambda: odl.SamplingOperator(d1, [0, 2, 4]),
                lambda: odl.SamplingOperator(d1, [[0, 2, 4]])))
    for order in ('C', 'F'):
        out.append(('FlatteningOperator', 'order=' + order,
                    lambda order=order: odl.FlatteningOperator(odl.rn((2, 3)), order=order),
                    lambda order=order: odl.FlatteningOperator(odl.rn((2, 3)), order=order)))
    dc2 = odl.uniform_discr([0, 0], [1, 1], (4, 6), dtype='complex128')
    for spell, canon in ((1, (1,)), (-1, (1,)), ((1,), (1,)), ((-1,), (1,)), ((0, 1), (0, 1)),
                         ((-2, -1), (0, 1)), ([0], (0,)), (None, (0, 1))):
        tag = 'axes={!r}'.format(spell).replace(' ', '')
        out.append(('DiscreteFourierTransform', tag,
                    lambda spell=spell: odl.trafos.DiscreteFourierTransform(dc2, axes=spell,
                                                                            impl='numpy'),
                    lambda canon=canon: odl.trafos.DiscreteFourierTransform(dc2, axes=canon,
                                                                            impl='numpy')))
        out.append(('FourierTransform', tag,
                    lambda spell=spell: odl.trafos.FourierTransform(dc2, axes=spell, impl='numpy'),
                    lambda canon=canon: odl.trafos.FourierTransform(dc2, axes=canon, impl='numpy')))
    dw = odl.uniform_discr([0, 0], [1, 1], (4, 8))
    for spell, canon in ((1, (1,)), (-1, (1,)), ((1,), (1,)), ((-1,), (1,)), ((0, 1), (0, 1)),
                         (None, (0, 1))):
        out.append(('WaveletTransform', 'axes={!r}'.format(spell).replace(' ', ''),
                    lambda spell=spell: odl.trafos.WaveletTransform(dw, 'haar', nlevels=1, axes=spell),
                    lambda canon=canon: odl.trafos.WaveletTransform(dw, 'haar', nlevels=1,
                                                                    axes=canon)))
    d6 = odl.uniform_discr(0, 1, 6)
    for spell in (2, (2,), [2], np.array([2])):
        out.append(('ResizingOperator', 'offset={!r}'.format(spell).replace(' ', '')[:24],
                    lambda spell=spell: odl.ResizingOperator(d6, ran_shp=(10,), offset=spell),
                    lambda: odl.ResizingOperator(d6, ran_shp=(10,), offset=(2,))))
    for spell in (10, (10,), [10]):
        out.append(('ResizingOperator', 'ran_shp={!r}'.format(spell).replace(' ', ''),
                    lambda spell=spell: odl.ResizingOperator(d6, ran_shp=spell),
                    lambda: odl.ResizingOperator(d6, ran_shp=(10,))))
    for spell in ((2, 1), [2, 1], np.array([2, 1])):
        out.append(('ResizingOperator', 'offset2d={!r}'.format(spell).replace(' ', '')[:24],
                    lambda spell=spell: odl.ResizingOperator(d2, ran_shp=(8, 5), offset=spell),
                    lambda: odl.ResizingOperator(d2, ran_shp=(8, 5), offset=(2, 1))))
    # sequence arguments of proximal factories / functionals
    r3 = odl.rn(3)
    from odl.solvers.nonsmooth import proximal_operators as po
    for fname, lo, up in (('list', [-1.0, -0.5, 0.0], [1.0, 2.0, 0.5]),
                          ('array', np.array([-1.0, -0.5, 0.0]), np.array([1.0, 2.0, 0.5])),
                          ('element', r3.element([-1.0, -0.5, 0.0]), r3.element([1.0, 2.0, 0.5]))):
        out.append(('ProxOpBoxConstraint', 'bounds=' + fname,
                    lambda lo=lo, up=up: po.proximal_box_constraint(r3, lo, up)(1.0),
                    lambda: po.proximal_box_constraint(r3, r3.element([-1.0, -0.5, 0.0]),
                                                       r3.element([1.0, 2.0, 0.5]))(1.0)))
    ps = odl.ProductSpace(r3, 2)
    for fname, sig in (('list', [0.5, 2.0]), ('tuple', (0.5, 2.0)), ('array', np.array([0.5, 2.0]))):
        out.append(('DiagonalOperator', 'sigma=' + fname,
                    lambda sig=sig: S.SeparableSum(S.L1Norm(r3), S.L2NormSquared(r3)).proximal(sig),
                    lambda: S.SeparableSum(S.L1Norm(r3), S.L2NormSquared(r3)).proximal([0.5, 2.0])))
        out.append(('DiagonalOperator', 'combine_sigma=' + fname,
                    lambda sig=sig: po.combine_proximals(po.proximal_l1(r3),
                                                         po.proximal_l2_squared(r3))(sig),
                    lambda: po.combine_proximals(po.proximal_l1(r3),
                                                 po.proximal_l2_squared(r3))([0.5, 2.0])))
    return out


def run_argforms(ctx, deep=False):
    """Every spelling: the zoo oracle (ip == oop, x untouched, result in range, ownership ...)
    and the same values as the instance built from the canonical spelling, on recipe inputs."""
    refused = {}
    for cname, opt, mk, mkc in argform_instances():
        label = '{}[{}]'.format(cname, opt)
        stratum = 'argform/{}/{}'.format(cname, opt)
        ctx.hit(stratum)
        try:
            canon = mkc()
        except Exception as e:  # noqa
            refused[label + ' (canonical)'] = '{}: {}'.format(type(e).__name__, str(e)[:70])
            continue
        try:
            op = mk()
        except Exception as e:  # noqa: the constructor refuses this spelling
            refused[label] = '{}: {}'.format(type(e).__name__, str(e)[:70])
            continue
        case = {'kind': 'argform', 'class': cname, 'option': opt}
        key = 'argform {} {}'.format(cname, opt)
        if op.domain != canon.domain or op.range != canon.range:
            ctx.violation(key + ' check=same-spaces-as-canonical',
                          'domain / range differ from the canonical spelling: {} -> {} vs {} -> {}'
                          .format(op.domain, op.range, canon.domain, canon.range), case)
            continue
        for k, x in enumerate(recipe_inputs(op.domain, label)[:4]):
            want = safe_call(canon, x.copy() if hasattr(x, 'copy') else x)
            if want.status != 'ok':
                continue
            got = safe_call(op, x.copy() if hasattr(x, 'copy') else x)
            if got.status != 'ok' or not _same(got.val, want.val, 1e-12):
                ctx.violation(key + ' check=oop-equals-canonical',
                              'op(x) = {} but the canonical spelling gives {}'.format(
                                  got.val[:6] if got.status == 'ok' else got.status, want.val[:6]),
                              dict(case, recipe=k))
            if not is_field(op.range):
                y = filled(op.range, 'nan', ctx.rng)
                o = safe_call(op, x.copy() if hasattr(x, 'copy') else x, out=y)
                if o.status != 'ok' or not _same(snapshot(y), want.val, 1e-12):
                    ctx.violation(key + ' check=in-place-equals-canonical',
                                  'op(x, out=y) = {} but the canonical spelling gives op(x) = {}'
                                  .format(snapshot(y)[:6] if o.status == 'ok' else o.status,
                                          want.val[:6]), dict(case, recipe=k))
        nt, ev = check_instance(ctx, label, op, ctx.rng, deep)
        ctx.case(('argform', label) if nt else None)
    ctx.extra['argform_spellings_refused_by_the_constructor'] = refused


def derivation_point(label, op):
    """Deterministic point for `derivative(x)` (depends on the label only, so that a derived
    operator can be rebuilt exactly by `replay`)."""
    import hashlib
    import random
    r = random.Random(hashlib.sha256(label.encode()).digest())
    return rand_elem(op.domain, r, True)


def reach(label, op, levels):
    """(label, operator) for the instance and the operators derived from it, `levels` deep."""
    out = [(label, op, 0)]
    frontier = [(label, op)]
    for lev in range(1, levels + 1):
        nxt = []
        for lab, o in frontier:
            try:
                xs = derivation_point(lab, o)
            except Exception:
                continue
            for attr, d in derived_ops(o, xs):
                dl = '{}.{}'.format(lab, attr)
                out.append((dl, d, lev))
                nxt.append((dl, d))
        frontier = nxt
    return out


MODELLED = ('OperatorSum', 'OperatorVectorSum', 'OperatorComp', 'OperatorPointwiseProduct',
            'OperatorLeftScalarMult', 'OperatorRightScalarMult', 'OperatorLeftVectorMult',
            'OperatorRightVectorMult', 'FunctionalLeftVectorMult', 'ProductSpaceOperator',
            'BroadcastOperator', 'ReductionOperator', 'DiagonalOperator', 'ComponentProjection',
            'ComponentProjectionAdjoint', 'ScalingOperator', 'IdentityOperator', 'ConstantOperator',
            'MultiplyOperator', 'PowerOperator', 'ZeroOperator', 'InnerProductOperator')

# round 4 (leaf stream): modelled on every space they accept (ImagPart / ComplexModulus are
# modelled on real spaces only and stay in the opaque list)
MODELLED_R4 = ('LinCombOperator', 'NormOperator', 'DistOperator')


def all_instances(ctx):
    for name, vname, thunk in zoo_instances(ctx):
        yield name, vname, thunk
    for name, vname, thunk in extra_instances():
        yield name, vname, thunk
    for name, vname, thunk in option_instances():
        yield name, 'opt:' + vname, thunk


def run_zoo(ctx, deep=False):
    rng = ctx.rng
    not_constructible = {}
    evaluated_cls, never_cls, n_inst, n_never = set(), set(), 0, 0
    for name, vname, thunk in all_instances(ctx):
        label = '{}[{}]'.format(name, vname)
        try:
            with warnings.catch_warnings():
                warnings.simplefilter('ignore')
                op = thunk()
        except Exception as e:  # missing back-end or the like
            not_constructible[label] = '{}: {}'.format(type(e).__name__, str(e)[:80])
            continue
        for lab, o, lev in reach(label, op, 2):
            cname = type(o).__name__
            if lev == 2 and not deep and cname in evaluated_cls:
                continue    # quick tier: second level only for classes not seen yet
            nt, ev = check_instance(ctx, lab, o, rng, deep)
            n_inst += 1
            ctx.case(('zoo', lab) if nt else None)
            ctx.hit(('zoo/' if lev == 0 else 'zoo-derived{}/'.format(lev)) + cname)
            if ev:
                evaluated_cls.add(cname)
            else:
                n_never += 1
                never_cls.add(cname)
    ctx.extra['not_constructible'] = not_constructible
    ctx.extra['instances_checked'] = n_inst
    ctx.extra['instances_never_evaluated'] = n_never
    ctx.extra['classes_tested'] = sorted(evaluated_cls)   # at least one successful op(x)
    ctx.extra['classes_never_evaluated'] = sorted(never_cls - evaluated_cls)
    ctx.extra['modelled_classes'] = ['Operator.__call__/__new__ dispatch'] + list(MODELLED) + [
        'ComplexModulusSquared(real)', 'RealPart(real)'] + list(MODELLED_R4) + [
        'ImagPart(real)', 'ComplexModulus(real)',
        'all proximal classes of proximal_operators.py (as program leaves)']
    ctx.extra['opaque_leaf_classes'] = sorted(t for t in evaluated_cls
                                              if t not in MODELLED and t not in MODELLED_R4)


# ---------------------------------------------------------------------------
# dispatch stream: synthetic operators vs the model of __call__

def make_synth(sig, ret, raw, fn, space, junk=0):
    import odl
    rng_space = odl.RealNumbers() if fn else space

    def oop_body(x):
        r = 2 * x + 1
        if junk:
            return 'junk'          # cannot be cast to the range
        if fn:
            return float(r[0])
        return r.asarray() if raw else r

    def ip_body(x, out):
        out.lincomb(2, x)
        out += 1
        return {'none': None, 'out': out, 'other': x.copy()}[ret]

    if sig == 'oop':
        class SynthOop(odl.Operator):
            def _call(self, x):
                return oop_body(x)
        cls = SynthOop
    elif sig == 'ip':
        class SynthIp(odl.Operator):
            def _call(self, x, out):
                return ip_body(x, out)
        cls = SynthIp
    else:
        class SynthDual(odl.Operator):
            def _call(self, x, out=None):
                if out is None:
                    return oop_body(x)
                return ip_body(x, out)
        cls = SynthDual
    return cls(space, rng_space)


def dispatch_cases(ctx):
    import odl
    rng = ctx.rng
    for sig in ('oop', 'ip', 'dual'):
        for ret in ('none', 'out', 'other'):
            for raw in (0, 1):
                for fn in (0, 1):
                    if fn and sig == 'ip':
                        continue  # rejected by Operator.__init__ (mandatory out for a functional)
                    if fn and raw:
                        continue
                    for xk in ('in', 'cast', 'nd', 'bad'):
                        for ok in ('none', 'in', 'foreign'):
                            n = rng.choice([1, 2, 3])
                            yield dict(sig=sig, ret=ret, raw=raw, fn=fn, x=xk, out=ok, n=n, junk=0,
                                       xv=[rng.randint(-16, 16) / 8.0 for _ in range(n)],
                                       yv=[rng.choice([7.0, -3.5, 100.0]) for _ in range(n)])
    # an out-of-place body whose result cannot be cast to the range
    for sig in ('oop', 'dual'):
        for ok in ('none', 'in'):
            n = rng.choice([1, 2, 3])
            yield dict(sig=sig, ret='none', raw=0, fn=0, x='in', out=ok, n=n, junk=1,
                       xv=[rng.randint(-16, 16) / 8.0 for _ in range(n)],
                       yv=[7.0] * n)


def run_dispatch(ctx, cases=None, model=True):
    import odl
    lines, pend = [], []
    for c in (dispatch_cases(ctx) if cases is None else cases):
        space = odl.rn(c['n'])
        try:
            op = make_synth(c['sig'], c['ret'], c['raw'], c['fn'], space, c.get('junk', 0))
        except Exception as e:  # noqa
            ctx.disagree(c, 'cannot construct synthetic operator: ' + str(e)[:100], 'n/a',
                         stream='dispatch')
            continue
        xel = space.element(c['xv'])
        xarr = np.array(c['xv'], dtype=float)
        x = {'in': xel, 'cast': list(c['xv']), 'nd': xarr, 'bad': 'not-an-element'}[c['x']]
        if c['fn']:
            yel = 0.0
            foreign = odl.rn(17).one()
        else:
            yel = space.element(c['yv'])
            foreign = odl.rn(17).one()
        kw = {}
        if c['out'] == 'in':
            kw['out'] = yel
        elif c['out'] == 'foreign':
            kw['out'] = foreign
        o = safe_call(op, x, **kw)
        if o.status == 'ok':
            isout = int(c['out'] == 'in' and o.obj is yel)
            impl = ('ok', isout, None if c['fn'] else o.val,
                    snapshot(xel), None if c['fn'] else snapshot(yel))
        else:
            impl = (':'.join(o.status.split(':')[:2]),)
        # the oracle part: rejection kinds and priority as the property states them
        exp = None
        if c['x'] == 'bad':
            exp = 'err:domain'
        elif c['out'] == 'foreign':
            exp = 'err:range'
        elif c['fn'] and c['out'] == 'in':
            exp = 'err:type'
        if exp is not None and impl[0] != exp:
            ctx.violation('dispatch sig={sig} fn={fn} x={x} out={out}'.format(**c),
                          'expected {} got {}'.format(exp, o.status), dict(c, kind='dispatch'))
        if c['x'] == 'nd' and not bitsame(xarr, np.array(c['xv'], dtype=float)):
            ctx.violation('dispatch sig={sig} fn={fn} x={x} out={out}'.format(**c),
                          'the ndarray passed as x was modified', dict(c, kind='dispatch'))
        if exp is None and c['ret'] != 'other' and not c.get('junk') and impl[0] != 'ok':
            ctx.violation('dispatch sig={sig} fn={fn} x={x} out={out}'.format(**c),
                          'well-formed call failed: {}'.format(o.status), dict(c, kind='dispatch'))
        if impl[0] == 'ok' and not c['fn']:
            want = 2 * np.array(c['xv']) + 1
            if not same(impl[2], want) or (c['x'] == 'in' and not bitsame(impl[3], np.array(c['xv']))):
                ctx.violation('dispatch sig={sig} fn={fn} x={x} out={out}'.format(**c),
                              'value {} expected {} / x after {}'.format(impl[2], want, impl[3]),
                              dict(c, kind='dispatch'))
            if c['out'] == 'in' and not impl[1]:
                ctx.violation('dispatch sig={sig} fn={fn} x={x} out={out}'.format(**c),
                              'in-place call did not return out', dict(c, kind='dispatch'))
        # an ndarray is wrapped, not copied, by domain.element; the model's `castable` allocates
        # a new object: observationally the same as long as no body writes its input
        lines.append('dispatch sig={} ret={} raw={} fn={} junk={} x={} out={} n={} xv={} yv={}'
                     .format(c['sig'], c['ret'], c['raw'], c['fn'], c.get('junk', 0),
                             'cast' if c['x'] == 'nd' else c['x'], c['out'], c['n'], bl(c['xv']),
                             bl(c['yv'])))
        pend.append((c, impl))
    if not model:
        return
    outs = core.run_driver('C03', lines)
    for (c, impl), ans in zip(pend, outs):
        nontrivial = impl[0] == 'ok'
        ctx.case(('dispatch', c['sig'], c['ret'], c['raw'], c['fn'], c['x'], c['out'],
                  c.get('junk', 0)) if nontrivial else None,
                 sample={'case': {k: c[k] for k in ('sig', 'ret', 'raw', 'fn', 'x', 'out')},
                         'impl': impl[0], 'model': ans[:40]} if len(ctx.samples) < 4 else None)
        ctx.hit('dispatch/{}/{}'.format(c['sig'], ans.split()[0]))
        if impl[0] != 'ok':
            ctx.err(impl[0])
            if ans != impl[0]:
                ctx.disagree(c, impl[0], ans, stream='dispatch')
            continue
        if not ans.startswith('ok '):
            ctx.disagree(c, 'ok', ans, stream='dispatch')
            continue
        f = dict(t.split('=', 1) for t in ans.split()[1:])
        if int(f['isout']) != impl[1]:
            ctx.disagree(c, 'isout={}'.format(impl[1]), ans[:60], stream='dispatch')
            continue
        if not c['fn']:
            if not bitsame(parse_bl(f['val']), np.asarray(impl[2], dtype=float)):
                ctx.disagree(c, 'val={}'.format(impl[2]), 'val={}'.format(parse_bl(f['val'])),
                             stream='dispatch')
            if c['x'] == 'in' and not bitsame(parse_bl(f['x']), np.asarray(impl[3], dtype=float)):
                ctx.disagree(c, 'x after={}'.format(impl[3]), 'x after={}'.format(parse_bl(f['x'])),
                             stream='dispatch')
            if c['out'] != 'in' and not bitsame(parse_bl(f['y']), np.asarray(impl[4], dtype=float)):
                ctx.disagree(c, 'y after={}'.format(impl[4]), 'y after={}'.format(parse_bl(f['y'])),
                             stream='dispatch')


# ---------------------------------------------------------------------------
# real operators from the wire tokens (the same tokens the Lean driver parses): a recorded
# tree / block matrix can be rebuilt exactly by `replay`

def synth_accum(space, c, junk=0.0):
    """Harness-defined operator that obeys the call protocol but is deliberately NOT alias safe:
    `_call(x, out)` first overwrites `out` and only then accumulates from `x` (legal: the
    protocol promises nothing for an aliased call of a leaf). domain == range, so every wrapper
    could try to reuse `out` (or `x`) as its temporary."""
    import odl

    class SynthAccum(odl.Operator):
        def _call(self, x, out):
            out[:] = junk
            out.lincomb(1, out, c, x)
            if junk:
                out -= junk
    return SynthAccum(space, space, linear=False)


def unvec(tok):
    return np.array([unbits(t) for t in tok.split('|')], dtype=float)


def real_from_tokens(toks, data):
    """Returns (operator, remaining tokens)."""
    import odl
    from odl.solvers.nonsmooth import proximal_operators as po
    space = data['space']
    tok, rest = toks[0], toks[1:]
    parts = tok.split(':')
    k = parts[0]

    def two(cls):
        a, r1 = real_from_tokens(rest, data)
        b, r2 = real_from_tokens(r1, data)
        return cls(a, b), r2

    def one(mk):
        a, r1 = real_from_tokens(rest, data)
        return mk(a), r1
    if k == 'S':
        return two(odl.OperatorSum)
    if k == 'C':
        return two(odl.OperatorComp)
    if k == 'P':
        return two(odl.OperatorPointwiseProduct)
    if k == 'V':
        return one(lambda a: odl.OperatorVectorSum(a, space.element(unvec(parts[1]))))
    if k == 'lv':
        return one(lambda a: odl.OperatorLeftVectorMult(a, space.element(unvec(parts[1]))))
    if k == 'rv':
        return one(lambda a: odl.OperatorRightVectorMult(a, space.element(unvec(parts[1]))))
    if k == 'fl':
        return one(lambda a: odl.FunctionalLeftVectorMult(a, space.element(unvec(parts[1]))))
    if k == 'l':
        return one(lambda a: odl.OperatorLeftScalarMult(a, unbits(parts[1])))
    if k == 'r':
        return one(lambda a: odl.OperatorRightScalarMult(a, unbits(parts[1])))
    if k == 'scal':
        c = unbits(parts[1])
        return (odl.IdentityOperator(space) if c == 1.0 else odl.ScalingOperator(space, c)), rest
    if k == 'const':
        return odl.ConstantOperator(space.element(unvec(parts[1]))), rest
    if k == 'mult':
        return odl.MultiplyOperator(space.element(unvec(parts[1]))), rest
    if k == 'pow':
        return odl.PowerOperator(space, unbits(parts[1])), rest
    if k == 'accum':
        return synth_accum(space, unbits(parts[1])), rest
    if k == 'zero':
        return odl.ZeroOperator(space), rest
    if k == 'modsq':
        return odl.ComplexModulusSquared(space), rest
    if k == 'real':
        return odl.RealPart(space), rest
    if k == 'inner':
        return odl.InnerProductOperator(space.element(unvec(parts[1]))), rest
    if k == 'fmult':
        return odl.MultiplyOperator(space.element(unvec(parts[1])), domain=odl.RealNumbers()), rest
    if k == 'prox':
        name, fl = parts[1], parts[2]
        lam, sigma = data['lam'], data['sigma']
        g = space.element(np.array(data['g'], dtype=float))
        sg = space.element(np.array(data['sig'], dtype=float))
        if name == 'l1':
            return po.proximal_l1(space, lam=lam, g=g if fl[1] == '1' else None)(
                sg if fl[0] == '1' else sigma), rest
        if name == 'ccL1':
            return po.proximal_convex_conj_l1(space, lam=lam)(sigma), rest
        if name == 'l2Sq':
            return po.proximal_l2_squared(space, lam=lam, g=g)(sg if fl[0] == '1' else sigma), rest
        if name == 'ccL2Sq':
            return po.proximal_convex_conj_l2_squared(
                space, lam=lam, g=g if fl[1] == '1' else None)(sg if fl[0] == '1' else sigma), rest
        if name == 'box':
            return po.proximal_box_constraint(
                space, space.element(np.array(data['lo'], dtype=float)),
                space.element(np.array(data['up'], dtype=float)))(sigma), rest
        if name == 'ccKL':
            return po.proximal_convex_conj_kl(space, lam=lam, g=g if fl == '1' else None)(sigma), rest
        if name == 'huber':
            return po.proximal_huber(space, data['gamma'])(sigma), rest
        if name == 'linfty':
            return po.proximal_linfty(space)(sigma), rest
        if name == 'ccLinfty':
            return po.proximal_convex_conj_linfty(space)(sigma), rest
        if name == 'sumc':
            return odl.solvers.IndicatorSumConstraint(space, data['radius']).proximal(sigma), rest
        if name == 'simplex':
            return odl.solvers.IndicatorSimplex(space, data['radius']).proximal(sigma), rest
    raise KeyError(tok)


def data_to_json(data):
    return {k: (v.tolist() if isinstance(v, np.ndarray) else v) for k, v in data.items()
            if k != 'space'}


def data_from_json(d, n):
    import odl
    out = {k: (np.array(v, dtype=float) if isinstance(v, list) else v) for k, v in d.items()}
    out['space'] = odl.rn(n)
    return out


# ---------------------------------------------------------------------------
# tree stream

def rand_tree(rng, depth, n, data):
    """Returns (token list, thunk building the real operator, shape string)."""
    import odl
    from odl.solvers.nonsmooth import proximal_operators as po
    space = data['space']

    def vec():
        return np.array([rng.choice([-2.0, -1.0, -0.5, 0.5, 1.0, 2.0, 0.25]) for _ in range(n)])

    def leaf():
        k = rng.choice(['scal', 'scal', 'const', 'mult', 'pow', 'zero', 'modsq', 'prox', 'prox',
                        'prox', 'id', 'real', 'accum', 'accum', 'accum'])
        if k == 'accum':
            c = rng.choice([2.0, -1.0, 0.5, 3.0])
            return ['accum:{}'.format(bits(c))], (lambda: synth_accum(space, c)), 'accum'
        if k == 'real':
            # RealPart on a real space returns its argument itself
            return ['real'], (lambda: odl.RealPart(space)), 'real'
        if k == 'scal':
            c = rng.choice([2.0, -1.0, 0.5, -0.25, 0.0])
            return ['scal:{}'.format(bits(c))], (lambda: odl.ScalingOperator(space, c)), 'scal'
        if k == 'id':
            return ['scal:{}'.format(bits(1.0))], (lambda: odl.IdentityOperator(space)), 'id'
        if k == 'const':
            v = vec()
            return ['const:' + bl(v, '|')], (lambda: odl.ConstantOperator(space.element(v.copy()))), 'const'
        if k == 'mult':
            v = vec()
            return ['mult:' + bl(v, '|')], (lambda: odl.MultiplyOperator(space.element(v.copy()))), 'mult'
        if k == 'pow':
            p = rng.choice([2.0, 3.0])
            return ['pow:{}'.format(bits(p))], (lambda: odl.PowerOperator(space, p)), 'pow'
        if k == 'zero':
            return ['zero'], (lambda: odl.ZeroOperator(space)), 'zero'
        if k == 'modsq':
            return ['modsq'], (lambda: odl.ComplexModulusSquared(space)), 'modsq'
        pid = rng.choice(['l1:00', 'l1:01', 'l1:10', 'l1:11', 'ccL1:0', 'l2Sq:01', 'l2Sq:11',
                          'ccL2Sq:11', 'ccL2Sq:00', 'box:11', 'ccKL:1', 'ccKL:0', 'huber:',
                          'linfty:', 'ccLinfty:', 'sumc:', 'simplex:'])
        name, fl = pid.split(':')
        lam, sigma = data['lam'], data['sigma']
        g = space.element(data['g'].copy())
        sg = space.element(data['sig'].copy())

        def mk():
            if name == 'l1':
                return po.proximal_l1(space, lam=lam, g=g if fl[1] == '1' else None)(
                    sg if fl[0] == '1' else sigma)
            if name == 'ccL1':
                return po.proximal_convex_conj_l1(space, lam=lam)(sigma)
            if name == 'l2Sq':
                return po.proximal_l2_squared(space, lam=lam, g=g)(sg if fl[0] == '1' else sigma)
            if name == 'ccL2Sq':
                return po.proximal_convex_conj_l2_squared(
                    space, lam=lam, g=g if fl[1] == '1' else None)(sg if fl[0] == '1' else sigma)
            if name == 'box':
                return po.proximal_box_constraint(space, space.element(data['lo'].copy()),
                                                  space.element(data['up'].copy()))(sigma)
            if name == 'ccKL':
                return po.proximal_convex_conj_kl(space, lam=lam,
                                                  g=g if fl == '1' else None)(sigma)
            if name == 'huber':
                return po.proximal_huber(space, data['gamma'])(sigma)
            if name == 'linfty':
                return po.proximal_linfty(space)(sigma)
            if name == 'ccLinfty':
                return po.proximal_convex_conj_linfty(space)(sigma)
            if name == 'sumc':
                return odl.solvers.IndicatorSumConstraint(space, data['radius']).proximal(sigma)
            return odl.solvers.IndicatorSimplex(space, data['radius']).proximal(sigma)
        return ['prox:{}:{}'.format(name, fl)], mk, 'prox:' + name

    def ftree(d):
        """functional subtree X -> R"""
        kk = rng.choice(['inner', 'inner', 'l', 'r', 'S', 'P', 'C', 'rv']) if d > 0 else 'inner'
        if kk == 'inner':
            w = vec()
            return ['inner:' + bl(w, '|')], (lambda: odl.InnerProductOperator(space.element(w.copy()))), \
                'inner'
        if kk in ('S', 'P'):
            ta, ma, sa = ftree(d - 1)
            tb, mb, sb = ftree(d - 1)
            cls = {'S': odl.OperatorSum, 'P': odl.OperatorPointwiseProduct}[kk]
            return [kk] + ta + tb, (lambda: cls(ma(), mb())), '{}({},{})'.format(kk, sa, sb)
        if kk == 'C':
            ta, ma, sa = ftree(d - 1)
            tb, mb, sb = rand_tree(rng, d - 1, n, data)
            return ['C'] + ta + tb, (lambda: odl.OperatorComp(ma(), mb())), 'C({},{})'.format(sa, sb)
        ta, ma, sa = ftree(d - 1)
        if kk == 'rv':
            v = vec()
            return ['rv:' + bl(v, '|')] + ta, \
                (lambda: odl.OperatorRightVectorMult(ma(), space.element(v.copy()))), 'rv({})'.format(sa)
        c = rng.choice([2.0, -1.0, 0.5])
        cls = {'l': odl.OperatorLeftScalarMult, 'r': odl.OperatorRightScalarMult}[kk]
        return ['{}:{}'.format(kk, bits(c))] + ta, (lambda: cls(ma(), c)), '{}({})'.format(kk, sa)

    if depth == 0 or rng.random() < 0.2:
        return leaf()
    k = rng.choice(['S', 'C', 'P', 'V', 'l', 'r', 'lv', 'rv', 'S', 'C', 'V', 'fl', 'Cf'])
    if k == 'fl':
        # FunctionalLeftVectorMult(functional, vector)
        tf, mf, sf = ftree(depth - 1)
        v = vec()
        return ['fl:' + bl(v, '|')] + tf, \
            (lambda: odl.FunctionalLeftVectorMult(mf(), space.element(v.copy()))), 'fl({})'.format(sf)
    if k == 'Cf':
        # OperatorComp whose right factor is a functional
        tf, mf, sf = ftree(depth - 1)
        v = vec()
        return ['C', 'fmult:' + bl(v, '|')] + tf, \
            (lambda: odl.OperatorComp(odl.MultiplyOperator(space.element(v.copy()),
                                                           domain=odl.RealNumbers()), mf())), \
            'C(fmult,{})'.format(sf)
    if k in ('S', 'C', 'P'):
        ta, ma, sa = rand_tree(rng, depth - 1, n, data)
        tb, mb, sb = rand_tree(rng, depth - 1, n, data)
        cls = {'S': odl.OperatorSum, 'C': odl.OperatorComp, 'P': odl.OperatorPointwiseProduct}[k]
        return [k] + ta + tb, (lambda: cls(ma(), mb())), '{}({},{})'.format(k, sa, sb)
    ta, ma, sa = rand_tree(rng, depth - 1, n, data)
    if k in ('V', 'lv', 'rv'):
        v = vec()
        cls = {'V': odl.OperatorVectorSum, 'lv': odl.OperatorLeftVectorMult,
               'rv': odl.OperatorRightVectorMult}[k]
        return ['{}:{}'.format(k, bl(v, '|'))] + ta, (lambda: cls(ma(), space.element(v.copy()))), \
            '{}({})'.format(k, sa)
    c = rng.choice([2.0, -1.0, 0.5, -0.5])
    cls = {'l': odl.OperatorLeftScalarMult, 'r': odl.OperatorRightScalarMult}[k]
    return ['{}:{}'.format(k, bits(c))] + ta, (lambda: cls(ma(), c)), '{}({})'.format(k, sa)


def eval_tree(ctx, case, lines, pend):
    """Run one fully recorded tree case on the real code (oracle) and queue the model lines."""
    n = case['n']
    data = data_from_json(case['data'], n)
    space = data['space']
    toks = case['tokens'].split(',')
    xv = np.array(case['x'], dtype=float)
    yv = np.array(case['y'], dtype=float)
    shape = case['shape']
    try:
        op, rest = real_from_tokens(toks, data)
        assert not rest
    except Exception as e:  # noqa
        ctx.disagree(case, 'cannot build: {}: {}'.format(type(e).__name__, str(e)[:100]),
                     'model tree exists', stream='tree')
        return
    res = {}
    x = space.element(xv.copy())
    res['oop'] = safe_call(op, x)
    xa = {'oop': snapshot(x)}
    x = space.element(xv.copy())
    y = space.element(yv.copy())
    res['ip'] = safe_call(op, x, out=y)
    xa['ip'] = snapshot(x)
    isout_ip = res['ip'].obj is y
    alias_ok = 'accum' not in case['tokens']    # a leaf may be non-alias-safe: C03 is x != out
    x = space.element(xv.copy())
    res['alias'] = safe_call(op, x, out=x) if alias_ok else Outcome('skipped')
    xa['alias'] = snapshot(x)
    isout_al = res['alias'].obj is x
    key = 'tree {}'.format(shape[:120])
    if res['oop'].status != 'ok':
        # every tree is built from total leaves on finite input: a raise is inside the quantifier
        ctx.violation(key + ' check=raises-on-valid-input', 'op(x) raises {}'.format(
            res['oop'].status), case)
    else:
        if not bitsame(xa['oop'], xv):
            ctx.violation(key + ' check=input-unchanged-oop', 'x modified by op(x)', case)
        for mode, isout in (('ip', isout_ip), ('alias', isout_al)):
            if res[mode].status == 'skipped':
                continue
            if res[mode].status != 'ok':
                ctx.violation(key + ' check=' + mode, '{} call raises {}'.format(
                    mode, res[mode].status), case)
                continue
            if not isout:
                ctx.violation(key + ' check=returns-out', mode + ' call did not return out', case)
            if not same(res[mode].val, res['oop'].val):
                ctx.violation(key + ' check={}-equals-oop'.format(mode),
                              '{} result {} differs from op(x) = {}'.format(
                                  mode, res[mode].val[:6], res['oop'].val[:6]), case)
        if res['ip'].status == 'ok' and not bitsame(xa['ip'], xv):
            ctx.violation(key + ' check=input-unchanged-ip', 'x modified by op(x, out=y)', case)
    if lines is None:
        return
    base = ('n={} t={} x={} y={} lam={} sigma={} gamma={} radius={} eps={} g={} sig={} lo={} '
            'up={}').format(n, ','.join(toks), bl(xv), bl(yv), bits(data['lam']),
                            bits(data['sigma']), bits(data['gamma']), bits(data['radius']),
                            bits(EPS_CCL1),
                            bl(data['g']), bl(data['sig']), bl(data['lo']), bl(data['up']))
    for mode in ('oop', 'ip', 'alias'):
        if res[mode].status == 'skipped':
            continue
        lines.append('tree mode={} {}'.format(mode, base))
        pend.append((case, shape, mode, res[mode], xa[mode]))


def run_trees(ctx, count):
    import odl
    import random
    lines, pend = [], []
    # a FIXED set of trees first (constant seed: every node and leaf kind of TREE_BRANCHES occurs
    # in it, so the expected-branch obligation never depends on VERIF_SEED), then the seeded ones
    plan = [random.Random(20260926)] * 160 + [ctx.rng] * count
    for rng in plan:
        n = rng.choice([1, 2, 3, 4])
        space = odl.rn(n)
        data = dict(space=space, lam=rng.choice([1.0, 0.5, 2.0]), sigma=rng.choice([1.0, 0.5, 2.0]),
                    gamma=rng.choice([0.5, 1.0]), radius=rng.choice([1.0, 2.0]),
                    g=np.array([rng.randint(1, 16) / 8.0 for _ in range(n)]),
                    sig=np.array([rng.choice([0.5, 1.0, 2.0]) for _ in range(n)]),
                    lo=np.array([rng.choice([-1.0, -0.5, 0.0]) for _ in range(n)]),
                    up=np.array([rng.choice([0.5, 1.0, 2.0]) for _ in range(n)]))
        toks, _mk, shape = rand_tree(rng, rng.choice([1, 2, 3, 4]), n, data)
        xv = np.array([rng.randint(-16, 16) / 8.0 for _ in range(n)])
        yv = np.array([(-1) ** k * (1234.5 + 1e5 * k) for k in range(n)])
        pre = rng.choice(['garbage', 'nan', 'inf'])
        if pre != 'garbage':
            yv = np.full(n, np.nan if pre == 'nan' else np.inf)
        case = {'kind': 'tree', 'tokens': ','.join(toks), 'shape': shape[:200], 'n': n,
                'data': data_to_json(data), 'x': xv.tolist(), 'y': yv.tolist()}
        eval_tree(ctx, case, lines, pend)
    outs = core.run_driver('C03', lines)
    for (desc, shape, mode, r, xafter), ans in zip(pend, outs):
        d = dict(desc, mode=mode)
        nontrivial = r.status == 'ok' and np.any(r.val != 0)
        ctx.case(('tree', shape, mode) if nontrivial else None,
                 sample={'tree': shape, 'mode': mode, 'x': desc['x'],
                         'result': r.val.tolist() if r.status == 'ok' else r.status}
                 if desc['n'] <= 2 and len(ctx.samples) < 10 else None)
        for t in set(desc['tokens'].replace(':', ',').split(',')):
            if t in TREE_BRANCHES:
                ctx.hit('tree/' + t)
        if r.status != 'ok':
            if not ans.startswith(':'.join(r.status.split(':')[:2])):
                ctx.disagree(d, r.status, ans[:100], stream='tree')
            continue
        if not ans.startswith('ok '):
            ctx.disagree(d, 'ok', ans[:100], stream='tree')
            continue
        f = dict(t.split('=', 1) for t in ans.split()[1:])
        if not same_exact(parse_bl(f['val']), r.val):
            ctx.disagree(d, 'val={}'.format(r.val[:6]), 'val={}'.format(parse_bl(f['val'])[:6]),
                         stream='tree')
        elif not same_exact(parse_bl(f['x']), xafter):
            ctx.disagree(d, 'x after={}'.format(xafter[:6]),
                         'x after={}'.format(parse_bl(f['x'])[:6]), stream='tree')


TREE_BRANCHES = ('S', 'C', 'P', 'V', 'l', 'r', 'lv', 'rv', 'fl', 'accum', 'scal', 'const', 'mult', 'pow', 'zero',
                 'modsq', 'prox', 'real', 'inner', 'fmult')


EPS_CCL1 = float(np.finfo(float).resolution * 10)


def same_exact(a, b):
    """Model vs code on the tree / product streams: relative 1e-12 (NaN == NaN). Not bitwise:
    after a division the values are no longer dyadic and NumPy's dot / pairwise summation may
    round in another order than the model's sequential sums; a leaked junk value (NaN, inf,
    >= 1e2) is far above this tolerance."""
    return same(a, b, rtol=1e-12)


# ---------------------------------------------------------------------------
# product-space stream: ProductSpaceOperator / Broadcast / Reduction / Diagonal /
# ComponentProjection(+Adjoint) vs the model

WRAP_KINDS = ('bcast', 'red', 'diag')
WRAP_BRANCHES = ['wrap/{}/{}'.format(k, m) for k in ('bcast', 'red') for m in ('oop', 'ip')] + \
    ['wrap/diag/' + m for m in ('oop', 'ip', 'alias')]


def build_pso(case, data):
    """Real product-space operator of a recorded case: (op, m, nc, entries string)."""
    import odl
    space = data['space']
    kind, m, nc, idx = case['class'], case['m'], case['nc'], case['idx']
    blocks = {(i, j): real_from_tokens(t.split(','), data)[0] for i, j, t in case['blocks']}
    if kind == 'pso':
        mat = [[blocks.get((i, j)) for j in range(nc)] for i in range(m)]
        op = odl.ProductSpaceOperator(mat, domain=odl.ProductSpace(space, nc),
                                      range=odl.ProductSpace(space, m))
        coo = op.ops
    elif kind == 'psocoo':
        # round 5: constructed from an explicit COO matrix whose entries come in the recorded
        # (shuffled, in general NOT row-grouped) order
        from odl.util import COOMatrix
        order = [tuple(t) for t in case['order']]
        dat = np.empty(len(order), dtype=object)
        dat[:] = [blocks[t] for t in order]
        op = odl.ProductSpaceOperator(
            COOMatrix(dat, ([i for i, _ in order], [j for _, j in order]), (m, nc)),
            domain=odl.ProductSpace(space, nc), range=odl.ProductSpace(space, m))
        coo = op.ops
    elif kind == 'psoadj':
        # round 5: the ADJOINT of a block operator of self-adjoint linear leaves; the library
        # builds it with the TRANSPOSED entry order. `blocks` are recorded at the positions of
        # the adjoint (the operator that is called): forward block (c, r) = blocks[(r, c)].
        mat = [[blocks.get((c, r)) for c in range(m)] for r in range(nc)]
        op = odl.ProductSpaceOperator(mat, domain=odl.ProductSpace(space, m),
                                      range=odl.ProductSpace(space, nc)).adjoint
        coo = op.ops
    elif kind == 'bcast':
        op = odl.BroadcastOperator(*[blocks[(i, 0)] for i in range(m)])
        coo = op.prod_op.ops
    elif kind == 'red':
        op = odl.ReductionOperator(*[blocks[(0, j)] for j in range(nc)])
        coo = op.prod_op.ops
    elif kind == 'diag':
        op = odl.DiagonalOperator(*[blocks[(i, i)] for i in range(m)])
        coo = op.ops
    elif kind == 'proj':
        op, coo = odl.ComponentProjection(odl.ProductSpace(space, nc), idx), None
    elif kind == 'projl':
        # round 4: LIST index (model compProjListO / compProjListI)
        op, coo = odl.ComponentProjection(odl.ProductSpace(space, nc), list(case['idxs'])), None
    else:
        op, coo = odl.ComponentProjectionAdjoint(odl.ProductSpace(space, m), idx), None
    toks = {(i, j): t for i, j, t in case['blocks']}
    if coo is not None:
        # the model receives the blocks in the order of the real COO storage
        order = list(zip([int(t) for t in coo.row], [int(t) for t in coo.col]))
        entries = '@'.join('{}~{}~{}'.format(i, j, toks[(i, j)]) for i, j in order) or '-'
        rows = [i for i, _ in order]
        case['_ungrouped'] = any(rows[k] in rows[:k] and rows[k - 1] != rows[k]
                                 for k in range(1, len(rows)))
    else:
        entries = '-'
    return op, entries


def eval_pso(ctx, case, lines, pend):
    n, m, nc, kind, pre = case['n'], case['m'], case['nc'], case['class'], case['prefill']
    data = data_from_json(case['data'], n)
    space = data['space']
    shape = case['shape']
    try:
        op, entries = build_pso(case, data)
    except Exception as e:  # noqa
        ctx.disagree(case, 'cannot build: {}: {}'.format(type(e).__name__, str(e)[:100]),
                     'model exists', stream='pso')
        return
    xs = [np.array(v, dtype=float) for v in case['x']]
    ys = [np.array(v, dtype=float) for v in case['y']]
    x_single = kind in ('bcast', 'projadj')
    y_single = kind in ('red', 'proj')

    def mkx():
        return space.element(xs[0].copy()) if x_single else \
            op.domain.element([v.copy() for v in xs])

    def mky():
        return space.element(ys[0].copy()) if y_single else \
            op.range.element([v.copy() for v in ys])
    res, xa = {}, {}
    x = mkx()
    res['oop'] = safe_call(op, x)
    xa['oop'] = snapshot(x)
    if kind in ('proj', 'projl') and res['oop'].status == 'ok' and \
            shares(arrays_of(res['oop'].obj), arrays_of(x)):
        # the model (compProjO / compProjListO, `.copy()`) returns NEW objects
        ctx.disagree(case, 'op(x) shares memory with x', 'model: new objects', stream='pso')
    x = mkx()
    y = mky()
    res['ip'] = safe_call(op, x, out=y)
    xa['ip'] = snapshot(x)
    ret_ok = {'ip': res['ip'].obj is y}
    modes = ['oop', 'ip']
    if kind == 'diag' and not any('accum' in t for _, _, t in case['blocks']):
        x = mkx()
        res['alias'] = safe_call(op, x, out=x)
        xa['alias'] = None
        ret_ok['alias'] = res['alias'].obj is x
        modes.append('alias')
    key = 'pso {}'.format(shape[:120])
    x0 = np.concatenate(xs)
    if res['oop'].status != 'ok':
        ctx.violation(key + ' check=raises-on-valid-input', 'op(x) raises {}'.format(
            res['oop'].status), case)
    else:
        if not bitsame(xa['oop'], x0):
            ctx.violation(key + ' check=input-unchanged-oop', 'x modified by op(x)', case)
        for mode in modes[1:]:
            if res[mode].status != 'ok':
                ctx.violation(key + ' check=' + mode, '{} call raises {}'.format(
                    mode, res[mode].status), case)
                continue
            if not ret_ok[mode]:
                ctx.violation(key + ' check=returns-out', mode + ' call did not return out', case)
            if not same(res[mode].val, res['oop'].val):
                ctx.violation(key + ' check={}-equals-oop prefill={}'.format(mode, pre),
                              '{} result {} differs from op(x) = {}'.format(
                                  mode, res[mode].val[:8], res['oop'].val[:8]), case)
        if res['ip'].status == 'ok' and not bitsame(xa['ip'], x0):
            ctx.violation(key + ' check=input-unchanged-ip', 'x modified by op(x, out=y)', case)
    if lines is None:
        return
    base = ('kind={} m={} nc={} n={} idx={} entries={} x={} y={} lam={} sigma={} gamma={} '
            'radius={} eps={} g={} sig={} lo={} up={}').format(
        kind, m, nc, n, case['idx'], entries, ';'.join(bl(v) for v in xs),
        ';'.join(bl(v) for v in ys), bits(data['lam']), bits(data['sigma']), bits(data['gamma']),
        bits(data['radius']), bits(EPS_CCL1), bl(data['g']), bl(data['sig']), bl(data['lo']),
        bl(data['up']))
    if kind == 'projl':
        base += ' idxs=' + ','.join(str(int(t)) for t in case['idxs'])
    for mode in modes:
        lines.append('pso mode={} {}'.format(mode, base))
        pend.append((case, shape, mode, res[mode], xa[mode]))
    if kind in WRAP_KINDS:
        # round 4: the same case again with the OPERAND list only; the block list of the
        # constructor and the identity wrapping of `_call` come from the model
        # (`rowsFrom` / `colsFrom`, `broadcastO/I`, `reductionO/I`, `diagonalO/I`)
        toks = {(i, j): t for i, j, t in case['blocks']}
        k = max(m, nc)
        pos = {'bcast': lambda t: (t, 0), 'red': lambda t: (0, t), 'diag': lambda t: (t, t)}[kind]
        coo = op.ops if kind == 'diag' else op.prod_op.ops
        order = list(zip([int(t) for t in coo.row], [int(t) for t in coo.col]))
        if order != [pos(t) for t in range(k)]:
            ctx.disagree(case, 'COO order of the blocks: {}'.format(order),
                         'model: {}'.format([pos(t) for t in range(k)]), stream='wrap')
        wbase = base.replace('kind={} '.format(kind), 'kind={}w ops={} '.format(
            kind, '@'.join(toks[pos(t)] for t in range(k))), 1)
        for mode in modes:
            lines.append('pso mode={} {}'.format(mode, wbase))
            pend.append((case, shape, 'wrap-' + mode, res[mode], xa[mode]))


def run_pso(ctx, count):
    import odl
    import random
    lines, pend = [], []
    # a FIXED set first (constant seed: every class x mode stratum occurs), then the seeded ones
    plan = [random.Random(20260927)] * 120 + [ctx.rng] * count
    for rng in plan:
        n = rng.choice([1, 2, 3])
        space = odl.rn(n)
        data = dict(space=space, lam=rng.choice([1.0, 0.5, 2.0]), sigma=rng.choice([1.0, 0.5, 2.0]),
                    gamma=rng.choice([0.5, 1.0]), radius=rng.choice([1.0, 2.0]),
                    g=np.array([rng.randint(1, 16) / 8.0 for _ in range(n)]),
                    sig=np.array([rng.choice([0.5, 1.0, 2.0]) for _ in range(n)]),
                    lo=np.array([rng.choice([-1.0, -0.5, 0.0]) for _ in range(n)]),
                    up=np.array([rng.choice([0.5, 1.0, 2.0]) for _ in range(n)]))
        kind = rng.choice(['pso', 'pso', 'bcast', 'red', 'diag', 'diag', 'proj', 'projadj', 'projl',
                           'psocoo', 'psoadj'])
        order = None
        idx = 0
        idxs = []

        def block():
            toks, _mk, sh = rand_tree(rng, rng.choice([0, 1, 2]), n, data)
            return ','.join(toks), sh
        blocks = {}
        if kind == 'pso':
            m, nc = rng.choice([1, 2, 3]), rng.choice([1, 2, 3])
            for i in range(m):
                for j in range(nc):
                    if rng.random() < 0.55:
                        blocks[(i, j)] = block()
            if not blocks:
                blocks[(0, 0)] = block()
        elif kind == 'psocoo':
            m, nc = rng.choice([2, 3]), rng.choice([1, 2, 3])
            for i in range(m):
                for j in range(nc):
                    if rng.random() < 0.7 or (i, j) in ((0, 0), (1, 0)):
                        blocks[(i, j)] = block()
            order = sorted(blocks)
            for _ in range(20):       # an entry order in which some row is NOT contiguous
                rng.shuffle(order)
                rws = [i for i, _ in order]
                if any(rws[k] in rws[:k] and rws[k - 1] != rws[k] for k in range(1, len(rws))):
                    break
        elif kind == 'psoadj':
            # forward operator nc x m (rows x cols) with a full leading 2 x 2 part, so that the
            # transposed entry order of `.adjoint` is not row-grouped
            m, nc = rng.choice([2, 3]), rng.choice([2, 3])

            def sa_block():
                if rng.random() < 0.5:
                    c = rng.choice([2.0, -1.0, 0.5, -0.25, 1.0])
                    return 'scal:{}'.format(bits(c)), 'scal'
                v = [rng.choice([-2.0, -1.0, -0.5, 0.5, 1.0, 2.0, 0.25]) for _ in range(n)]
                return 'mult:' + bl(v, '|'), 'mult'
            for i in range(m):
                for j in range(nc):
                    if (i < 2 and j < 2) or rng.random() < 0.6:
                        blocks[(i, j)] = sa_block()
        elif kind in ('bcast', 'red', 'diag'):
            k = rng.choice([1, 2, 3])
            m, nc = {'bcast': (k, 1), 'red': (1, k), 'diag': (k, k)}[kind]
            for t in range(k):
                blocks[{'bcast': (t, 0), 'red': (0, t), 'diag': (t, t)}[kind]] = block()
        elif kind == 'proj':
            m, nc = 1, rng.choice([1, 2, 3])
            idx = rng.randrange(nc)
        elif kind == 'projl':
            nc = rng.choice([1, 2, 3, 4])
            m = rng.choice([1, 2, 3])
            idxs = [rng.randrange(nc) for _ in range(m)]      # repeats allowed
        else:
            m, nc = rng.choice([1, 2, 3]), 1
            idx = rng.randrange(m)
        shape = '{}[{}]'.format(kind, ';'.join('{}{}:{}'.format(i, j, blocks[(i, j)][1])
                                               for i, j in sorted(blocks)) or
                                 (','.join(map(str, idxs)) if kind == 'projl' else idx))
        pre = rng.choice(['garbage', 'nan', 'inf'])
        case = {'kind': 'pso', 'class': kind, 'shape': shape[:300], 'n': n, 'm': m, 'nc': nc,
                'idx': idx, 'idxs': idxs, 'order': [list(t) for t in order] if order else None,
                'prefill': pre, 'data': data_to_json(data),
                'blocks': [[i, j, blocks[(i, j)][0]] for i, j in sorted(blocks)],
                'x': [[rng.randint(-16, 16) / 8.0 for _ in range(n)] for _ in range(nc)],
                'y': [[{'garbage': 777.25 + i, 'nan': float('nan'), 'inf': float('inf')}[pre]] * n
                      for i in range(m)]}
        eval_pso(ctx, case, lines, pend)
    outs = core.run_driver('C03', lines)
    for (desc, shape, mode, r, xafter), ans in zip(pend, outs):
        d = dict(desc, mode=mode)
        nontrivial = r.status == 'ok' and np.any(r.val != 0)
        ctx.case(('pso', shape, mode) if nontrivial else None,
                 sample={'pso': shape, 'mode': mode, 'x': desc['x'],
                         'result': r.val.tolist() if r.status == 'ok' else r.status}
                 if desc['n'] == 1 and len(ctx.samples) < 12 else None)
        ctx.hit(('pso/{}/{}' if not mode.startswith('wrap-') else 'wrap/{}/{}').format(
            desc['class'], mode.replace('wrap-', '')))
        if desc.get('_ungrouped') and mode == 'ip':
            # round 5: in-place call over a COO entry order in which a row is not contiguous
            ctx.hit('pso-order/{}/ungrouped-ip'.format(desc['class']))
        if mode.startswith('wrap-') and desc['class'] == 'red' and ans.startswith('ok '):
            # identity of the returned object: `out` itself in place, a new object out of place
            ret = int(ans.rsplit('ret=', 1)[1])
            want_new = mode == 'wrap-oop'
            if (ret >= desc['nc'] + desc['m']) != want_new or (not want_new and ret != desc['nc']):
                ctx.disagree(d, 'returns {}'.format('a new object' if want_new else 'out itself'),
                             'ret={}'.format(ret), stream='wrap')
            ans = ans.rsplit(' ret=', 1)[0]
        if r.status != 'ok':
            if not ans.startswith(':'.join(r.status.split(':')[:2])):
                ctx.disagree(d, r.status, ans[:100], stream='pso')
            continue
        if not ans.startswith('ok '):
            ctx.disagree(d, 'ok', ans[:100], stream='pso')
            continue
        f = dict(t.split('=', 1) for t in ans.split()[1:])
        mv = np.concatenate([parse_bl(t) for t in f['vals'].split(';')])
        if not same_exact(mv, r.val):
            ctx.disagree(d, 'val={}'.format(r.val[:8]), 'val={}'.format(mv[:8]), stream='pso')
        elif xafter is not None:
            mx = np.concatenate([parse_bl(t) for t in f['x'].split(';')])
            if not same_exact(mx, xafter):
                ctx.disagree(d, 'x after={}'.format(xafter[:8]), 'x after={}'.format(mx[:8]),
                             stream='pso')


# ---------------------------------------------------------------------------
# leaf stream (round 4): `default_ops.py` classes whose `_call` bodies are model leaves of their
# own (`zeroDiffLeaf`, `multScalarLeaf`, `imagLeaf`, `cmodLeaf`, `linCombO/I`) or instances of
# `funcLeaf` (NormOperator, DistOperator, PowerOperator / MultiplyOperator on a FIELD domain),
# each alone under the public call, bitwise on dyadic inputs.

LEAF_KINDS = ('zerodiff', 'multc', 'imag', 'cmod', 'norm', 'dist', 'powf', 'multf')
LEAF_FUNCTIONAL = ('norm', 'dist', 'powf', 'multf')
LEAF_FIELD_DOMAIN = ('powf', 'multf')
LEAF_MODES = {'zerodiff': ('oop', 'ip'), 'multc': ('oop', 'ip', 'alias'),
              'imag': ('oop', 'ip', 'alias'), 'cmod': ('oop', 'ip', 'alias'),
              'norm': ('oop', 'ip'), 'dist': ('oop', 'ip'), 'powf': ('oop', 'ip'),
              'multf': ('oop', 'ip')}
LINCOMB_MODES = ('oop', 'ip', 'alias0', 'alias1')


def real_leaf(case):
    """The real operator of a recorded leaf case."""
    import odl
    k, n, m, c = case['leaf'], case['n'], case['m'], case['c']
    X = odl.rn(n)
    if k == 'zerodiff':
        return odl.ZeroOperator(X, odl.rn(m))
    if k == 'multc':
        return odl.MultiplyOperator(c, domain=X, range=X)
    if k == 'imag':
        return odl.ImagPart(X)
    if k == 'cmod':
        return odl.ComplexModulus(X)
    if k == 'norm':
        return odl.NormOperator(X)
    if k == 'dist':
        return odl.DistOperator(X.element(np.array(case['v'], dtype=float)))
    if k == 'powf':
        return odl.PowerOperator(odl.RealNumbers(), c)
    if k == 'multf':
        return odl.MultiplyOperator(c, domain=odl.RealNumbers(), range=odl.RealNumbers())
    if k == 'lincomb':
        return odl.LinCombOperator(X, case['a'], case['b'])
    raise KeyError(k)


def eval_leaf(ctx, case, lines, pend):
    """One recorded leaf case on the real code: oracle (C03 itself, no model involved), and the
    model lines queued."""
    import odl
    k, n, m = case['leaf'], case['n'], case['m']
    key = 'leaf {} n={} m={}'.format(k, n, m)
    try:
        op = real_leaf(case)
    except Exception as e:  # noqa
        ctx.disagree(case, 'cannot build: {}: {}'.format(type(e).__name__, str(e)[:100]),
                     'model leaf exists', stream='leaf')
        return
    if k == 'lincomb':
        return eval_lincomb(ctx, case, op, key, lines, pend)
    xv = np.array(case['x'], dtype=float)
    yv = np.array(case['y'], dtype=float)
    fdom = k in LEAF_FIELD_DOMAIN
    func = k in LEAF_FUNCTIONAL

    def mkx():
        return float(xv[0]) if fdom else op.domain.element(xv.copy())
    res, xa, new = {}, {}, {}
    x = mkx()
    res['oop'] = safe_call(op, x)
    xa['oop'] = snapshot(x)
    new['oop'] = int(res['oop'].obj is not x)
    if res['oop'].status != 'ok':
        ctx.violation(key + ' check=raises-on-valid-input', 'op(x) raises ' + res['oop'].status, case)
    else:
        r = res['oop'].obj
        try:
            inrange = r in op.range
        except Exception:  # noqa
            inrange = False
        if not inrange:
            ctx.violation(key + ' check=result-in-range', 'op(x) = {!r} is not in the range'.format(r)[:200],
                          case)
        if not bitsame(xa['oop'], xv):
            ctx.violation(key + ' check=input-unchanged-oop', 'x modified by op(x)', case)
        if not func and not fdom and shares(arrays_of(r), arrays_of(x)):
            ctx.violation(key + ' check=result-shares-input', 'op(x) shares memory with x', case)
    for mode in LEAF_MODES[k][1:]:
        x = mkx()
        if func:
            y = float(yv[0])            # in the range (a field): must be refused with TypeError
        elif mode == 'alias':
            y = x
        else:
            y = op.range.element(yv.copy())
        res[mode] = safe_call(op, x, out=y)
        xa[mode] = snapshot(x)
        new[mode] = 0
        if func:
            if not res[mode].status.startswith('err:type'):
                ctx.violation(key + ' check=functional-rejects-out',
                              'op(x, out=<float>) gives {} instead of TypeError'.format(
                                  res[mode].status), case)
            continue
        if res[mode].status != 'ok':
            ctx.violation(key + ' check=' + mode, '{} call raises {}'.format(mode, res[mode].status),
                          case)
            continue
        if res[mode].obj is not y:
            ctx.violation(key + ' check=returns-out', mode + ' call did not return out', case)
        if res['oop'].status == 'ok' and not bitsame(res[mode].val, res['oop'].val):
            ctx.violation(key + ' check={}-equals-oop prefill={}'.format(mode, case['prefill']),
                          '{} result {} differs from op(x) = {}'.format(
                              mode, res[mode].val[:6], res['oop'].val[:6]), case)
        if mode == 'ip' and not bitsame(xa['ip'], xv):
            ctx.violation(key + ' check=input-unchanged-ip', 'x modified by op(x, out=y)', case)
    if lines is None:
        return
    base = 'kind={} n={} m={} x={} y={} c={} v={}'.format(
        k, n, m, bl(xv), bl(yv), bits(case['c']), bl(case['v']))
    for mode in LEAF_MODES[k]:
        lines.append('leaf mode={} {}'.format(mode, base))
        pend.append((case, mode, res[mode], xa[mode], new[mode]))


def eval_lincomb(ctx, case, op, key, lines, pend):
    n = case['n']
    x0 = np.array(case['x'][:n], dtype=float)
    x1 = np.array(case['x'][n:], dtype=float)
    yv = np.array(case['y'], dtype=float)
    res, xa = {}, {}
    for mode in LINCOMB_MODES:
        x = op.domain.element([x0.copy(), x1.copy()])
        if mode == 'oop':
            res[mode] = safe_call(op, x)
            y = None
        else:
            y = {'ip': op.range.element(yv.copy()), 'alias0': x[0], 'alias1': x[1]}[mode]
            res[mode] = safe_call(op, x, out=y)
        xa[mode] = snapshot(x)
        if res[mode].status != 'ok':
            ctx.violation(key + ' check=' + ('raises-on-valid-input' if mode == 'oop' else mode),
                          '{} call raises {}'.format(mode, res[mode].status), case)
            continue
        if mode == 'oop':
            if res[mode].obj not in op.range:
                ctx.violation(key + ' check=result-in-range', 'op(x) not in the range', case)
            if shares(arrays_of(res[mode].obj), arrays_of(x)):
                ctx.violation(key + ' check=result-shares-input', 'op(x) shares memory with x', case)
        else:
            if res[mode].obj is not y:
                ctx.violation(key + ' check=returns-out', mode + ' call did not return out', case)
            if res['oop'].status == 'ok' and not bitsame(res[mode].val, res['oop'].val):
                ctx.violation(key + ' check={}-equals-oop prefill={}'.format(mode, case['prefill']),
                              '{} result {} differs from op(x) = {}'.format(
                                  mode, res[mode].val[:6], res['oop'].val[:6]), case)
        # components that are not `out` are bit for bit unchanged
        keep = {'oop': (0, 1), 'ip': (0, 1), 'alias0': (1,), 'alias1': (0,)}[mode]
        for j in keep:
            if not bitsame(xa[mode][j * n:(j + 1) * n], (x0, x1)[j]):
                ctx.violation(key + ' check=input-unchanged-' + mode,
                              'x[{}] modified by the {} call'.format(j, mode), case)
    if lines is None:
        return
    base = 'n={} a={} b={} x0={} x1={} y={}'.format(n, bits(case['a']), bits(case['b']), bl(x0),
                                                   bl(x1), bl(yv))
    for mode in LINCOMB_MODES:
        lines.append('lincomb mode={} {}'.format(mode, base))
        pend.append((case, mode, res[mode], xa[mode], int(mode == 'oop')))


def leaf_cases(ctx, count):
    """A fixed enumeration (every kind x size x constant x prefill; independent of VERIF_SEED),
    then `count` seeded cases."""
    import random
    fixed = random.Random(20260928)
    out = []

    def prefill(pre, m, i=0):
        return [{'garbage': 777.25 + i + t, 'nan': float('nan'), 'inf': float('inf')}[pre]
                for t in range(m)]

    def one(rng, k, n, m, c, pre):
        xs = [rng.randint(-16, 16) / 8.0 for _ in range(n)]
        v = [rng.randint(-8, 8) / 4.0 for _ in range(n)] if k == 'dist' else []
        return {'kind': 'leaf', 'leaf': k, 'n': n, 'm': m, 'c': c, 'v': v, 'x': xs,
                'y': prefill(pre, m), 'prefill': pre}

    def lin(rng, n, a, b, pre):
        return {'kind': 'leaf', 'leaf': 'lincomb', 'n': n, 'm': n, 'c': 0.0, 'v': [], 'a': a, 'b': b,
                'x': [rng.randint(-16, 16) / 8.0 for _ in range(2 * n)], 'y': prefill(pre, n),
                'prefill': pre}
    consts = {'multc': (2.0, -0.5, 0.0, 1.0), 'powf': (2.0, 3.0), 'multf': (2.0, -0.5, 0.0)}
    for pre in ('garbage', 'nan', 'inf'):
        for k in LEAF_KINDS:
            for n in ((1,) if k in LEAF_FIELD_DOMAIN else (1, 2, 3, 4)):
                ms = [t for t in (1, 2, 3, 5) if t != n] if k == 'zerodiff' else \
                    [1] if k in LEAF_FUNCTIONAL else [n]
                for m in ms:
                    for c in consts.get(k, (0.0,)):
                        out.append(one(fixed, k, n, m, c, pre))
        for n in (1, 2, 3):
            for a, b in ((2.0, 3.0), (1.0, -1.0), (0.0, 0.5), (0.0, 0.0), (-0.25, 1.0)):
                out.append(lin(fixed, n, a, b, pre))
    rng = ctx.rng
    for _ in range(count):
        pre = rng.choice(['garbage', 'nan', 'inf'])
        k = rng.choice(LEAF_KINDS + ('lincomb', 'lincomb'))
        if k == 'lincomb':
            out.append(lin(rng, rng.choice([1, 2, 3, 4, 5]), rng.choice([2.0, -1.0, 0.5, 0.0, 1.0]),
                           rng.choice([3.0, -0.5, 0.0, 1.0]), pre))
            continue
        n = 1 if k in LEAF_FIELD_DOMAIN else rng.choice([1, 2, 3, 4, 5, 6])
        m = rng.choice([t for t in range(1, 8) if t != n]) if k == 'zerodiff' else \
            1 if k in LEAF_FUNCTIONAL else n
        c = rng.choice(consts.get(k, (0.0,)))
        out.append(one(rng, k, n, m, c, pre))
    return out


def run_leaves(ctx, count):
    lines, pend = [], []
    for case in leaf_cases(ctx, count):
        eval_leaf(ctx, case, lines, pend)
    outs = core.run_driver('C03', lines)
    for (desc, mode, r, xafter, isnew), ans in zip(pend, outs):
        d = dict(desc, mode=mode)
        k = desc['leaf']
        ctx.case(('leaf', k, mode, desc['n'], desc['m'], desc['c'], desc.get('a'), desc.get('b'))
                 if r.status == 'ok' else None,
                 sample={'leaf': k, 'mode': mode, 'x': desc['x'], 'c': desc['c'],
                         'result': r.val.tolist() if r.status == 'ok' else r.status}
                 if desc['n'] <= 2 and mode != 'oop' and len(ctx.samples) < 12 else None)
        ctx.hit('leaf/{}/{}'.format(k, mode))
        if r.status != 'ok':
            if not ans.startswith(':'.join(r.status.split(':')[:2])):
                ctx.disagree(d, r.status, ans[:100], stream='leaf')
            continue
        if not ans.startswith('ok '):
            ctx.disagree(d, 'ok', ans[:100], stream='leaf')
            continue
        f = dict(t.split('=', 1) for t in ans.split()[1:])
        if not bitsame(parse_bl(f['val']), np.asarray(r.val, dtype=float)):
            ctx.disagree(d, 'val={}'.format(r.val[:6]), 'val={}'.format(parse_bl(f['val'])[:6]),
                         stream='leaf')
            continue
        if k == 'lincomb':
            n = desc['n']
            mx = np.concatenate([parse_bl(f['x0']), parse_bl(f['x1'])])
            if not bitsame(mx, xafter):
                ctx.disagree(d, 'x after={}'.format(xafter[:8]), 'x after={}'.format(mx[:8]),
                             stream='leaf')
            if (int(f['ret']) >= 3) != bool(isnew):
                ctx.disagree(d, 'result is a new object: {}'.format(bool(isnew)), 'ret=' + f['ret'],
                             stream='leaf')
            continue
        if k not in LEAF_FIELD_DOMAIN and not bitsame(parse_bl(f['x']), xafter):
            ctx.disagree(d, 'x after={}'.format(xafter[:6]), 'x after={}'.format(parse_bl(f['x'])[:6]),
                         stream='leaf')
        if mode == 'oop' and k not in LEAF_FUNCTIONAL and int(f['new']) != isnew:
            ctx.disagree(d, 'result is a new object: {}'.format(bool(isnew)), 'new=' + f['new'],
                         stream='leaf')
        if mode != 'oop' and int(f['isout']) != 1:
            ctx.disagree(d, 'returns out', ans[:60], stream='leaf')


LEAF_BRANCHES = ['leaf/{}/{}'.format(k, m) for k in LEAF_KINDS for m in LEAF_MODES[k]] + \
    ['leaf/lincomb/' + m for m in LINCOMB_MODES]


# ---------------------------------------------------------------------------
# layout / size stream (oracle only, tolerance-free): the default in-place paths go through
# lincomb / assign / multiply of the space layer, whose BLAS branch depends on memory layout
# and size. op(x, out=y) with y (and / or x) Fortran-ordered or wrapping a strided view, and on
# 2-d spaces just above the BLAS threshold, must give bit for bit what op(x) gives on C copies.

def layout_elem(space, arr, layout):
    arr = np.asarray(arr, dtype=space.dtype).reshape(space.shape)
    if layout == 'C':
        data = np.ascontiguousarray(arr)
    elif layout == 'F':
        data = np.asfortranarray(arr)
    else:       # strided view into a larger buffer
        big = np.zeros(tuple(2 * k for k in space.shape), dtype=space.dtype)
        view = big[tuple(slice(None, None, 2) for _ in space.shape)]
        view[...] = arr
        data = view
    return space.element(data)


def layout_ops(space, rng):
    import odl
    v = space.element(np.arange(space.size, dtype=float).reshape(space.shape) % 7 - 3)

    class SynthOopOnly(odl.Operator):       # in-place goes through the default bridge (assign)
        def _call(self, x):
            return 2 * x + 1
    return [
        ('ScalingOperator', lambda: odl.ScalingOperator(space, 2.5)),
        ('IdentityOperator', lambda: odl.IdentityOperator(space)),
        ('OperatorVectorSum', lambda: odl.OperatorVectorSum(odl.ScalingOperator(space, -0.5), v)),
        ('OperatorSum', lambda: odl.OperatorSum(odl.IdentityOperator(space),
                                                odl.ScalingOperator(space, 3.0))),
        ('OperatorLeftScalarMult', lambda: odl.OperatorLeftScalarMult(odl.PowerOperator(space, 2),
                                                                      -2.0)),
        ('SynthOopOnly', lambda: SynthOopOnly(space, space)),
        ('MultiplyOperator', lambda: odl.MultiplyOperator(v)),
        ('ConstantOperator', lambda: odl.ConstantOperator(v)),
    ]


def run_layouts(ctx, only=None):
    import odl
    import random
    small = odl.rn((3, 4))
    large = odl.rn((224, 224))          # 50176 entries: just above the BLAS threshold
    plans = []
    names = [nm for nm, _ in layout_ops(small, None)]
    for nm in names:
        for xl, yl in (('C', 'F'), ('F', 'C'), ('C', 'strided'), ('strided', 'F'), ('F', 'F')):
            plans.append(('small', nm, xl, yl))
    # large cases are sampled; the mixed-layout one on ScalingOperator is always among them
    big = [('large', 'ScalingOperator', 'C', 'F')]
    pool = [('large', nm, xl, yl) for nm in names
            for xl, yl in (('C', 'F'), ('F', 'C'), ('C', 'C'), ('C', 'strided'))]
    ctx.rng.shuffle(pool)
    big += pool[:(3 if ctx.quick else 16)]
    for size, nm, xl, yl in plans + big:
        lseed = ctx.rng.getrandbits(48)
        if only is not None:
            if (size, nm, xl, yl) != tuple(only[:4]):
                continue
            lseed = only[4]
        rng = random.Random(lseed)
        space = small if size == 'small' else large
        op = dict(layout_ops(space, rng))[nm]()
        npr = np.random.RandomState(lseed % (2 ** 32))
        xarr = npr.randint(-16, 17, size=space.shape) / 8.0
        x_c = layout_elem(space, xarr, 'C')
        ref = safe_call(op, x_c)
        case = {'kind': 'layout', 'size': size, 'op': nm, 'x_layout': xl, 'out_layout': yl,
                'lseed': lseed}
        key = 'layout {} {} x={} out={}'.format(size, nm, xl, yl)
        ctx.hit('layout/out-' + yl if yl != 'C' else 'layout/x-' + xl)
        if size == 'large':
            ctx.hit('size/large-2d')
        ctx.case(('layout', size, nm, xl, yl) if ref.status == 'ok' else None)
        if ref.status != 'ok':
            ctx.violation(key + ' check=raises-on-valid-input', 'op(x) raises ' + ref.status, case)
            continue
        want = ref.val
        x = layout_elem(space, xarr, xl)
        y = layout_elem(space, np.full(space.shape, np.nan), yl)
        o = safe_call(op, x, out=y)
        if o.status != 'ok':
            ctx.violation(key + ' check=in-place-raises', 'op(x, out=y) raises ' + o.status, case)
            continue
        got = snapshot(y)
        if o.obj is not y:
            ctx.violation(key + ' check=returns-out', 'op(x, out=y) did not return y', case)
        if not bitsame(got, want):
            bad = int(np.argmax(got != want))
            ctx.violation(key + ' check=in-place-equals-oop',
                          'op(x, out=y) with x {}-ordered and out {}-ordered differs from op(x) on '
                          'C copies at flat index {}: got {!r}, op(x) gives {!r}'.format(
                              xl, yl, bad, float(got[bad]), float(want[bad])), case)
        if not bitsame(snapshot(x), np.asarray(xarr, dtype=float).ravel()):
            ctx.violation(key + ' check=input-unchanged-ip', 'x modified by op(x, out=y)', case)
        o2 = safe_call(op, x)          # out-of-place on the non-C input
        if o2.status != 'ok' or not bitsame(o2.val, want):
            ctx.violation(key + ' check=oop-layout', 'op(x) on a {}-ordered x differs from op(x) on '
                          'its C copy'.format(xl), case)


# ---------------------------------------------------------------------------
# wrapper strata: every expression / product-space class with an in-place branch, called in
# place (x and out DISTINCT) with a leaf directly underneath that obeys the call protocol but is
# NOT alias safe, with and without the cached-temporary constructor arguments. A wrapper that
# hands `out` (or `x`) instead of a fresh temporary to its operand shows up here.

STRATA_LEAVES = ('accum', 'accum-junk', 'laplacian', 'partial', 'rosenbrock-grad', 'matrix')
STRATA_WRAPPERS = ('Sum', 'Sum[tmp_ran,tmp_dom]', 'VectorSum', 'Comp', 'Comp[tmp]', 'PointwiseProduct',
                   'LeftScalarMult', 'RightScalarMult', 'RightScalarMult[tmp]', 'LeftVectorMult',
                   'RightVectorMult', 'ProductSpaceOperator', 'Broadcast', 'Reduction', 'Diagonal',
                   'Pow[1]', 'Pow[2]', 'Pow[3]', 'Pow[4]')
# wrappers that the LIBRARY builds around a cached temporary of another wrapper (derivative /
# adjoint hand the same tmp object on): linear leaves only
STRATA_SHARED = ('Sum[tmp].derivative', 'Comp[tmp].derivative', 'RightScalarMult[tmp].derivative',
                 'Sum[tmp].adjoint', 'Comp[tmp].adjoint', 'RightScalarMult[tmp].adjoint')
STRATA_LINEAR_LEAVES = ('laplacian', 'partial', 'matrix')


def strata_leaves():
    import odl
    d2 = odl.uniform_discr([0, 0], [1, 1], (4, 3))
    r4, r3, r2 = odl.rn(4), odl.rn(3), odl.rn(2)
    return [
        ('accum', r4, lambda: synth_accum(r4, 2.0)),
        ('accum-junk', r4, lambda: synth_accum(r4, -1.5, junk=1024.0)),
        ('laplacian', d2, lambda: odl.Laplacian(d2)),
        ('partial', d2, lambda: odl.PartialDerivative(d2, 0)),
        ('rosenbrock-grad', r2, lambda: odl.solvers.RosenbrockFunctional(r2).gradient),
        ('matrix', r3, lambda: odl.MatrixOperator(np.array([[0.0, 1, 0], [2, 0, 0.5], [1, 0, -1]]))),
    ]


def run_wrapper_strata(ctx, reps, only=None):
    """`only` = (leaf name, stratum seed) replays exactly one recorded stratum."""
    import odl
    import random
    for lname, X, mkL in strata_leaves():
        if only is not None and only[0] != lname:
            continue
        for rep in range(reps):
            sseed = ctx.rng.getrandbits(48) if only is None else only[1]
            rng = random.Random(sseed)     # vector, scalar, inputs, prefills: functions of sseed
            L = mkL()
            v = rand_elem(X, rng)
            vv = snapshot(v)
            c = rng.choice([2.0, -0.5, 3.0])
            X2 = odl.ProductSpace(X, 2)
            n = len(vv)

            def Lf(a):          # the leaf alone, out-of-place, on flat values
                return snapshot(L(elem_from_flat(X, a)))
            one = lambda a: a            # noqa
            wr = [
                ('Sum', lambda: odl.OperatorSum(L, L), X, lambda a: Lf(a) + Lf(a)),
                ('Sum[tmp_ran,tmp_dom]', lambda: odl.OperatorSum(L, L, tmp_ran=X.element(),
                                                                 tmp_dom=X.element()),
                 X, lambda a: Lf(a) + Lf(a)),
                ('VectorSum', lambda: odl.OperatorVectorSum(L, v), X, lambda a: Lf(a) + vv),
                ('Comp', lambda: odl.OperatorComp(L, L), X, lambda a: Lf(Lf(a))),
                ('Comp[tmp]', lambda: odl.OperatorComp(L, L, tmp=X.element()), X,
                 lambda a: Lf(Lf(a))),
                ('PointwiseProduct', lambda: odl.OperatorPointwiseProduct(L, L), X,
                 lambda a: Lf(a) * Lf(a)),
                ('LeftScalarMult', lambda: odl.OperatorLeftScalarMult(L, c), X, lambda a: c * Lf(a)),
                ('RightScalarMult', lambda: odl.OperatorRightScalarMult(L, c), X,
                 lambda a: Lf(c * a)),
                ('RightScalarMult[tmp]', lambda: odl.OperatorRightScalarMult(L, c, tmp=X.element()),
                 X, lambda a: Lf(c * a)),
                ('LeftVectorMult', lambda: odl.OperatorLeftVectorMult(L, v), X, lambda a: Lf(a) * vv),
                ('RightVectorMult', lambda: odl.OperatorRightVectorMult(L, v), X,
                 lambda a: Lf(a * vv)),
                ('ProductSpaceOperator', lambda: odl.ProductSpaceOperator([[L, L], [None, L]]), X2,
                 lambda a: np.concatenate([Lf(a[:n]) + Lf(a[n:]), Lf(a[n:])])),
                ('Broadcast', lambda: odl.BroadcastOperator(L, L), X,
                 lambda a: np.concatenate([Lf(a), Lf(a)])),
                ('Reduction', lambda: odl.ReductionOperator(L, L), X2,
                 lambda a: Lf(a[:n]) + Lf(a[n:])),
                ('Diagonal', lambda: odl.DiagonalOperator(L, L), X2,
                 lambda a: np.concatenate([Lf(a[:n]), Lf(a[n:])])),
                # Operator.__pow__ : nested OperatorComp built by the library
                ('Pow[1]', lambda: L ** 1, X, lambda a: Lf(a)),
                ('Pow[2]', lambda: L ** 2, X, lambda a: Lf(Lf(a))),
                ('Pow[3]', lambda: L ** 3, X, lambda a: Lf(Lf(Lf(a)))),
                ('Pow[4]', lambda: L ** 4, X, lambda a: Lf(Lf(Lf(Lf(a))))),
            ]
            if lname in STRATA_LINEAR_LEAVES:
                p0 = rand_elem(X, rng)

                def La(a):      # adjoint of the leaf alone
                    return snapshot(L.adjoint(elem_from_flat(X, a)))
                t1, t2, t3 = X.element(), X.element(), X.element()
                wr += [
                    ('Sum[tmp].derivative', lambda: odl.OperatorSum(L, L, t1, t2).derivative(p0), X,
                     lambda a: Lf(a) + Lf(a)),
                    ('Comp[tmp].derivative', lambda: odl.OperatorComp(L, L, t3).derivative(p0), X,
                     lambda a: Lf(Lf(a))),
                    ('RightScalarMult[tmp].derivative',
                     lambda: odl.OperatorRightScalarMult(L, c, t3).derivative(p0), X,
                     lambda a: Lf(c * a)),
                    ('Sum[tmp].adjoint', lambda: odl.OperatorSum(L, L, t1, t2).adjoint, X,
                     lambda a: La(a) + La(a)),
                    ('Comp[tmp].adjoint', lambda: odl.OperatorComp(L, L, t3).adjoint, X,
                     lambda a: La(La(a))),
                    ('RightScalarMult[tmp].adjoint',
                     lambda: odl.OperatorRightScalarMult(L, c, t3).adjoint, X, lambda a: c * La(a)),
                ]
            for wname, mkw, dom, expect in wr:
                label = 'wrapper-stratum/{}/{}'.format(wname, lname)
                try:
                    W = mkw()
                except Exception as e:  # noqa
                    ctx.disagree({'kind': 'stratum', 'label': label},
                                 'cannot build: {}: {}'.format(type(e).__name__, str(e)[:80]),
                                 'stratum expected', stream='wrapper-stratum')
                    continue
                x = rand_elem(dom, rng)
                x0 = snapshot(x)
                want = expect(x0.copy())
                case = {'kind': 'stratum', 'wrapper': wname, 'leaf': lname, 'sseed': sseed,
                        'x': enc_vals(x0)}
                key = 'stratum {} over {}'.format(wname, lname)
                ref = safe_call(W, x)
                ctx.hit(label)
                ctx.case(('stratum', wname, lname) if ref.status == 'ok' and np.any(ref.val != 0)
                         else None)
                if ref.status != 'ok':
                    ctx.violation(key + ' check=raises-on-valid-input', 'op(x) raises ' + ref.status,
                                  case)
                    continue
                if not same(ref.val, want):
                    ctx.violation(key + ' check=oop-value', 'op(x) = {} but composing the leaf gives '
                                  '{}'.format(ref.val[:6], want[:6]), case)
                for pre in ('nan', 'garbage'):
                    y = filled(W.range, pre, rng)
                    o = safe_call(W, x, out=y)
                    if o.status != 'ok':
                        ctx.violation(key + ' check=in-place-raises', 'op(x, out=y) raises ' + o.status,
                                      case)
                        break
                    if o.obj is not y:
                        ctx.violation(key + ' check=returns-out', 'op(x, out=y) did not return y',
                                      case)
                    if not same(snapshot(y), want):
                        ctx.violation(key + ' check=in-place-equals-oop prefill=' + pre,
                                      'op(x, out=y) = {} differs from op(x) = {} (leaf obeys the '
                                      'protocol but is not alias safe: the wrapper must pass it a '
                                      'fresh temporary)'.format(snapshot(y)[:6], want[:6]), case)
                    if not bitsame(snapshot(x), x0):
                        ctx.violation(key + ' check=input-unchanged-ip', 'x modified by op(x, out=y)',
                                      case)
                        break


# ---------------------------------------------------------------------------
# tmpw lines of the tree stream (round 5): OperatorRightScalarMult / OperatorComp / OperatorSum
# constructed WITH a user temporary around random trees, vs `rscalTmpI` / `compTmpI` /
# `sumTmpI` (in place) and `callO` (out of place) of the model, the content of the temporary
# after the call included.

TMPW_KINDS = ('rscal', 'comp', 'sum')
TMPW_BRANCHES = ['tmpw/{}/{}'.format(k, m) for k in TMPW_KINDS for m in ('oop', 'ip')] + \
    ['tmpw/rscal/nested-ctor']


def eval_tmpw(ctx, case, lines, pend):
    import odl
    n = case['n']
    data = data_from_json(case['data'], n)
    space = data['space']
    xv = np.array(case['x'], dtype=float)
    yv = np.array(case['y'], dtype=float)
    tv = np.array(case['tv'], dtype=float)
    w, c = case['wrap'], case['c']
    key = 'tmpw {}[{}]'.format(w, case['shape'][:120])
    try:
        A, rest = real_from_tokens(case['tokens'].split(','), data)
        B, rest2 = real_from_tokens(case['tokens2'].split(','), data)
        assert not rest and not rest2
        tmp = space.element(tv.copy())
        W = {'rscal': lambda: odl.OperatorRightScalarMult(A, c, tmp=tmp),
             'comp': lambda: odl.OperatorComp(A, B, tmp=tmp),
             'sum': lambda: odl.OperatorSum(A, B, tmp_ran=tmp)}[w]()
    except Exception as e:  # noqa
        ctx.disagree(case, 'cannot build: {}: {}'.format(type(e).__name__, str(e)[:100]),
                     'model exists', stream='tmpw')
        return
    res, xa, ta = {}, {}, {}
    x = space.element(xv.copy())
    res['oop'] = safe_call(W, x)
    xa['oop'], ta['oop'] = snapshot(x), snapshot(tmp)
    tmp[:] = tv
    x = space.element(xv.copy())
    y = space.element(yv.copy())
    res['ip'] = safe_call(W, x, out=y)
    xa['ip'], ta['ip'] = snapshot(x), snapshot(tmp)
    if res['oop'].status != 'ok':
        ctx.violation(key + ' check=raises-on-valid-input', 'op(x) raises ' + res['oop'].status, case)
    else:
        if not bitsame(xa['oop'], xv):
            ctx.violation(key + ' check=input-unchanged-oop', 'x modified by op(x)', case)
        if shares(arrays_of(res['oop'].obj), arrays_of(tmp)):
            ctx.violation(key + ' check=result-shares-operator-state',
                          'the element returned by op(x) shares memory with the user temporary',
                          case)
        if res['ip'].status != 'ok':
            ctx.violation(key + ' check=ip', 'ip call raises ' + res['ip'].status, case)
        else:
            if res['ip'].obj is not y:
                ctx.violation(key + ' check=returns-out', 'ip call did not return out', case)
            if not same(res['ip'].val, res['oop'].val):
                ctx.violation(key + ' check=ip-equals-oop', 'ip result {} differs from op(x) = {}'.format(
                    res['ip'].val[:6], res['oop'].val[:6]), case)
            if not bitsame(xa['ip'], xv):
                ctx.violation(key + ' check=input-unchanged-ip', 'x modified by op(x, out=y)', case)
    if lines is None:
        return
    base = ('wrap={} c={} t2={} tv={} n={} t={} x={} y={} lam={} sigma={} gamma={} radius={} eps={} '
            'g={} sig={} lo={} up={}').format(
        w, bits(c), case['tokens2'], bl(tv), n, case['tokens'], bl(xv), bl(yv), bits(data['lam']),
        bits(data['sigma']), bits(data['gamma']), bits(data['radius']), bits(EPS_CCL1),
        bl(data['g']), bl(data['sig']), bl(data['lo']), bl(data['up']))
    for mode in ('oop', 'ip'):
        lines.append('tree mode={} {}'.format(mode, base))
        pend.append((case, mode, res[mode], xa[mode], ta[mode]))


def run_tmpw(ctx, count):
    import odl
    import random
    lines, pend = [], []
    plan = [random.Random(20260929)] * 45 + [ctx.rng] * count
    for k, rng in enumerate(plan):
        n = rng.choice([1, 2, 3, 4])
        space = odl.rn(n)
        data = dict(space=space, lam=rng.choice([1.0, 0.5, 2.0]), sigma=rng.choice([1.0, 0.5, 2.0]),
                    gamma=rng.choice([0.5, 1.0]), radius=rng.choice([1.0, 2.0]),
                    g=np.array([rng.randint(1, 16) / 8.0 for _ in range(n)]),
                    sig=np.array([rng.choice([0.5, 1.0, 2.0]) for _ in range(n)]),
                    lo=np.array([rng.choice([-1.0, -0.5, 0.0]) for _ in range(n)]),
                    up=np.array([rng.choice([0.5, 1.0, 2.0]) for _ in range(n)]))
        w = TMPW_KINDS[k % 3] if k < 45 else rng.choice(TMPW_KINDS)
        ta, _m, sa = rand_tree(rng, rng.choice([0, 1, 2]), n, data)
        tb, _m, sb = rand_tree(rng, rng.choice([0, 1, 2]), n, data)
        if k in (0, 3, 6):
            # the operand is itself an OperatorRightScalarMult: the constructor merges the two
            # (model `rscalCtor`), visible in the content of the temporary
            ta, sa = ['r:{}'.format(bits(rng.choice([2.0, -0.5])))] + ta, 'r({})'.format(sa)
        pre = rng.choice(['garbage', 'nan', 'inf'])
        fill = {'garbage': 4321.5, 'nan': float('nan'), 'inf': float('inf')}[pre]
        case = {'kind': 'tmpw', 'wrap': w, 'c': rng.choice([2.0, -1.0, 0.5, -0.5]),
                'tokens': ','.join(ta), 'tokens2': ','.join(tb),
                'shape': (sa if w == 'rscal' else '{},{}'.format(sa, sb))[:200], 'n': n,
                'data': data_to_json(data), 'x': [rng.randint(-16, 16) / 8.0 for _ in range(n)],
                'y': [fill] * n, 'tv': [{'garbage': -8765.25, 'nan': float('nan'),
                                         'inf': float('inf')}[rng.choice(['garbage', 'nan', 'inf'])]] * n}
        eval_tmpw(ctx, case, lines, pend)
    outs = core.run_driver('C03', lines)
    for (desc, mode, r, xafter, tafter), ans in zip(pend, outs):
        d = dict(desc, mode=mode)
        ctx.case(('tmpw', desc['wrap'], desc['shape'], mode)
                 if r.status == 'ok' and np.any(r.val != 0) else None)
        ctx.hit('tmpw/{}/{}'.format(desc['wrap'], mode))
        if desc['wrap'] == 'rscal' and desc['tokens'].startswith('r:'):
            ctx.hit('tmpw/rscal/nested-ctor')
        if r.status != 'ok':
            if not ans.startswith(':'.join(r.status.split(':')[:2])):
                ctx.disagree(d, r.status, ans[:100], stream='tmpw')
            continue
        if not ans.startswith('ok '):
            ctx.disagree(d, 'ok', ans[:100], stream='tmpw')
            continue
        f = dict(t.split('=', 1) for t in ans.split()[1:])
        if not same_exact(parse_bl(f['val']), r.val):
            ctx.disagree(d, 'val={}'.format(r.val[:6]), 'val={}'.format(parse_bl(f['val'])[:6]),
                         stream='tmpw')
        elif not same_exact(parse_bl(f['x']), xafter):
            ctx.disagree(d, 'x after={}'.format(xafter[:6]), 'x after={}'.format(parse_bl(f['x'])[:6]),
                         stream='tmpw')
        elif not same_exact(parse_bl(f['tmp']), tafter):
            ctx.disagree(d, 'user temporary after the call={}'.format(tafter[:6]),
                         'tmp={}'.format(parse_bl(f['tmp'])[:6]), stream='tmpw')
        elif int(f['ret']) == 2:
            ctx.disagree(d, 'returned object', 'model returns the temporary', stream='tmpw')


# ---------------------------------------------------------------------------
# history stream (round 5): RESULT OWNERSHIP over time for every wrapper class that accepts a
# user temporary (`tmp=`, `tmp_ran=`, `tmp_dom=`), and the wrappers the library derives from
# them with the same temporary, over inner operators whose out-of-place result is their
# argument itself or a view of it. r1 = op(x1) is kept; then op(x2), op(x3, out=y3) and
# op(x1, out=y1) are called: r1 must be bit for bit unchanged, equal to y1, and share no memory
# with the operator's state (its temporaries) nor with the result of another call.

HISTORY_LEAVES = ('real', 'flatten', 'unflatten', 'ret-input')
HISTORY_WRAPPERS = ('RightScalarMult[tmp]', 'RightScalarMult[tmp]*c', 'Sum[tmp_ran,tmp_dom]',
                    'Comp[tmp]', 'Comp[tmp]*c', 'RightScalarMult[tmp].derivative',
                    'RightScalarMult[tmp].adjoint', 'Comp[tmp].adjoint', 'Sum[tmp].adjoint')
HISTORY_BRANCHES = ['history/{}/{}'.format(w, l) for w in HISTORY_WRAPPERS for l in HISTORY_LEAVES]


def history_leaves():
    import odl
    d2 = odl.uniform_discr([0, 0], [1, 1], (2, 3))
    r4 = odl.rn(4)

    class RetInput(odl.Operator):
        """Harness-defined linear operator whose out-of-place body returns its argument."""

        def _call(self, x):
            return x

        @property
        def adjoint(self):
            return self
    return [('real', lambda: odl.RealPart(r4)),
            ('flatten', lambda: odl.FlatteningOperator(d2)),
            ('unflatten', lambda: odl.FlatteningOperator(d2).inverse),
            ('ret-input', lambda: RetInput(r4, r4, linear=True))]


def deep_state_arrays(op, depth=0, seen=None):
    """Arrays reachable from the attributes of an operator (its temporaries, vectors, and the
    state of the operators it wraps)."""
    import odl
    seen = set() if seen is None else seen
    out = []
    if id(op) in seen or depth > 6:
        return out
    seen.add(id(op))
    try:
        attrs = list(vars(op).values())
    except TypeError:
        return out
    for v in attrs:
        if isinstance(v, odl.Operator):
            out += deep_state_arrays(v, depth + 1, seen)
        else:
            out += arrays_of(v)
    return out


def history_wrappers(L, c, rng):
    import odl
    D, R = L.domain, L.range
    back = L.inverse if D != R else L        # R -> D, so that compositions / sums type-check
    rs = lambda: odl.OperatorRightScalarMult(L, c, tmp=D.element())           # noqa
    cp = lambda: odl.OperatorComp(back, L, tmp=R.element())                    # noqa
    sm = lambda: odl.OperatorSum(L, L, tmp_ran=R.element(), tmp_dom=D.element())  # noqa
    p0 = rand_elem(D, rng)
    return [('RightScalarMult[tmp]', rs),
            ('RightScalarMult[tmp]*c', lambda: rs() * 0.5),
            ('Sum[tmp_ran,tmp_dom]', sm),
            ('Comp[tmp]', cp),
            ('Comp[tmp]*c', lambda: cp() * 2.0),
            ('RightScalarMult[tmp].derivative', lambda: rs().derivative(p0)),
            ('RightScalarMult[tmp].adjoint', lambda: rs().adjoint),
            ('Comp[tmp].adjoint', lambda: cp().adjoint),
            ('Sum[tmp].adjoint', lambda: sm().adjoint)]


def run_history(ctx, reps, only=None):
    """`only` = (wrapper, leaf, seed) replays exactly one recorded stratum."""
    import random
    for lname, mkL in history_leaves():
        if only is not None and only[1] != lname:
            continue
        for rep in range(reps):
            hseed = ctx.rng.getrandbits(48) if only is None else only[2]
            rng = random.Random(hseed)
            L = mkL()
            c = rng.choice([2.0, -0.5, 3.0])
            for wname, mkw in history_wrappers(L, c, rng):
                if only is not None and only[0] != wname:
                    continue
                label = 'history/{}/{}'.format(wname, lname)
                case = {'kind': 'history', 'wrapper': wname, 'leaf': lname, 'hseed': hseed}
                key = 'history {} over {}'.format(wname, lname)
                try:
                    W = mkw()
                except Exception as e:  # noqa
                    ctx.disagree(dict(case, label=label),
                                 'cannot build: {}: {}'.format(type(e).__name__, str(e)[:80]),
                                 'stratum expected', stream='history')
                    continue
                ctx.hit(label)
                x1, x2, x3 = (rand_elem(W.domain, rng) for _ in range(3))
                o1 = safe_call(W, x1)
                ctx.case(('history', wname, lname) if o1.status == 'ok' and np.any(o1.val != 0)
                         else None)
                if o1.status != 'ok':
                    ctx.violation(key + ' check=raises-on-valid-input', 'op(x1) raises ' + o1.status,
                                  case)
                    continue
                r1, snap = o1.obj, o1.val.copy()
                if shares(arrays_of(r1), deep_state_arrays(W)):
                    ctx.violation(key + ' check=result-shares-operator-state',
                                  'the element returned by op(x1) shares memory with an attribute '
                                  '(temporary) of the operator', case)
                o2 = safe_call(W, x2)
                if o2.status == 'ok' and not bitsame(snapshot(r1), snap):
                    ctx.violation(key + ' check=earlier-result-changed-by-oop-call',
                                  'r1 = op(x1) reads {} after op(x2), was {}'.format(
                                      snapshot(r1)[:6], snap[:6]), case)
                    continue
                if o2.status == 'ok' and shares(arrays_of(r1), arrays_of(o2.obj)):
                    ctx.violation(key + ' check=two-results-share-memory',
                                  'op(x1) and op(x2) share memory (x1, x2 are different objects)',
                                  case)
                y3 = filled(W.range, 'nan', rng)
                o3 = safe_call(W, x3, out=y3)
                if o3.status == 'ok' and not bitsame(snapshot(r1), snap):
                    ctx.violation(key + ' check=earlier-result-changed-by-in-place-call',
                                  'r1 = op(x1) reads {} after op(x3, out=y3), was {}'.format(
                                      snapshot(r1)[:6], snap[:6]), case)
                    continue
                y1 = filled(W.range, 'garbage', rng)
                o4 = safe_call(W, x1, out=y1)
                if o4.status != 'ok' or o4.obj is not y1:
                    ctx.violation(key + ' check=in-place', 'op(x1, out=y1): ' + o4.status, case)
                elif not bitsame(snapshot(y1), snapshot(r1)):
                    ctx.violation(key + ' check=in-place-equals-earlier-oop',
                                  'op(x1, out=y1) = {} but the kept op(x1) reads {}'.format(
                                      snapshot(y1)[:6], snapshot(r1)[:6]), case)


# ---------------------------------------------------------------------------
# per-class branch coverage of the `_call` bodies (and the same-module helpers they call),
# measured while the zoo runs: which `if` conditions were taken both ways

class CallCoverage(object):
    """Line counts of registered code objects via sys.monitoring (Python >= 3.12)."""
    TOOL = 3

    def __init__(self):
        import sys
        self.counts = {}
        self.enabled = False  # lines are counted during the deterministic coverage pass only
        self.funcs = {}       # code -> (class label, function)
        self.mon = getattr(sys, 'monitoring', None)
        self.active = False
        if self.mon is None:
            return
        try:
            self.mon.use_tool_id(self.TOOL, 'c03-call-coverage')
        except ValueError:
            try:
                self.mon.free_tool_id(self.TOOL)
                self.mon.use_tool_id(self.TOOL, 'c03-call-coverage')
            except Exception:
                return
        self.mon.register_callback(self.TOOL, self.mon.events.LINE, self._line)
        self.active = True

    def _line(self, code, lineno):
        if not self.enabled:
            return
        d = self.counts.setdefault(code, {})
        d[lineno] = d.get(lineno, 0) + 1

    def watch(self, label, func):
        if not self.active:
            return
        func = getattr(func, '__func__', func)
        code = getattr(func, '__code__', None)
        if code is None or code in self.funcs or '/odl/' not in code.co_filename.replace('\\', '/'):
            return
        # label by the DEFINING class (a `_call` inherited by several classes is one function)
        parts = getattr(func, '__qualname__', label).split('.')
        if len(parts) >= 2:
            label = parts[-2] if parts[-2] != '<locals>' else '.'.join(parts[:-1])
        self.funcs[code] = (label, func)
        self.mon.set_local_events(self.TOOL, code, self.mon.events.LINE)
        # same-module helper functions called by name (one level)
        try:
            import textwrap
            tree = ast.parse(textwrap.dedent(inspect.getsource(func)))
        except Exception:
            return
        for node in ast.walk(tree):
            if isinstance(node, ast.Call) and isinstance(node.func, ast.Name):
                g = func.__globals__.get(node.func.id)
                if inspect.isfunction(g) and g.__module__ == func.__module__:
                    hcode = g.__code__
                    if hcode not in self.funcs:
                        # class-independent label: the helper is shared by several classes
                        self.funcs[hcode] = ('helper ' + g.__name__, g)
                        self.mon.set_local_events(self.TOOL, hcode, self.mon.events.LINE)

    def close(self):
        if self.active:
            try:
                self.mon.free_tool_id(self.TOOL)
            except Exception:
                pass
            self.active = False

    def table(self):
        """{function label: [{'if': source, 'line': n, 'true': bool, 'false': bool}]} and the list
        of branches never taken (bodies that only raise are not counted)."""
        import textwrap
        out, missing = {}, []
        for code, (label, func) in self.funcs.items():
            cnt = self.counts.get(code, {})
            if not cnt:
                continue            # the function itself never ran: reported by the zoo
            try:
                src = textwrap.dedent(inspect.getsource(func))
                tree = ast.parse(src)
            except Exception:
                continue
            off = code.co_firstlineno - 1
            rows = []
            for node in ast.walk(tree):
                if not isinstance(node, ast.If):
                    continue
                l0, lb = node.lineno + off, node.body[0].lineno + off
                t = cnt.get(lb, 0) > 0
                if node.orelse:
                    f = cnt.get(node.orelse[0].lineno + off, 0) > 0
                else:
                    f = cnt.get(l0, 0) > cnt.get(lb, 0)
                if cnt.get(l0, 0) == 0:
                    continue        # nested in a branch that was never entered
                raise_only = lambda body: all(isinstance(b, ast.Raise) for b in body)   # noqa
                cond = ast.unparse(node.test)[:70]
                rows.append({'if': cond, 'line': l0, 'true': t, 'false': f})
                where = '{}:{}'.format(os.path.basename(code.co_filename), l0)
                if not t and not raise_only(node.body):
                    missing.append('{} :: if {} [true] @{}'.format(label, cond, where))
                if not f and not (node.orelse and raise_only(node.orelse)):
                    missing.append('{} :: if {} [false] @{}'.format(label, cond, where))
            if rows:
                out[label] = rows
        return out, sorted(set(missing))


def recipe_inputs(space, label):
    """Inputs constructed ON PURPOSE (a function of the label only, never of VERIF_SEED): the
    branch-coverage obligation may only rest on these. Mixed-sign / positive draws from a
    label-seeded generator, the zero vector, a tiny vector, constant vectors whose entries sum to
    1 and to 2 (sum constraints, simplex, unit balls: inside / on / outside), unit vectors and a
    large vector."""
    import hashlib
    import random
    import odl
    r = random.Random(hashlib.sha256(('recipe:' + label).encode()).digest())
    out = []
    try:
        out.append(rand_elem(space, r, False))
        out.append(rand_elem(space, r, True))
    except Exception:
        return out
    base = out[0]
    if hasattr(base, 'space'):
        try:
            one = space.one()
            n = max(1, len(flat(one)))
            out += [space.zero(), base * 0.015625, one, one * (1.0 / n), one * (2.0 / n),
                    one * (0.5 / n), base * 64.0, -one]
            if not isinstance(space, odl.ProductSpace) and hasattr(space, 'shape'):
                e0 = np.zeros(space.shape, dtype=space.dtype)
                e0.flat[0] = 1
                out += [space.element(e0), space.element(-2 * e0), space.element(0.25 * e0)]
        except Exception:
            pass
    else:
        out += [type(base)(0), type(base)(1), type(base)(-2)]
    res = []
    for x in out:
        try:
            res.append(x if (not hasattr(x, 'space') or x in space) else space.element(x))
        except Exception:
            pass
    return res


def coverage_pass(label, op):
    """Deterministic calls whose executed lines feed the per-class branch table: op(x),
    op(x, out=y) and — when domain == range — the aliased op(x, out=x), on the recipe inputs."""
    if COVERAGE is None or not COVERAGE.active:
        return
    functional = is_field(op.range)
    COVERAGE.enabled = True
    try:
        for x in recipe_inputs(op.domain, label):
            safe_call(op, x)
            if functional:
                continue
            try:
                y = op.range.element()
            except Exception:
                continue
            safe_call(op, x.copy() if hasattr(x, 'copy') else x, out=y)
            if hasattr(x, 'space') and op.domain == op.range:
                xa = x.copy()
                safe_call(op, xa, out=xa)
            # `out` IS the operator's own step-size element (proximals with an element sigma):
            # the branch `if sig is out`; the element is restored afterwards
            sig = getattr(op, 'sigma', None)
            if hasattr(sig, 'space') and hasattr(x, 'copy'):
                try:
                    if sig in op.range:
                        keep = sig.copy()
                        safe_call(op, x.copy(), out=sig)
                        sig.assign(keep)
                except Exception:  # noqa
                    pass
    finally:
        COVERAGE.enabled = False


COVERAGE = None


EXPECTED_BRANCHES = (
    ['tree/' + t for t in TREE_BRANCHES] +
    ['pso/{}/{}'.format(k, m) for k in ('pso', 'bcast', 'red', 'proj', 'projadj', 'projl')
     for m in ('oop', 'ip')] + ['pso/diag/' + m for m in ('oop', 'ip', 'alias')] +
    ['dispatch/oop/' + o for o in ('ok', 'err:domain', 'err:range', 'err:type', 'err:value')] +
    ['dispatch/ip/' + o for o in ('ok', 'err:domain', 'err:range', 'err:value')] +
    ['dispatch/dual/' + o for o in ('ok', 'err:domain', 'err:range', 'err:type', 'err:value')] +
    ['wrapper-stratum/{}/{}'.format(w, l) for w in STRATA_WRAPPERS for l in STRATA_LEAVES] +
    ['wrapper-stratum/{}/{}'.format(w, l) for w in STRATA_SHARED for l in STRATA_LINEAR_LEAVES] +
    ['argform/{}/{}'.format(c, o) for c, o, _, _ in argform_instances()] +
    ['layout/out-F', 'layout/out-strided', 'layout/x-F', 'size/large-2d', 'ownership/result'] +
    ['ownership/result/' + c for c in MODELLED if c != 'InnerProductOperator'] +
    LEAF_BRANCHES + WRAP_BRANCHES +
    ['pso/{}/{}'.format(k, m) for k in ('psocoo', 'psoadj') for m in ('oop', 'ip')] +
    ['pso-order/psocoo/ungrouped-ip', 'pso-order/psoadj/ungrouped-ip'] + HISTORY_BRANCHES +
    TMPW_BRANCHES)


def report_unhit(ctx):
    """DESIGN 7.4: a model branch never exercised by the correspondence is reported and fails
    the thorough tier."""
    unhit = [b for b in EXPECTED_BRANCHES if not ctx.branches.get(b)]
    ctx.extra['unhit_model_branches'] = unhit
    if unhit and not ctx.quick:
        ctx.disagree({'kind': 'unhit-model-branch', 'branches': unhit},
                     'never generated in this run', 'model branch exists',
                     stream='unhit-model-branch')


def run(ctx):
    global COVERAGE
    warnings.simplefilter('ignore')
    np.seterr(all='ignore')
    COVERAGE = CallCoverage()
    try:
        _run(ctx)
    finally:
        table, missing = COVERAGE.table()
        COVERAGE.close()
        COVERAGE = None
    ctx.extra['call_branch_coverage'] = table
    ctx.extra['call_branches_not_taken'] = missing
    new = [m for m in missing if m.split(' @')[0] not in KNOWN_UNREACHED]
    ctx.extra['call_branches_not_taken(new)'] = new
    if new and not ctx.quick:
        ctx.disagree({'kind': 'unhit-call-branch', 'branches': new[:40]},
                     'a `_call` branch of a zoo class was never taken (constructor options missing '
                     'in the zoo, or new code)', 'per-class branch coverage of the zoo',
                     stream='unhit-call-branch')


KNOWN_UNREACHED = {
    # (the table is fed by the deterministic coverage pass only: recipe inputs that are a function
    # of the instance label, incl. aliased calls; nothing here depends on VERIF_SEED)
    # the last `elif` of an exhaustive chain: never false
    "helper finite_diff :: if method == 'backward' [false]": 'exhaustive elif chain',
    "LpNorm :: if self.exponent == np.inf [false]": 'exhaustive elif chain (LpNorm._call)',
    # helpers that the operators always call with `out`
    "helper finite_diff :: if out is None [true]": 'operators always pass out',
    "helper proj_l1 :: if out is None [true]": 'operators always pass out',
    # no constructive recipe
    "ProximalL2 :: if x_norm > 0 [false]": 'needs ||x - g|| == 0 exactly with the (1 + eps) factor',
    "WaveletTransformInverse :: if n_recon == n_intended + 1 [false]": 'depends on pywt output sizes',
    "ProximalConvexConjKLCrossEntropy :: if not np.issubsctype(self.domain.dtype, np.complexfloating) [false]":
        'complex domain: lambertw on complex data is outside the factory contract',
    "helper _const_weight :: if isinstance(space, ProductSpace) [true]":
        'linfty proximals on product spaces are not constructible through the zoo plans',
    "helper _inner_weights :: if hasattr(weighting, 'array') [false]":
        'weighting with neither const nor array (custom weighting)',
    "helper _scale_bdry_cells :: if inverse [false]":
        'the forward scaling is reached through ResizingOperator.adjoint.inverse only',
    "ufunc_functional_factory.<locals> :: if nargin == 1 [false]": 'ufunc functionals with two inputs are not supported',
}


def _run(ctx):
    run_dispatch(ctx)
    run_trees(ctx, 150 if ctx.quick else 2000)
    run_pso(ctx, 120 if ctx.quick else 1200)
    run_leaves(ctx, 60 if ctx.quick else 1500)
    run_wrapper_strata(ctx, 1 if ctx.quick else 4)
    run_history(ctx, 1 if ctx.quick else 6)
    run_tmpw(ctx, 30 if ctx.quick else 600)
    run_layouts(ctx)
    run_argforms(ctx)        # (not deep: the spellings differ in construction, not in inputs)
    run_zoo(ctx, deep=not ctx.quick)
    report_unhit(ctx)


def search(ctx, broken):
    """Obligation / correspondence broke without an oracle failure: run the oracle harder."""
    warnings.simplefilter('ignore')
    np.seterr(all='ignore')
    run_zoo(ctx, deep=True)
    run_trees(ctx, 1500)
    run_pso(ctx, 1000)
    run_leaves(ctx, 3000)
    run_wrapper_strata(ctx, 10)
    run_history(ctx, 20)
    run_tmpw(ctx, 600)


def replay(ctx, case):
    import random
    if case.get('kind') == 'zoo':
        base = case['label'].split('.')[0]
        for name, vname, thunk in all_instances(Ctx2()):
            if '{}[{}]'.format(name, vname) != base:
                continue
            try:
                op = thunk()
            except Exception:
                return None
            for lab, o, lev in reach(base, op, 2):
                if lab != case['label']:
                    continue
                sub = Ctx2()
                fixed = {'x': case['x']} if isinstance(case.get('x'), dict) else None
                # the recorded input (checks that need no input, e.g. malformed-x, have none);
                # the random parts of the oracle (prefill values, wrapper vectors) are redrawn
                for seed in range(3):
                    check_instance(sub, lab, o, random.Random(seed), True, fixed=fixed)
                hits = [v for v in sub.violations if v['key'].endswith('check=' + case['check'])]
                return hits[0]['what'] if hits else None
        return None
    if case.get('kind') == 'dispatch':
        sub = Ctx2()
        run_dispatch(sub, cases=[{k: v for k, v in case.items() if k != 'kind'}], model=False)
        return sub.violations[0]['what'] if sub.violations else None
    if case.get('kind') == 'argform':
        sub = Ctx2()
        sub.rng = random.Random(0)
        run_argforms(sub)
        hits = [v for v in sub.violations if v['replay'].get('class') == case.get('class') and
                v['replay'].get('option') == case.get('option')]
        return hits[0]['what'] if hits else None
    if case.get('kind') == 'layout':
        sub = Ctx2()
        run_layouts(sub, only=(case['size'], case['op'], case['x_layout'], case['out_layout'],
                               case['lseed']))
        return sub.violations[0]['what'] if sub.violations else None
    if case.get('kind') == 'stratum':
        sub = Ctx2()
        run_wrapper_strata(sub, 1, only=(case['leaf'], case['sseed']))
        hits = [v for v in sub.violations if v['replay'].get('wrapper') == case.get('wrapper')]
        return hits[0]['what'] if hits else None
    if case.get('kind') == 'pso':
        sub = Ctx2()
        eval_pso(sub, case, None, None)
        return sub.violations[0]['what'] if sub.violations else None
    if case.get('kind') == 'tmpw':
        sub = Ctx2()
        eval_tmpw(sub, case, None, None)
        return sub.violations[0]['what'] if sub.violations else None
    if case.get('kind') == 'history':
        sub = Ctx2()
        run_history(sub, 1, only=(case['wrapper'], case['leaf'], case['hseed']))
        return sub.violations[0]['what'] if sub.violations else None
    if case.get('kind') == 'leaf':
        sub = Ctx2()
        eval_leaf(sub, case, None, None)
        return sub.violations[0]['what'] if sub.violations else None
    if case.get('kind') == 'tree':
        sub = Ctx2()
        eval_tree(sub, case, None, None)
        return sub.violations[0]['what'] if sub.violations else None
    return None


class Ctx2(core.Ctx):
    """Scratch context for replays (collects violations without touching the real one)."""

    def __init__(self):
        core.Ctx.__init__(self, 'C03', 'quick', 0)
