"""C03 — operator calls: in-place equals out-of-place, input untouched, result in range,
malformed input rejected.

Tie to /repo (C, hand-written model + correspondence):
  * dispatch stream: synthetic Operator subclasses with each `_call` signature class
    (out-of-place only / in-place only / dual), each return behaviour (None / out / another
    object), raw or element results, operator or functional, x in {domain element, castable,
    non-castable}, out in {None, range element, foreign}: outcome (error kind or returned
    object, values, x afterwards) of the REAL `Operator.__call__` vs the model `call` of
    Model/Call.lean (driver at Float);
  * tree stream: random expression trees built with the real expression classes over real
    default_ops / proximal leaves vs the model's `callO` / `callI` on the same tree, in the
    three modes out-of-place, in-place (garbage / NaN / inf in out), aliased (out is x);
  * product-space stream: ProductSpaceOperator (random sparsity, several blocks per row, empty
    rows), BroadcastOperator, ReductionOperator, DiagonalOperator (also aliased),
    ComponentProjection, ComponentProjectionAdjoint with random trees as blocks vs the model.
Oracle (independent of the model): every concrete Operator/Functional class reachable from
odl.* (introspection + constructor table; adjoint/derivative/inverse/gradient/proximal/
convex_conj of every instance one level deep): op(x) in range; op(x, out=y) is y and equals
op(x) for NaN / inf / garbage prefilled y; x bitwise unchanged; (op + v)(x) does not write x;
non-castable x -> OpDomainError, foreign out -> OpRangeError, out with a functional ->
TypeError.  Classes without a constructor are listed in the evidence (skipped_classes).
"""
import importlib
import inspect
import pkgutil
import struct
import warnings

import numpy as np

from vf import core

EXTRA_TARGETS = ('OdlModel.Model.ProxFloat', 'OdlModel.Model.Call')   # imported by the driver
RULE = ('zoo: class x constructor variant x derived operator (self, adjoint, derivative, inverse, '
        'gradient, proximal, convex_conj) x input draw x prefill {nan, inf, garbage}; dispatch: '
        'signature class x return behaviour x raw x functional x x-kind x out-kind; tree: random '
        'expression trees (depth <= 4) x mode. Non-trivial = the call returned a result that is '
        'not identically zero; distinct = distinct (stream, class/variant/derived | dispatch '
        'tuple | tree shape, mode) signatures among non-trivial cases.')
TRUSTED = ['hand-written model Model/Call.lean (dispatch, bridges, expression classes) and '
           'Model/ProxProg.lean (leaf bodies), tied by running them against the real classes',
           'constructor table of the harness (classes it cannot construct are listed as skipped)']
ASSUMPTIONS = ['leaf operator classes without an executable model are opaque: the leaf contract '
               '(fresh out-of-place result, in-place result independent of the old content of '
               'out, no write to x) is established for them on sampled inputs only (a test)',
               'of the membership checks of the inner calls made by expression classes only the '
               'rejection of out by a functional is modelled (constructors enforce matching spaces)',
               'identity aliasing only; IEEE rounding outside the model (comparison of in-place '
               'and out-of-place results with 1e-9 relative tolerance)']


def bits(x):
    return struct.unpack('<Q', struct.pack('<d', float(x)))[0]


def unbits(n):
    return struct.unpack('<d', struct.pack('<Q', int(n)))[0]


def bl(arr, sep=','):
    arr = np.asarray(arr, dtype=float).ravel()
    return sep.join(str(bits(v)) for v in arr.tolist()) if arr.size else '-'


def parse_bl(s):
    return np.array([] if s in ('', '-') else [unbits(t) for t in s.split(',')], dtype=float)


# ---------------------------------------------------------------------------
# generic element helpers

def flat(x):
    """Any element / scalar / array -> flat complex-or-float numpy array."""
    import odl
    if isinstance(x, odl.set.space.LinearSpaceElement) and isinstance(x.space, odl.ProductSpace):
        parts = [flat(p) for p in x]
        return np.concatenate(parts) if parts else np.zeros(0)
    if hasattr(x, 'asarray'):
        return np.asarray(x.asarray()).ravel(order='C')
    return np.asarray(x).ravel()


def same(a, b, rtol=1e-9):
    a, b = np.asarray(a), np.asarray(b)
    if a.shape != b.shape:
        return False
    if a.dtype == bool or b.dtype == bool:
        return bool(np.array_equal(a, b))
    with np.errstate(all='ignore'):
        return bool(np.allclose(a, b, rtol=rtol, atol=1e-12, equal_nan=True))


def bitsame(a, b):
    a, b = np.asarray(a), np.asarray(b)
    return a.shape == b.shape and a.dtype == b.dtype and a.tobytes() == b.tobytes()


def rand_elem(space, rng, positive=False):
    import odl
    if isinstance(space, odl.ProductSpace):
        return space.element([rand_elem(s, rng, positive) for s in space])
    if isinstance(space, odl.set.sets.Field) or isinstance(space, (odl.RealNumbers,
                                                                   odl.ComplexNumbers)):
        v = rng.randint(1, 16) / 8.0 if positive else rng.randint(-16, 16) / 8.0
        if isinstance(space, odl.ComplexNumbers):
            return complex(v, rng.randint(-8, 8) / 8.0)
        return float(v)
    if isinstance(space, odl.Integers):
        return rng.randint(-5, 5)
    shape = space.shape
    n = int(np.prod(shape))
    dt = np.dtype(space.dtype)
    if positive:
        ks = np.array([rng.randint(2, 15) for _ in range(n)], dtype=float) / 8
    else:
        ks = np.array([rng.randint(-16, 16) for _ in range(n)], dtype=float) / 8
    if np.issubdtype(dt, np.complexfloating):
        ks = ks + 1j * np.array([rng.randint(-8, 8) for _ in range(n)], dtype=float) / 8
    elif np.issubdtype(dt, np.integer):
        ks = np.array([rng.randint(1, 6) if positive else rng.randint(-6, 6) for _ in range(n)])
    elif dt == bool:
        ks = np.array([rng.random() < 0.5 for _ in range(n)])
    return space.element(np.asarray(ks).astype(dt).reshape(shape))


def filled(space, kind, rng):
    """Range element prefilled with NaN / inf / garbage (integers: garbage)."""
    import odl
    if isinstance(space, odl.ProductSpace):
        return space.element([filled(s, kind, rng) for s in space])
    dt = np.dtype(space.dtype)
    n = int(np.prod(space.shape))
    if np.issubdtype(dt, np.floating) or np.issubdtype(dt, np.complexfloating):
        val = {'nan': np.nan, 'inf': np.inf, 'garbage': None}[kind]
        if val is None:
            arr = np.array([(-1) ** k * (1234.5 + 1e5 * k) for k in range(n)])
        else:
            arr = np.full(n, val)
    elif dt == bool:
        arr = np.array([k % 2 == 0 for k in range(n)])
    else:
        arr = np.array([(-1) ** k * (77 + k) for k in range(n)])
    return space.element(arr.astype(dt).reshape(space.shape))


def is_field(s):
    import odl
    return isinstance(s, odl.set.sets.Field)


def snapshot(x):
    a = flat(x)
    return a.copy()


# ---------------------------------------------------------------------------
# the zoo: classes by introspection + constructor table

def all_operator_classes():
    import odl
    seen, import_failures = {}, {}
    with warnings.catch_warnings():
        warnings.simplefilter('ignore')
        for m in pkgutil.walk_packages(odl.__path__, 'odl.'):
            if '.test' in m.name or 'conftest' in m.name or 'examples' in m.name:
                continue
            try:
                mod = importlib.import_module(m.name)
            except Exception as e:  # missing optional back-end
                import_failures[m.name] = type(e).__name__
                continue
            for nm, c in inspect.getmembers(mod, inspect.isclass):
                if issubclass(c, odl.Operator) and c.__module__ == mod.__name__:
                    seen[nm] = c
    return seen, import_failures


ABSTRACT = {'Operator', 'Functional', 'PointwiseTensorFieldOperator', 'PointwiseInnerBase',
            'DiscreteFourierTransformBase', 'FourierTransformBase', 'WaveletTransformBase'}


def matrix_nd():
    """MatrixOperator along every axis of 3-d and 4-d tensor spaces: square and non-square,
    dense (scipy sparse matrices are refused by the constructor for more than one axis)."""
    import odl
    out = []
    for shape in ((3, 3, 2), (3, 2, 4), (2, 3, 2, 3)):
        for axis in range(len(shape)):
            for square in (True, False):
                rows = shape[axis] if square else shape[axis] + 1
                arr = (np.arange(rows * shape[axis], dtype=float).reshape(rows, shape[axis]) % 5
                       - 2.0) / 2
                tag = '{}d{}-ax{}-{}'.format(len(shape), 'x'.join(map(str, shape)), axis,
                                             'sq' if square else 'rect')
                out.append((tag, lambda arr=arr, shape=shape, axis=axis:
                            odl.MatrixOperator(arr, domain=odl.rn(shape), axis=axis)))
    return out


def resizing_bdry():
    """ResizingOperator on spaces with grid nodes on the boundary (fractional boundary cells),
    1-d and 2-d, every padding mode, growing and shrinking; the adjoints are reached as derived
    operators."""
    import odl
    out = []
    s1 = odl.uniform_discr(0, 1, 5, nodes_on_bdry=True)
    s2 = odl.uniform_discr([0, 0], [1, 1], (4, 5), nodes_on_bdry=True)
    s2m = odl.uniform_discr([0, 0], [1, 1], (4, 5), nodes_on_bdry=[(True, False), (False, True)])
    for mode in ('constant', 'symmetric', 'periodic', 'order0', 'order1'):
        kw = {'pad_mode': mode, 'discr_kwargs': {'nodes_on_bdry': True}}
        out.append(('bdry1d-grow-' + mode, lambda kw=kw: odl.ResizingOperator(s1, ran_shp=(9,), **kw)))
        out.append(('bdry1d-shrink-' + mode,
                    lambda kw=kw: odl.ResizingOperator(s1, ran_shp=(3,), **kw)))
        out.append(('bdry2d-grow-' + mode,
                    lambda kw=kw: odl.ResizingOperator(s2, ran_shp=(8, 7), **kw)))
        out.append(('bdry2d-mixed-' + mode, lambda mode=mode: odl.ResizingOperator(
            s2m, ran_shp=(6, 4), pad_mode=mode,
            discr_kwargs={'nodes_on_bdry': [(True, False), (False, True)]})))
    return out


def constructors():
    """class name -> list of (variant, thunk)."""
    import odl
    S = odl.solvers
    r3 = odl.rn(3)
    r4 = odl.rn(4)
    c3 = odl.cn(3)
    d6 = odl.uniform_discr(0, 1, 6)
    d2 = odl.uniform_discr([0, 0], [1, 1], (4, 3))
    dc = odl.uniform_discr(0, 1, 8, dtype='complex128')
    ps = odl.ProductSpace(r3, 2)
    ps3 = odl.ProductSpace(r3, 3)
    vf = odl.ProductSpace(d2, 2)
    i3 = odl.tensor_space(3, dtype='int64')
    R = odl.RealNumbers()
    v3 = r3.element([1, -2, 0.5])
    w3 = r3.element([0.5, 2, -1])
    Id = odl.IdentityOperator(r3)
    Sc = odl.ScalingOperator(r3, 2.0)
    Mu = odl.MultiplyOperator(v3)
    Pw = odl.PowerOperator(r3, 2)
    Cn = odl.ConstantOperator(w3)
    inner = odl.InnerProductOperator(v3)
    mat = np.array([[1.0, 2, 0], [0, -1, 0.5]])
    T = {
        'ComplexEmbedding': [('real', lambda: odl.ComplexEmbedding(r3, scalar=1 + 2j)),
                             ('cplx', lambda: odl.ComplexEmbedding(c3, scalar=2j))],
        'ComplexModulus': [('c', lambda: odl.ComplexModulus(c3)), ('r', lambda: odl.ComplexModulus(r3))],
        'ComplexModulusSquared': [('c', lambda: odl.ComplexModulusSquared(c3)),
                                  ('r', lambda: odl.ComplexModulusSquared(r3))],
        'ConstantOperator': [('same', lambda: odl.ConstantOperator(w3)),
                             ('dom', lambda: odl.ConstantOperator(w3, domain=d6)),
                             ],
        'DistOperator': [('', lambda: odl.DistOperator(v3))],
        'IdentityOperator': [('', lambda: odl.IdentityOperator(r3)),
                             ('ps', lambda: odl.IdentityOperator(ps))],
        'ImagPart': [('c', lambda: odl.ImagPart(c3)), ('r', lambda: odl.ImagPart(r3))],
        'RealPart': [('c', lambda: odl.RealPart(c3)), ('r', lambda: odl.RealPart(r3))],
        'InnerProductOperator': [('', lambda: odl.InnerProductOperator(v3))],
        'LinCombOperator': [('', lambda: odl.LinCombOperator(r3, 2.0, -1.0)),
                            ('a0', lambda: odl.LinCombOperator(r3, 0.0, 1.0))],
        'MultiplyOperator': [('elem', lambda: odl.MultiplyOperator(v3)),
                             ('scal', lambda: odl.MultiplyOperator(2.0, domain=r3, range=r3)),
                             ('fielddom', lambda: odl.MultiplyOperator(v3, domain=R))],
        'NormOperator': [('', lambda: odl.NormOperator(r3))],
        'PowerOperator': [('2', lambda: odl.PowerOperator(r3, 2)),
                          ('3', lambda: odl.PowerOperator(d6, 3)),
                          ('field', lambda: odl.PowerOperator(R, 2))],
        'ScalingOperator': [('2', lambda: odl.ScalingOperator(r3, 2.0)),
                            ('0', lambda: odl.ScalingOperator(r3, 0.0)),
                            ('ps', lambda: odl.ScalingOperator(ps, -1.5))],
        'ZeroOperator': [('same', lambda: odl.ZeroOperator(r3)),
                         ('ran', lambda: odl.ZeroOperator(r3, range=d6))],
        'OperatorSum': [('', lambda: odl.OperatorSum(Sc, Mu)), ('nl', lambda: odl.OperatorSum(Pw, Cn)),
                        ('func', lambda: odl.OperatorSum(inner, odl.NormOperator(r3)))],
        'OperatorVectorSum': [('', lambda: odl.OperatorVectorSum(Sc, w3)),
                              ('pw', lambda: odl.OperatorVectorSum(Pw, w3))],
        'OperatorComp': [('', lambda: odl.OperatorComp(Sc, Mu)), ('nl', lambda: odl.OperatorComp(Pw, Cn)),
                         ('mat', lambda: odl.OperatorComp(odl.MatrixOperator(mat),
                                                          odl.ScalingOperator(r3, 2.0)))],
        'OperatorPointwiseProduct': [('', lambda: odl.OperatorPointwiseProduct(Sc, Mu)),
                                     ('func', lambda: odl.OperatorPointwiseProduct(
                                         inner, odl.NormOperator(r3)))],
        'OperatorLeftScalarMult': [('', lambda: odl.OperatorLeftScalarMult(Pw, -2.0)),
                                   ('func', lambda: odl.OperatorLeftScalarMult(inner, 3.0))],
        'OperatorRightScalarMult': [('', lambda: odl.OperatorRightScalarMult(Pw, -2.0)),
                                    ('tmp', lambda: odl.OperatorRightScalarMult(Pw, 0.5,
                                                                                tmp=r3.element()))],
        'FunctionalLeftVectorMult': [('', lambda: odl.FunctionalLeftVectorMult(inner, w3))],
        'OperatorLeftVectorMult': [('', lambda: odl.OperatorLeftVectorMult(Pw, w3))],
        'OperatorRightVectorMult': [('', lambda: odl.OperatorRightVectorMult(Pw, w3)),
                                    ('func', lambda: odl.OperatorRightVectorMult(inner, w3))],
        'BroadcastOperator': [('', lambda: odl.BroadcastOperator(Id, Sc)),
                              ('nl', lambda: odl.BroadcastOperator(Pw, Mu, Cn))],
        'ComponentProjection': [('0', lambda: odl.ComponentProjection(ps, 0)),
                                ('list', lambda: odl.ComponentProjection(ps3, [0, 2]))],
        'ComponentProjectionAdjoint': [('1', lambda: odl.ComponentProjectionAdjoint(ps, 1)),
                                       ('list', lambda: odl.ComponentProjectionAdjoint(ps3, [0, 2]))],
        'DiagonalOperator': [('', lambda: odl.DiagonalOperator(Id, Sc)),
                             ('nl', lambda: odl.DiagonalOperator(Pw, Mu))],
        'ProductSpaceOperator': [('full', lambda: odl.ProductSpaceOperator([[Id, Sc], [Mu, Pw]])),
                                 ('sparse', lambda: odl.ProductSpaceOperator([[Id, None], [Sc, Mu]])),
                                 ('emptyrow', lambda: odl.ProductSpaceOperator(
                                     [[None, Id], [None, None]], domain=ps, range=ps))],
        'ReductionOperator': [('', lambda: odl.ReductionOperator(Id, Sc)),
                              ('nl', lambda: odl.ReductionOperator(Pw, Mu, Cn))],
        'FlatteningOperator': [('C', lambda: odl.FlatteningOperator(odl.rn((2, 3)))),
                               ('F', lambda: odl.FlatteningOperator(odl.rn((2, 3)), order='F'))],
        'MatrixOperator': [('rect', lambda: odl.MatrixOperator(mat)),
                           ('square', lambda: odl.MatrixOperator(np.array([[0.0, 1, 0], [2, 0, 0],
                                                                            [0, 0, -1]]))),
                           ('axis', lambda: odl.MatrixOperator(mat, domain=odl.rn((2, 3)), axis=1)),
                           ('sparse', lambda: odl.MatrixOperator(
                               __import__('scipy.sparse').sparse.csr_matrix(mat)))] + matrix_nd(),
        'PointwiseInner': [('', lambda: odl.PointwiseInner(vf, vf.one())),
                           ('w', lambda: odl.PointwiseInner(vf, vf.one(), weighting=[1, 2]))],
        'PointwiseInnerAdjoint': [('', lambda: odl.PointwiseInner(vf, vf.one()).adjoint)],
        'PointwiseNorm': [('2', lambda: odl.PointwiseNorm(vf)), ('1', lambda: odl.PointwiseNorm(vf, 1)),
                          ('inf', lambda: odl.PointwiseNorm(vf, float('inf'))),
                          ('w', lambda: odl.PointwiseNorm(vf, 2, weighting=[1, 2])),
                          ('p', lambda: odl.PointwiseNorm(vf, 1.5))],
        'PointwiseSum': [('', lambda: odl.PointwiseSum(vf))],
        'SamplingOperator': [('pt', lambda: odl.SamplingOperator(d2, [[0, 1, 3], [1, 2, 0]])),
                             ('int', lambda: odl.SamplingOperator(d2, [[0, 1], [1, 2]],
                                                                  variant='integrate'))],
        'WeightedSumSamplingOperator': [
            ('char', lambda: odl.WeightedSumSamplingOperator(d2, [[0, 1, 1], [1, 2, 2]])),
            ('dirac', lambda: odl.WeightedSumSamplingOperator(d2, [[0, 1], [1, 2]], variant='dirac'))],
        'Gradient': [('', lambda: odl.Gradient(d2)),
                     ('c', lambda: odl.Gradient(d2, method='central', pad_mode='symmetric')),
                     ('1d', lambda: odl.Gradient(d6, method='backward', pad_mode='periodic'))],
        'Divergence': [('', lambda: odl.Divergence(range=d2)),
                       ('c', lambda: odl.Divergence(range=d2, method='central', pad_mode='order1'))],
        'Laplacian': [('', lambda: odl.Laplacian(d2)),
                      ('sym', lambda: odl.Laplacian(d2, pad_mode='symmetric'))],
        'PartialDerivative': [('f', lambda: odl.PartialDerivative(d2, 0)),
                              ('b', lambda: odl.PartialDerivative(d2, 1, method='backward',
                                                                  pad_mode='constant', pad_const=1)),
                              ('c', lambda: odl.PartialDerivative(d6, 0, method='central',
                                                                  pad_mode='order2'))],
        'Resampling': [('up', lambda: odl.Resampling(d6, odl.uniform_discr(0, 1, 12), interp='linear')),
                       ('down', lambda: odl.Resampling(d6, odl.uniform_discr(0, 1, 3), interp='nearest'))],
        'ResizingOperator': [('grow', lambda: odl.ResizingOperator(d6, ran_shp=(10,))),
                             ('shrink', lambda: odl.ResizingOperator(d6, ran_shp=(4,))),
                             ('sym', lambda: odl.ResizingOperator(d2, ran_shp=(6, 5),
                                                                  pad_mode='symmetric'))]
        + resizing_bdry(),
        'LinDeformFixedDisp': [('', lambda: odl.deform.LinDeformFixedDisp(
            odl.ProductSpace(d6, 1).element([np.linspace(-0.1, 0.1, 6)])))],
        'LinDeformFixedTempl': [('', lambda: odl.deform.LinDeformFixedTempl(
            d6.element(np.arange(6.0))))],
        'DiscreteFourierTransform': [('', lambda: odl.trafos.DiscreteFourierTransform(dc)),
                                     ('half', lambda: odl.trafos.DiscreteFourierTransform(
                                         odl.uniform_discr(0, 1, 8), halfcomplex=True))],
        'DiscreteFourierTransformInverse': [
            ('', lambda: odl.trafos.DiscreteFourierTransform(dc).inverse)],
        'FourierTransform': [('', lambda: odl.trafos.FourierTransform(dc)),
                             ('real', lambda: odl.trafos.FourierTransform(odl.uniform_discr(-1, 1, 8)))],
        'FourierTransformInverse': [('', lambda: odl.trafos.FourierTransform(dc).inverse)],
        'WaveletTransform': [('', lambda: odl.trafos.WaveletTransform(
            odl.uniform_discr(0, 1, 8), 'haar', nlevels=2))],
        'WaveletTransformInverse': [('', lambda: odl.trafos.WaveletTransform(
            odl.uniform_discr(0, 1, 8), 'haar', nlevels=2).inverse)],
        'RayTransform': [('', lambda: odl.tomo.RayTransform(
            odl.uniform_discr([-1, -1], [1, 1], (8, 8)),
            odl.tomo.parallel_beam_geometry(odl.uniform_discr([-1, -1], [1, 1], (8, 8)), 5),
            impl='skimage'))],
        'NumericalDerivative': [('', lambda: S.NumericalDerivative(Pw, v3))],
        'NumericalGradient': [('', lambda: S.NumericalGradient(S.L2NormSquared(r3)))],
        'RosenbrockFunctional': [('', lambda: S.RosenbrockFunctional(odl.rn(2)))],
        # functionals
        'LpNorm': [('1.5', lambda: S.LpNorm(r3, 1.5))],
        'L1Norm': [('', lambda: S.L1Norm(r3)), ('d', lambda: S.L1Norm(d6))],
        'L2Norm': [('', lambda: S.L2Norm(r3))],
        'L2NormSquared': [('', lambda: S.L2NormSquared(d6))],
        'GroupL1Norm': [('', lambda: S.GroupL1Norm(vf))],
        'IndicatorGroupL1UnitBall': [('', lambda: S.IndicatorGroupL1UnitBall(vf))],
        'IndicatorLpUnitBall': [('2', lambda: S.IndicatorLpUnitBall(r3, 2)),
                                ('1', lambda: S.IndicatorLpUnitBall(r3, 1)),
                                ('inf', lambda: S.IndicatorLpUnitBall(r3, float('inf')))],
        'ConstantFunctional': [('', lambda: S.ConstantFunctional(r3, 2.0))],
        'ZeroFunctional': [('', lambda: S.ZeroFunctional(r3))],
        'ScalingFunctional': [('', lambda: S.ScalingFunctional(R, 3.0))],
        'IdentityFunctional': [('', lambda: S.IdentityFunctional(R))],
        'IndicatorBox': [('', lambda: S.IndicatorBox(r3, -1, 1))],
        'IndicatorNonnegativity': [('', lambda: S.IndicatorNonnegativity(r3))],
        'IndicatorZero': [('', lambda: S.IndicatorZero(r3))],
        'KullbackLeibler': [('', lambda: S.KullbackLeibler(r3, prior=r3.element([1, 2, 0.5])))],
        'KullbackLeiblerConvexConj': [('', lambda: S.KullbackLeibler(
            r3, prior=r3.element([1, 2, 0.5])).convex_conj)],
        'KullbackLeiblerCrossEntropy': [('', lambda: S.KullbackLeiblerCrossEntropy(
            r3, prior=r3.element([1, 2, 0.5])))],
        'KullbackLeiblerCrossEntropyConvexConj': [('', lambda: S.KullbackLeiblerCrossEntropy(
            r3, prior=r3.element([1, 2, 0.5])).convex_conj)],
        'SeparableSum': [('', lambda: S.SeparableSum(S.L1Norm(r3), S.L2NormSquared(r3)))],
        'QuadraticForm': [('', lambda: S.QuadraticForm(operator=Sc, vector=v3, constant=1.0))],
        'NuclearNorm': [('', lambda: S.NuclearNorm(odl.ProductSpace(odl.ProductSpace(d6, 2), 2)))],
        'IndicatorNuclearNormUnitBall': [('', lambda: S.IndicatorNuclearNormUnitBall(
            odl.ProductSpace(odl.ProductSpace(d6, 2), 2)))],
        'IndicatorSimplex': [('', lambda: S.IndicatorSimplex(r3))],
        'IndicatorSumConstraint': [('', lambda: S.IndicatorSumConstraint(r3))],
        'MoreauEnvelope': [('', lambda: S.MoreauEnvelope(S.L1Norm(r3)))],
        'Huber': [('', lambda: S.Huber(r3, 0.5)), ('ps', lambda: S.Huber(vf, 0.5))],
        'BregmanDistance': [('', lambda: S.BregmanDistance(S.L2NormSquared(r3), v3, S.L2NormSquared(r3).gradient(v3)))],
        'FunctionalComp': [('', lambda: S.L1Norm(r3) * Sc)],
        'FunctionalDefaultConvexConjugate': [('', lambda: __import__('odl.solvers.functional.functional', fromlist=['x'])
            .FunctionalDefaultConvexConjugate(S.L2NormSquared(r3)))],
        'FunctionalLeftScalarMult': [('', lambda: 2.0 * S.L1Norm(r3))],
        'FunctionalRightScalarMult': [('', lambda: S.L1Norm(r3) * 2.0)],
        'FunctionalProduct': [('', lambda: S.FunctionalProduct(S.L1Norm(r3), S.L2NormSquared(r3)))],
        'FunctionalQuadraticPerturb': [('', lambda: S.FunctionalQuadraticPerturb(
            S.L1Norm(r3), quadratic_coeff=0.5, linear_term=v3))],
        'FunctionalQuotient': [('', lambda: S.FunctionalQuotient(S.L1Norm(r3),
                                                                 S.ConstantFunctional(r3, 2.0)))],
        'FunctionalRightVectorMult': [('', lambda: S.L1Norm(r3) * v3)],
        'FunctionalScalarSum': [('', lambda: S.L1Norm(r3) + 2.0)],
        'FunctionalSum': [('', lambda: S.L1Norm(r3) + S.L2NormSquared(r3))],
        'FunctionalTranslation': [('', lambda: S.L1Norm(r3).translated(v3))],
        'InfimalConvolution': [('', lambda: S.InfimalConvolution(S.L1Norm(r3), S.L2NormSquared(r3)))],
    }
    return T, dict(r3=r3, i3=i3, R=R)


INT_UFUNCS = ('shift', 'bitwise', 'invert')


def ufunc_instances(name, cls):
    import odl
    if name.endswith('_func'):
        return [('', lambda: cls(odl.RealNumbers()))]
    if any(t in name for t in INT_UFUNCS):
        return [('int', lambda: cls(odl.tensor_space(3, dtype='int64')))]
    return [('rn', lambda: cls(odl.rn(3))), ('discr', lambda: cls(odl.uniform_discr(0, 1, 4)))]


DERIVED = ('adjoint', 'inverse', 'gradient', 'convex_conj', 'derivative', 'proximal')


def derived_ops(op, x):
    """One level of operators reachable from an instance."""
    out = []
    for attr in DERIVED:
        try:
            if attr == 'derivative':
                d = op.derivative(x)
            elif attr == 'proximal':
                d = op.proximal(0.5)
            else:
                d = getattr(op, attr)
        except Exception:  # not available
            continue
        import odl
        if isinstance(d, odl.Operator) and d is not op:
            out.append((attr, d))
    return out


class Outcome(object):
    def __init__(self, status, val=None, obj=None):
        self.status, self.val, self.obj = status, val, obj


def errkind(e):
    import odl
    from odl.operator.operator import OpDomainError, OpRangeError
    if isinstance(e, OpDomainError):
        return 'err:domain'
    if isinstance(e, OpRangeError):
        return 'err:range'
    if isinstance(e, TypeError):
        return 'err:type'
    if isinstance(e, ValueError):
        return 'err:value'
    return 'err:other:' + type(e).__name__


def safe_call(op, x, **kw):
    try:
        with warnings.catch_warnings():
            warnings.simplefilter('ignore')
            with np.errstate(all='ignore'):
                r = op(x, **kw)
        return Outcome('ok', snapshot(r), r)
    except Exception as e:  # noqa
        return Outcome(errkind(e) + ':' + str(e)[:80])


def check_instance(ctx, label, op, rng, deep=False):
    """The C03 oracle on one operator instance. Returns True if evaluated non-trivially."""
    import odl
    problems = []
    nontrivial = False
    draws = [False, True, 'zero'] if not deep else [False, True, 'zero', False, True, 'small']
    functional = is_field(op.range)
    for positive in draws:
        try:
            if positive in ('zero', 'small'):
                # the zero / a tiny element: reaches the `set_zero` / degenerate branches
                x = rand_elem(op.domain, rng, False)
                if hasattr(x, 'space'):
                    x = x * (0.0 if positive == 'zero' else 0.015625)
                    if not (x in op.domain):
                        x = op.domain.element(x)
                else:
                    x = type(x)(0)
            else:
                x = rand_elem(op.domain, rng, positive)
        except Exception as e:  # noqa
            ctx.extra.setdefault('no_input_generator', {})[label] = str(e)[:80]
            return False
        x0 = snapshot(x)
        ref = safe_call(op, x)
        xdesc = [complex(v) if np.iscomplexobj(x0) else float(v) for v in x0[:12]]
        if ref.status != 'ok':
            ctx.err(ref.status.split(':')[1])
            # cannot evaluate here (e.g. NotImplementedError): in-place must not "succeed" either
            continue
        if not (ref.obj in op.range):
            problems.append(('result-in-range', 'op(x) is not an element of op.range', xdesc))
        if not bitsame(snapshot(x), x0):
            problems.append(('input-unchanged-oop', 'x modified by op(x)', xdesc))
        if np.any(ref.val != 0):
            nontrivial = True
        # a second call on the same input must give the same result (an operator that scaled
        # the array behind x in place would not)
        again = safe_call(op, x)
        if again.status != 'ok' or not same(again.val, ref.val, rtol=1e-12):
            problems.append(('second-call-same-result',
                             'op(x) called twice gives different results: {} then {}'.format(
                                 ref.val[:4], again.val[:4] if again.status == 'ok'
                                 else again.status), xdesc))
        if functional:
            o = safe_call(op, x, out=ref.obj)
            if not o.status.startswith('err:type'):
                problems.append(('functional-out-rejected',
                                 'op(x, out=..) with a functional gave {} instead of TypeError'
                                 .format(o.status), xdesc))
        else:
            for kind in ('nan', 'inf', 'garbage'):
                try:
                    y = filled(op.range, kind, rng)
                except Exception:
                    continue
                o = safe_call(op, x, out=y)
                if o.status != 'ok':
                    problems.append(('in-place-raises', 'op(x, out=y) raises {}'.format(o.status),
                                     xdesc))
                    break
                if o.obj is not y:
                    problems.append(('returns-out', 'op(x, out=y) did not return y', xdesc))
                yv0 = snapshot(y)
                with np.errstate(all='ignore'):
                    fin = np.isfinite(ref.val) if ref.val.dtype.kind in 'fc' else \
                        np.ones(ref.val.shape, dtype=bool)
                if yv0.shape != ref.val.shape:
                    fin = None
                # entries where op(x) itself is not finite (x outside the domain of definition,
                # e.g. the KL gradient at 0) are not compared
                if fin is None or not same(yv0[fin], ref.val[fin]):
                    yv = snapshot(y)
                    bad = [i for i in range(min(len(yv), len(ref.val)))
                           if not same(yv[i:i + 1], ref.val[i:i + 1])]
                    problems.append(('in-place-equals-oop prefill=' + kind,
                                     'op(x, out=y) with {}-prefilled y differs from op(x) at flat '
                                     'index {}: got {!r}, op(x) gives {!r}'.format(
                                         kind, bad[:1], yv[bad[0]] if bad else None,
                                         ref.val[bad[0]] if bad else None), xdesc))
                if not bitsame(snapshot(x), x0):
                    problems.append(('input-unchanged-ip', 'x modified by op(x, out=y)', xdesc))
                    break
            # aliased call where possible is C10's subject; here: OperatorVectorSum must not
            # write into x even if the leaf returns its input
            if isinstance(op.range, odl.LinearSpace) and (deep or positive is False):
                # expression classes around the instance must not write into x even when op(x)
                # returns x itself or a view of x (RealPart, FlatteningOperator, ...)
                try:
                    v = rand_elem(op.range, rng)
                    vv = snapshot(v)
                    wrappers = [
                        ('vecsum', lambda: odl.OperatorVectorSum(op, v), lambda r: r + vv),
                        ('leftvecmult', lambda: odl.OperatorLeftVectorMult(op, v), lambda r: r * vv),
                        ('leftscalmult', lambda: odl.OperatorLeftScalarMult(op, 2.0),
                         lambda r: 2.0 * r),
                        ('sum', lambda: odl.OperatorSum(op, op), lambda r: r + r),
                        ('pwprod', lambda: odl.OperatorPointwiseProduct(op, op), lambda r: r * r),
                    ]
                except Exception:
                    wrappers = []
                for wname, mkw, expect in wrappers:
                    try:
                        wop = mkw()
                    except Exception:  # construction not possible for this range / field
                        continue
                    x1 = x.copy() if hasattr(x, 'copy') else x
                    x1s = snapshot(x1)
                    o = safe_call(wop, x1)
                    if o.status != 'ok':
                        continue
                    if not bitsame(snapshot(x1), x1s):
                        problems.append((wname + '-input-unchanged',
                                         '{}(op, ..)(x) wrote into x (op(x) returned x or an object '
                                         'sharing its data with x)'.format(type(wop).__name__), xdesc))
                    elif np.all(np.isfinite(ref.val)) and not same(o.val, expect(ref.val)):
                        problems.append((wname + '-value', '{}(op, ..)(x) has the wrong value'
                                         .format(type(wop).__name__), xdesc))
        # malformed input
        bad_x = object()
        o = safe_call(op, bad_x)
        if not o.status.startswith('err:domain'):
            problems.append(('malformed-x', 'op(object()) gave {} instead of OpDomainError'
                             .format(o.status), None))
        if not functional:
            foreign = odl.rn(17).one()
            o = safe_call(op, x, out=foreign)
            if not o.status.startswith('err:range'):
                problems.append(('foreign-out', 'op(x, out=<rn(17) element>) gave {} instead of '
                                 'OpRangeError'.format(o.status), xdesc))
            o = safe_call(op, bad_x, out=foreign)
            if not o.status.startswith('err:domain'):
                problems.append(('malformed-both', 'op(object(), out=foreign) gave {} instead of '
                                 'OpDomainError'.format(o.status), None))
            if not bitsame(snapshot(x), x0):
                problems.append(('input-unchanged-rejected', 'x modified by a rejected call', xdesc))
    seen = set()
    for check, what, xdesc in problems:
        if check in seen:
            continue
        seen.add(check)
        ctx.violation('zoo {} check={}'.format(label, check), what,
                      {'kind': 'zoo', 'label': label, 'check': check, 'x': str(xdesc)})
    return nontrivial


def zoo_instances(ctx):
    """Yield (label, thunk) for every constructible class; record the skipped ones."""
    classes, import_failures = all_operator_classes()
    table, _ = constructors()
    skipped = []
    for name in sorted(classes):
        cls = classes[name]
        if name in ABSTRACT:
            continue
        if cls.__module__ == 'odl.ufunc_ops.ufunc_ops':
            variants = ufunc_instances(name, cls)
        else:
            variants = table.get(name)
        if not variants:
            skipped.append(name)
            continue
        for vname, thunk in variants:
            yield name, vname, thunk
    ctx.extra['skipped_classes(no constructor)'] = skipped
    ctx.extra['modules_not_importable'] = import_failures
    ctx.extra['classes_found'] = len(classes)


def run_zoo(ctx, deep=False):
    import odl
    rng = ctx.rng
    not_constructible = {}
    tested = set()
    for name, vname, thunk in zoo_instances(ctx):
        label = '{}[{}]'.format(name, vname)
        try:
            with warnings.catch_warnings():
                warnings.simplefilter('ignore')
                op = thunk()
        except Exception as e:  # missing back-end or the like
            not_constructible[label] = '{}: {}'.format(type(e).__name__, str(e)[:80])
            continue
        if type(op).__name__ != name and name not in ('IdentityOperator',):
            # constructor produced another class (e.g. simplification); still test it
            pass
        nt = check_instance(ctx, label, op, rng, deep)
        ctx.case(('zoo', label) if nt else None)
        ctx.hit('zoo/' + name)
        tested.add(type(op).__name__)
        try:
            xs = rand_elem(op.domain, rng, True)
        except Exception:
            continue
        for attr, d in derived_ops(op, xs):
            dl = '{}.{}'.format(label, attr)
            nt = check_instance(ctx, dl, d, rng, deep)
            ctx.case(('zoo', dl) if nt else None)
            ctx.hit('zoo-derived/' + type(d).__name__)
            tested.add(type(d).__name__)
    ctx.extra['not_constructible'] = not_constructible
    ctx.extra['classes_tested'] = sorted(tested)
    ctx.extra['modelled_classes'] = [
        'Operator.__call__/__new__ dispatch', 'OperatorSum', 'OperatorVectorSum', 'OperatorComp',
        'OperatorPointwiseProduct', 'OperatorLeftScalarMult', 'OperatorRightScalarMult',
        'OperatorLeftVectorMult', 'OperatorRightVectorMult', 'FunctionalLeftVectorMult',
        'ProductSpaceOperator', 'BroadcastOperator', 'ReductionOperator', 'DiagonalOperator',
        'ComponentProjection', 'ComponentProjectionAdjoint', 'ScalingOperator', 'IdentityOperator',
        'ConstantOperator', 'MultiplyOperator', 'PowerOperator', 'ZeroOperator',
        'ComplexModulusSquared(real)', 'RealPart(real)', 'InnerProductOperator',
        'all proximal classes of proximal_operators.py']
    ctx.extra['opaque_leaf_classes'] = sorted(
        t for t in tested if t not in ('OperatorSum', 'OperatorVectorSum', 'OperatorComp',
                                       'OperatorPointwiseProduct', 'OperatorLeftScalarMult',
                                       'OperatorRightScalarMult', 'OperatorLeftVectorMult',
                                       'OperatorRightVectorMult', 'ScalingOperator',
                                       'IdentityOperator', 'ConstantOperator', 'MultiplyOperator',
                                       'PowerOperator', 'ZeroOperator'))


# ---------------------------------------------------------------------------
# dispatch stream: synthetic operators vs the model of __call__

def make_synth(sig, ret, raw, fn, space):
    import odl
    rng_space = odl.RealNumbers() if fn else space

    def oop_body(x):
        r = 2 * x + 1
        if fn:
            return float(r[0])
        return r.asarray() if raw else r

    def ip_body(x, out):
        out.lincomb(2, x)
        out += 1
        return {'none': None, 'out': out, 'other': x.copy()}[ret]

    if sig == 'oop':
        class SynthOop(odl.Operator):
            def _call(self, x):
                return oop_body(x)
        cls = SynthOop
    elif sig == 'ip':
        class SynthIp(odl.Operator):
            def _call(self, x, out):
                return ip_body(x, out)
        cls = SynthIp
    else:
        class SynthDual(odl.Operator):
            def _call(self, x, out=None):
                if out is None:
                    return oop_body(x)
                return ip_body(x, out)
        cls = SynthDual
    return cls(space, rng_space)


def dispatch_cases(ctx):
    import odl
    rng = ctx.rng
    for sig in ('oop', 'ip', 'dual'):
        for ret in ('none', 'out', 'other'):
            for raw in (0, 1):
                for fn in (0, 1):
                    if fn and sig == 'ip':
                        continue  # rejected by Operator.__init__ (mandatory out for a functional)
                    if fn and raw:
                        continue
                    for xk in ('in', 'cast', 'bad'):
                        for ok in ('none', 'in', 'foreign'):
                            n = rng.choice([1, 2, 3])
                            yield dict(sig=sig, ret=ret, raw=raw, fn=fn, x=xk, out=ok, n=n,
                                       xv=[rng.randint(-16, 16) / 8.0 for _ in range(n)],
                                       yv=[rng.choice([7.0, -3.5, 100.0]) for _ in range(n)])


def run_dispatch(ctx):
    import odl
    lines, pend = [], []
    for c in dispatch_cases(ctx):
        space = odl.rn(c['n'])
        try:
            op = make_synth(c['sig'], c['ret'], c['raw'], c['fn'], space)
        except Exception as e:  # noqa
            ctx.disagree(c, 'cannot construct synthetic operator: ' + str(e)[:100], 'n/a',
                         stream='dispatch')
            continue
        xel = space.element(c['xv'])
        x = {'in': xel, 'cast': list(c['xv']), 'bad': 'not-an-element'}[c['x']]
        if c['fn']:
            yel = 0.0
            foreign = odl.rn(17).one()
        else:
            yel = space.element(c['yv'])
            foreign = odl.rn(17).one()
        kw = {}
        if c['out'] == 'in':
            kw['out'] = yel
        elif c['out'] == 'foreign':
            kw['out'] = foreign
        o = safe_call(op, x, **kw)
        if o.status == 'ok':
            isout = int(c['out'] == 'in' and o.obj is yel)
            impl = ('ok', isout, None if c['fn'] else o.val,
                    snapshot(xel), None if c['fn'] else snapshot(yel))
        else:
            impl = (':'.join(o.status.split(':')[:2]),)
        # the oracle part: rejection kinds and priority as the property states them
        exp = None
        if c['x'] == 'bad':
            exp = 'err:domain'
        elif c['out'] == 'foreign':
            exp = 'err:range'
        elif c['fn'] and c['out'] == 'in':
            exp = 'err:type'
        if exp is not None and impl[0] != exp:
            ctx.violation('dispatch sig={sig} fn={fn} x={x} out={out}'.format(**c),
                          'expected {} got {}'.format(exp, o.status), dict(c, kind='dispatch'))
        if exp is None and c['ret'] != 'other' and impl[0] != 'ok':
            ctx.violation('dispatch sig={sig} fn={fn} x={x} out={out}'.format(**c),
                          'well-formed call failed: {}'.format(o.status), dict(c, kind='dispatch'))
        if impl[0] == 'ok' and not c['fn']:
            want = 2 * np.array(c['xv']) + 1
            if not same(impl[2], want) or (c['x'] == 'in' and not bitsame(impl[3], np.array(c['xv']))):
                ctx.violation('dispatch sig={sig} fn={fn} x={x} out={out}'.format(**c),
                              'value {} expected {} / x after {}'.format(impl[2], want, impl[3]),
                              dict(c, kind='dispatch'))
            if c['out'] == 'in' and not impl[1]:
                ctx.violation('dispatch sig={sig} fn={fn} x={x} out={out}'.format(**c),
                              'in-place call did not return out', dict(c, kind='dispatch'))
        lines.append('dispatch sig={} ret={} raw={} fn={} x={} out={} n={} xv={} yv={}'.format(
            c['sig'], c['ret'], c['raw'], c['fn'], c['x'], c['out'], c['n'], bl(c['xv']),
            bl(c['yv'])))
        pend.append((c, impl))
    outs = core.run_driver('C03', lines)
    for (c, impl), ans in zip(pend, outs):
        nontrivial = impl[0] == 'ok'
        ctx.case(('dispatch', c['sig'], c['ret'], c['raw'], c['fn'], c['x'], c['out'])
                 if nontrivial else None,
                 sample={'case': {k: c[k] for k in ('sig', 'ret', 'raw', 'fn', 'x', 'out')},
                         'impl': impl[0], 'model': ans[:40]} if len(ctx.samples) < 4 else None)
        ctx.hit('dispatch/{}/{}'.format(c['sig'], ans.split()[0]))
        if impl[0] != 'ok':
            ctx.err(impl[0])
            if ans != impl[0]:
                ctx.disagree(c, impl[0], ans, stream='dispatch')
            continue
        if not ans.startswith('ok '):
            ctx.disagree(c, 'ok', ans, stream='dispatch')
            continue
        f = dict(t.split('=', 1) for t in ans.split()[1:])
        if int(f['isout']) != impl[1]:
            ctx.disagree(c, 'isout={}'.format(impl[1]), ans[:60], stream='dispatch')
            continue
        if not c['fn']:
            if not bitsame(parse_bl(f['val']), np.asarray(impl[2], dtype=float)):
                ctx.disagree(c, 'val={}'.format(impl[2]), 'val={}'.format(parse_bl(f['val'])),
                             stream='dispatch')
            if c['x'] == 'in' and not bitsame(parse_bl(f['x']), np.asarray(impl[3], dtype=float)):
                ctx.disagree(c, 'x after={}'.format(impl[3]), 'x after={}'.format(parse_bl(f['x'])),
                             stream='dispatch')
            if c['out'] != 'in' and not bitsame(parse_bl(f['y']), np.asarray(impl[4], dtype=float)):
                ctx.disagree(c, 'y after={}'.format(impl[4]), 'y after={}'.format(parse_bl(f['y'])),
                             stream='dispatch')


# ---------------------------------------------------------------------------
# tree stream

def rand_tree(rng, depth, n, data):
    """Returns (token list, thunk building the real operator, shape string)."""
    import odl
    from odl.solvers.nonsmooth import proximal_operators as po
    space = data['space']

    def vec():
        return np.array([rng.choice([-2.0, -1.0, -0.5, 0.5, 1.0, 2.0, 0.25]) for _ in range(n)])

    def leaf():
        k = rng.choice(['scal', 'scal', 'const', 'mult', 'pow', 'zero', 'modsq', 'prox', 'prox',
                        'prox', 'id', 'real'])
        if k == 'real':
            # RealPart on a real space returns its argument itself
            return ['real'], (lambda: odl.RealPart(space)), 'real'
        if k == 'scal':
            c = rng.choice([2.0, -1.0, 0.5, -0.25, 0.0])
            return ['scal:{}'.format(bits(c))], (lambda: odl.ScalingOperator(space, c)), 'scal'
        if k == 'id':
            return ['scal:{}'.format(bits(1.0))], (lambda: odl.IdentityOperator(space)), 'id'
        if k == 'const':
            v = vec()
            return ['const:' + bl(v, '|')], (lambda: odl.ConstantOperator(space.element(v.copy()))), 'const'
        if k == 'mult':
            v = vec()
            return ['mult:' + bl(v, '|')], (lambda: odl.MultiplyOperator(space.element(v.copy()))), 'mult'
        if k == 'pow':
            p = rng.choice([2.0, 3.0])
            return ['pow:{}'.format(bits(p))], (lambda: odl.PowerOperator(space, p)), 'pow'
        if k == 'zero':
            return ['zero'], (lambda: odl.ZeroOperator(space)), 'zero'
        if k == 'modsq':
            return ['modsq'], (lambda: odl.ComplexModulusSquared(space)), 'modsq'
        pid = rng.choice(['l1:00', 'l1:01', 'l1:10', 'l1:11', 'ccL1:0', 'l2Sq:01', 'l2Sq:11',
                          'ccL2Sq:11', 'ccL2Sq:00', 'box:11', 'ccKL:1', 'ccKL:0', 'huber:',
                          'linfty:', 'ccLinfty:', 'sumc:', 'simplex:'])
        name, fl = pid.split(':')
        lam, sigma = data['lam'], data['sigma']
        g = space.element(data['g'].copy())
        sg = space.element(data['sig'].copy())

        def mk():
            if name == 'l1':
                return po.proximal_l1(space, lam=lam, g=g if fl[1] == '1' else None)(
                    sg if fl[0] == '1' else sigma)
            if name == 'ccL1':
                return po.proximal_convex_conj_l1(space, lam=lam)(sigma)
            if name == 'l2Sq':
                return po.proximal_l2_squared(space, lam=lam, g=g)(sg if fl[0] == '1' else sigma)
            if name == 'ccL2Sq':
                return po.proximal_convex_conj_l2_squared(
                    space, lam=lam, g=g if fl[1] == '1' else None)(sg if fl[0] == '1' else sigma)
            if name == 'box':
                return po.proximal_box_constraint(space, space.element(data['lo'].copy()),
                                                  space.element(data['up'].copy()))(sigma)
            if name == 'ccKL':
                return po.proximal_convex_conj_kl(space, lam=lam,
                                                  g=g if fl == '1' else None)(sigma)
            if name == 'huber':
                return po.proximal_huber(space, data['gamma'])(sigma)
            if name == 'linfty':
                return po.proximal_linfty(space)(sigma)
            if name == 'ccLinfty':
                return po.proximal_convex_conj_linfty(space)(sigma)
            if name == 'sumc':
                return odl.solvers.IndicatorSumConstraint(space, data['radius']).proximal(sigma)
            return odl.solvers.IndicatorSimplex(space, data['radius']).proximal(sigma)
        return ['prox:{}:{}'.format(name, fl)], mk, 'prox:' + name

    def ftree(d):
        """functional subtree X -> R"""
        kk = rng.choice(['inner', 'inner', 'l', 'r', 'S', 'P', 'C', 'rv']) if d > 0 else 'inner'
        if kk == 'inner':
            w = vec()
            return ['inner:' + bl(w, '|')], (lambda: odl.InnerProductOperator(space.element(w.copy()))), \
                'inner'
        if kk in ('S', 'P'):
            ta, ma, sa = ftree(d - 1)
            tb, mb, sb = ftree(d - 1)
            cls = {'S': odl.OperatorSum, 'P': odl.OperatorPointwiseProduct}[kk]
            return [kk] + ta + tb, (lambda: cls(ma(), mb())), '{}({},{})'.format(kk, sa, sb)
        if kk == 'C':
            ta, ma, sa = ftree(d - 1)
            tb, mb, sb = rand_tree(rng, d - 1, n, data)
            return ['C'] + ta + tb, (lambda: odl.OperatorComp(ma(), mb())), 'C({},{})'.format(sa, sb)
        ta, ma, sa = ftree(d - 1)
        if kk == 'rv':
            v = vec()
            return ['rv:' + bl(v, '|')] + ta, \
                (lambda: odl.OperatorRightVectorMult(ma(), space.element(v.copy()))), 'rv({})'.format(sa)
        c = rng.choice([2.0, -1.0, 0.5])
        cls = {'l': odl.OperatorLeftScalarMult, 'r': odl.OperatorRightScalarMult}[kk]
        return ['{}:{}'.format(kk, bits(c))] + ta, (lambda: cls(ma(), c)), '{}({})'.format(kk, sa)

    if depth == 0 or rng.random() < 0.2:
        return leaf()
    k = rng.choice(['S', 'C', 'P', 'V', 'l', 'r', 'lv', 'rv', 'S', 'C', 'V', 'fl', 'Cf'])
    if k == 'fl':
        # FunctionalLeftVectorMult(functional, vector)
        tf, mf, sf = ftree(depth - 1)
        v = vec()
        return ['fl:' + bl(v, '|')] + tf, \
            (lambda: odl.FunctionalLeftVectorMult(mf(), space.element(v.copy()))), 'fl({})'.format(sf)
    if k == 'Cf':
        # OperatorComp whose right factor is a functional
        tf, mf, sf = ftree(depth - 1)
        v = vec()
        return ['C', 'fmult:' + bl(v, '|')] + tf, \
            (lambda: odl.OperatorComp(odl.MultiplyOperator(space.element(v.copy()),
                                                           domain=odl.RealNumbers()), mf())), \
            'C(fmult,{})'.format(sf)
    if k in ('S', 'C', 'P'):
        ta, ma, sa = rand_tree(rng, depth - 1, n, data)
        tb, mb, sb = rand_tree(rng, depth - 1, n, data)
        cls = {'S': odl.OperatorSum, 'C': odl.OperatorComp, 'P': odl.OperatorPointwiseProduct}[k]
        return [k] + ta + tb, (lambda: cls(ma(), mb())), '{}({},{})'.format(k, sa, sb)
    ta, ma, sa = rand_tree(rng, depth - 1, n, data)
    if k in ('V', 'lv', 'rv'):
        v = vec()
        cls = {'V': odl.OperatorVectorSum, 'lv': odl.OperatorLeftVectorMult,
               'rv': odl.OperatorRightVectorMult}[k]
        return ['{}:{}'.format(k, bl(v, '|'))] + ta, (lambda: cls(ma(), space.element(v.copy()))), \
            '{}({})'.format(k, sa)
    c = rng.choice([2.0, -1.0, 0.5, -0.5])
    cls = {'l': odl.OperatorLeftScalarMult, 'r': odl.OperatorRightScalarMult}[k]
    return ['{}:{}'.format(k, bits(c))] + ta, (lambda: cls(ma(), c)), '{}({})'.format(k, sa)


def run_trees(ctx, count):
    import odl
    rng = ctx.rng
    lines, pend = [], []
    for _ in range(count):
        n = rng.choice([1, 2, 3, 4])
        space = odl.rn(n)
        data = dict(space=space, lam=rng.choice([1.0, 0.5, 2.0]), sigma=rng.choice([1.0, 0.5, 2.0]),
                    gamma=rng.choice([0.5, 1.0]), radius=rng.choice([1.0, 2.0]),
                    g=np.array([rng.randint(1, 16) / 8.0 for _ in range(n)]),
                    sig=np.array([rng.choice([0.5, 1.0, 2.0]) for _ in range(n)]),
                    lo=np.array([rng.choice([-1.0, -0.5, 0.0]) for _ in range(n)]),
                    up=np.array([rng.choice([0.5, 1.0, 2.0]) for _ in range(n)]))
        toks, mk, shape = rand_tree(rng, rng.choice([1, 2, 3, 4]), n, data)
        xv = np.array([rng.randint(-16, 16) / 8.0 for _ in range(n)])
        yv = np.array([(-1) ** k * (1234.5 + 1e5 * k) for k in range(n)])
        pre = rng.choice(['garbage', 'nan', 'inf'])
        if pre != 'garbage':
            yv = np.full(n, np.nan if pre == 'nan' else np.inf)
        desc = {'kind': 'tree', 'tree': ','.join(toks)[:400], 'shape': shape[:200], 'n': n,
                'x': xv.tolist()}
        try:
            op = mk()
        except Exception as e:  # noqa
            ctx.disagree(desc, 'cannot build: {}: {}'.format(type(e).__name__, str(e)[:100]),
                         'model tree exists', stream='tree')
            continue
        res = {}
        x = space.element(xv.copy())
        res['oop'] = safe_call(op, x)
        xa = {'oop': snapshot(x)}
        x = space.element(xv.copy())
        y = space.element(yv.copy())
        res['ip'] = safe_call(op, x, out=y)
        xa['ip'] = snapshot(x)
        isout_ip = res['ip'].obj is y
        x = space.element(xv.copy())
        res['alias'] = safe_call(op, x, out=x)
        xa['alias'] = snapshot(x)
        isout_al = res['alias'].obj is x
        # oracle
        key = 'tree {}'.format(shape[:120])
        if res['oop'].status == 'ok':
            if not bitsame(xa['oop'], xv):
                ctx.violation(key + ' check=input-unchanged-oop', 'x modified by op(x)', desc)
            for mode, isout in (('ip', isout_ip), ('alias', isout_al)):
                if res[mode].status != 'ok':
                    ctx.violation(key + ' check=' + mode, '{} call raises {}'.format(
                        mode, res[mode].status), desc)
                    continue
                if not isout:
                    ctx.violation(key + ' check=returns-out', mode + ' call did not return out', desc)
                if not same(res[mode].val, res['oop'].val):
                    ctx.violation(key + ' check={}-equals-oop'.format(mode),
                                  '{} result {} differs from op(x) = {}'.format(
                                      mode, res[mode].val[:6], res['oop'].val[:6]), desc)
            if res['ip'].status == 'ok' and not bitsame(xa['ip'], xv):
                ctx.violation(key + ' check=input-unchanged-ip', 'x modified by op(x, out=y)', desc)
        base = ('n={} t={} x={} y={} lam={} sigma={} gamma={} radius={} eps=0 g={} sig={} lo={} '
                'up={}').format(n, ','.join(toks), bl(xv), bl(yv), bits(data['lam']),
                                bits(data['sigma']), bits(data['gamma']), bits(data['radius']),
                                bl(data['g']), bl(data['sig']), bl(data['lo']), bl(data['up']))
        for mode in ('oop', 'ip', 'alias'):
            lines.append('tree mode={} {}'.format(mode, base))
            pend.append((desc, shape, mode, res[mode], xa[mode]))
    outs = core.run_driver('C03', lines)
    for (desc, shape, mode, r, xafter), ans in zip(pend, outs):
        d = dict(desc, mode=mode)
        nontrivial = r.status == 'ok' and np.any(r.val != 0)
        ctx.case(('tree', shape, mode) if nontrivial else None,
                 sample={'tree': shape, 'mode': mode, 'x': desc['x'],
                         'result': r.val.tolist() if r.status == 'ok' else r.status}
                 if desc['n'] <= 2 and len(ctx.samples) < 10 else None)
        for t in set(desc['tree'].replace(':', ',').split(',')):
            if t in ('S', 'C', 'P', 'V', 'l', 'r', 'lv', 'rv', 'fl', 'scal', 'const', 'mult', 'pow',
                     'zero', 'modsq', 'prox', 'real', 'inner', 'fmult'):
                ctx.hit('tree/' + t)
        if r.status != 'ok':
            if not ans.startswith(':'.join(r.status.split(':')[:2])):
                ctx.disagree(d, r.status, ans[:100], stream='tree')
            continue
        if not ans.startswith('ok '):
            ctx.disagree(d, 'ok', ans[:100], stream='tree')
            continue
        f = dict(t.split('=', 1) for t in ans.split()[1:])
        if not same(parse_bl(f['val']), r.val):
            ctx.disagree(d, 'val={}'.format(r.val[:6]), 'val={}'.format(parse_bl(f['val'])[:6]),
                         stream='tree')
        elif not same(parse_bl(f['x']), xafter):
            ctx.disagree(d, 'x after={}'.format(xafter[:6]),
                         'x after={}'.format(parse_bl(f['x'])[:6]), stream='tree')


# ---------------------------------------------------------------------------
# product-space stream: ProductSpaceOperator / Broadcast / Reduction / Diagonal /
# ComponentProjection(+Adjoint) vs the model

def run_pso(ctx, count):
    import odl
    rng = ctx.rng
    lines, pend = [], []
    for _ in range(count):
        n = rng.choice([1, 2, 3])
        space = odl.rn(n)
        data = dict(space=space, lam=rng.choice([1.0, 0.5, 2.0]), sigma=rng.choice([1.0, 0.5, 2.0]),
                    gamma=rng.choice([0.5, 1.0]), radius=rng.choice([1.0, 2.0]),
                    g=np.array([rng.randint(1, 16) / 8.0 for _ in range(n)]),
                    sig=np.array([rng.choice([0.5, 1.0, 2.0]) for _ in range(n)]),
                    lo=np.array([rng.choice([-1.0, -0.5, 0.0]) for _ in range(n)]),
                    up=np.array([rng.choice([0.5, 1.0, 2.0]) for _ in range(n)]))
        kind = rng.choice(['pso', 'pso', 'bcast', 'red', 'diag', 'diag', 'proj', 'projadj'])
        blocks = {}
        idx = 0

        def block():
            return rand_tree(rng, rng.choice([0, 1, 2]), n, data)
        try:
            if kind == 'pso':
                m, nc = rng.choice([1, 2, 3]), rng.choice([1, 2, 3])
                for i in range(m):
                    for j in range(nc):
                        if rng.random() < 0.55:
                            blocks[(i, j)] = block()
                if not blocks:
                    blocks[(0, 0)] = block()
                mat = [[blocks[(i, j)][1]() if (i, j) in blocks else None for j in range(nc)]
                       for i in range(m)]
                op = odl.ProductSpaceOperator(mat, domain=odl.ProductSpace(space, nc),
                                              range=odl.ProductSpace(space, m))
                coo = op.ops
            elif kind in ('bcast', 'red', 'diag'):
                k = rng.choice([1, 2, 3])
                bl_ = [block() for _ in range(k)]
                ops = [b[1]() for b in bl_]
                if kind == 'bcast':
                    op, m, nc = odl.BroadcastOperator(*ops), k, 1
                    blocks = {(i, 0): bl_[i] for i in range(k)}
                    coo = op.prod_op.ops
                elif kind == 'red':
                    op, m, nc = odl.ReductionOperator(*ops), 1, k
                    blocks = {(0, j): bl_[j] for j in range(k)}
                    coo = op.prod_op.ops
                else:
                    op, m, nc = odl.DiagonalOperator(*ops), k, k
                    blocks = {(i, i): bl_[i] for i in range(k)}
                    coo = op.ops
            elif kind == 'proj':
                m, nc = 1, rng.choice([1, 2, 3])
                idx = rng.randrange(nc)
                op = odl.ComponentProjection(odl.ProductSpace(space, nc), idx)
                coo = None
            else:
                m, nc = rng.choice([1, 2, 3]), 1
                idx = rng.randrange(m)
                op = odl.ComponentProjectionAdjoint(odl.ProductSpace(space, m), idx)
                coo = None
        except Exception as e:  # noqa
            ctx.disagree({'kind': 'pso', 'class': kind}, 'cannot build: {}: {}'.format(
                type(e).__name__, str(e)[:100]), 'model exists', stream='pso')
            continue
        if coo is not None:
            order = list(zip([int(t) for t in coo.row], [int(t) for t in coo.col]))
            entries = '@'.join('{}~{}~{}'.format(i, j, ','.join(blocks[(i, j)][0]))
                               for i, j in order) or '-'
            shape = '{}[{}]'.format(kind, ';'.join('{}{}:{}'.format(i, j, blocks[(i, j)][2])
                                                   for i, j in order))
        else:
            entries, shape = '-', '{}[{}]'.format(kind, idx)
        xs = [np.array([rng.randint(-16, 16) / 8.0 for _ in range(n)]) for _ in range(nc)]
        pre = rng.choice(['garbage', 'nan', 'inf'])
        ys = [np.full(n, {'garbage': 777.25 + i, 'nan': np.nan, 'inf': np.inf}[pre])
              for i in range(m)]
        x_single = kind in ('bcast', 'projadj')
        y_single = kind in ('red', 'proj')

        def mkx():
            return space.element(xs[0].copy()) if x_single else \
                op.domain.element([v.copy() for v in xs])

        def mky():
            return space.element(ys[0].copy()) if y_single else \
                op.range.element([v.copy() for v in ys])
        desc = {'kind': 'pso', 'class': kind, 'shape': shape[:300], 'n': n, 'm': m, 'nc': nc,
                'x': [v.tolist() for v in xs], 'prefill': pre}
        res, xa = {}, {}
        x = mkx()
        res['oop'] = safe_call(op, x)
        xa['oop'] = snapshot(x)
        x = mkx()
        y = mky()
        res['ip'] = safe_call(op, x, out=y)
        xa['ip'] = snapshot(x)
        ret_ok = {'ip': res['ip'].obj is y}
        modes = ['oop', 'ip']
        if kind == 'diag':
            x = mkx()
            res['alias'] = safe_call(op, x, out=x)
            xa['alias'] = None
            ret_ok['alias'] = res['alias'].obj is x
            modes.append('alias')
        key = 'pso {}'.format(shape[:120])
        x0 = np.concatenate(xs)
        if res['oop'].status == 'ok':
            if not bitsame(xa['oop'], x0):
                ctx.violation(key + ' check=input-unchanged-oop', 'x modified by op(x)', desc)
            for mode in modes[1:]:
                if res[mode].status != 'ok':
                    ctx.violation(key + ' check=' + mode, '{} call raises {}'.format(
                        mode, res[mode].status), desc)
                    continue
                if not ret_ok[mode]:
                    ctx.violation(key + ' check=returns-out', mode + ' call did not return out', desc)
                if not same(res[mode].val, res['oop'].val):
                    ctx.violation(key + ' check={}-equals-oop prefill={}'.format(mode, pre),
                                  '{} result {} differs from op(x) = {}'.format(
                                      mode, res[mode].val[:8], res['oop'].val[:8]), desc)
            if res['ip'].status == 'ok' and not bitsame(xa['ip'], x0):
                ctx.violation(key + ' check=input-unchanged-ip', 'x modified by op(x, out=y)', desc)
        base = ('kind={} m={} nc={} n={} idx={} entries={} x={} y={} lam={} sigma={} gamma={} '
                'radius={} eps=0 g={} sig={} lo={} up={}').format(
            kind, m, nc, n, idx, entries, ';'.join(bl(v) for v in xs), ';'.join(bl(v) for v in ys),
            bits(data['lam']), bits(data['sigma']), bits(data['gamma']), bits(data['radius']),
            bl(data['g']), bl(data['sig']), bl(data['lo']), bl(data['up']))
        for mode in modes:
            lines.append('pso mode={} {}'.format(mode, base))
            pend.append((desc, shape, mode, res[mode], xa[mode]))
    outs = core.run_driver('C03', lines)
    for (desc, shape, mode, r, xafter), ans in zip(pend, outs):
        d = dict(desc, mode=mode)
        nontrivial = r.status == 'ok' and np.any(r.val != 0)
        ctx.case(('pso', shape, mode) if nontrivial else None,
                 sample={'pso': shape, 'mode': mode, 'x': desc['x'],
                         'result': r.val.tolist() if r.status == 'ok' else r.status}
                 if desc['n'] == 1 and len(ctx.samples) < 12 else None)
        ctx.hit('pso/{}/{}'.format(desc['class'], mode))
        if r.status != 'ok':
            if not ans.startswith(':'.join(r.status.split(':')[:2])):
                ctx.disagree(d, r.status, ans[:100], stream='pso')
            continue
        if not ans.startswith('ok '):
            ctx.disagree(d, 'ok', ans[:100], stream='pso')
            continue
        f = dict(t.split('=', 1) for t in ans.split()[1:])
        mv = np.concatenate([parse_bl(t) for t in f['vals'].split(';')])
        if not same(mv, r.val):
            ctx.disagree(d, 'val={}'.format(r.val[:8]), 'val={}'.format(mv[:8]), stream='pso')
        elif xafter is not None:
            mx = np.concatenate([parse_bl(t) for t in f['x'].split(';')])
            if not same(mx, xafter):
                ctx.disagree(d, 'x after={}'.format(xafter[:8]), 'x after={}'.format(mx[:8]),
                             stream='pso')


def run(ctx):
    warnings.simplefilter('ignore')
    np.seterr(all='ignore')
    run_dispatch(ctx)
    run_trees(ctx, 150 if ctx.quick else 4000)
    run_pso(ctx, 120 if ctx.quick else 2500)
    run_zoo(ctx, deep=not ctx.quick)
    if not ctx.quick:
        for _ in range(3):   # further input draws for every instance
            run_zoo(ctx, deep=True)


def search(ctx, broken):
    """Obligation / correspondence broke without an oracle failure: run the oracle harder."""
    warnings.simplefilter('ignore')
    np.seterr(all='ignore')
    run_zoo(ctx, deep=True)
    run_trees(ctx, 1500)
    run_pso(ctx, 1000)


def replay(ctx, case):
    import random
    if case.get('kind') == 'zoo':
        base = case['label'].split('.')[0]
        for name, vname, thunk in zoo_instances(ctx):
            if '{}[{}]'.format(name, vname) != base:
                continue
            try:
                op = thunk()
            except Exception:
                return None
            sub = Ctx2()
            rng = random.Random(1)
            ops = [(base, op)]
            try:
                xs = rand_elem(op.domain, rng, True)
                ops += [('{}.{}'.format(base, a), d) for a, d in derived_ops(op, xs)]
            except Exception:
                pass
            for lab, o in ops:
                if lab == case['label']:
                    for seed in range(6):
                        check_instance(sub, lab, o, random.Random(seed), True)
            hits = [v for v in sub.violations if v['key'].endswith('check=' + case['check'])]
            return hits[0]['what'] if hits else None
        return None
    if case.get('kind') == 'dispatch':
        sub = Ctx2()
        sub.rng = random.Random(0)
        run_dispatch(sub)
        hits = [v for v in sub.violations
                if all(v['replay'].get(k) == case.get(k) for k in ('sig', 'fn', 'x', 'out'))]
        return hits[0]['what'] if hits else None
    if case.get('kind') == 'pso':
        sub = Ctx2()
        sub.rng = random.Random(0)
        run_pso(sub, 400)
        hits = [v for v in sub.violations if v['replay'].get('class') == case.get('class')]
        return hits[0]['what'] if hits else None
    if case.get('kind') == 'tree':
        sub = Ctx2()
        sub.rng = random.Random(0)
        run_trees(sub, 600)
        return sub.violations[0]['what'] if sub.violations else None
    return None


class Ctx2(core.Ctx):
    """Scratch context for replays (collects violations without touching the real one)."""

    def __init__(self):
        core.Ctx.__init__(self, 'C03', 'quick', 0)
