"""C01 — lincomb and derived arithmetic, every aliasing pattern.

Tie to /repo:
  (T) tools/extract/lincomb.py regenerates Gen/LincombTree.lean from the live source.
  (C) space.lincomb on real NumpyTensor elements vs the Lean execution of the extracted
      dispatch program (all three buffers compared exactly), and the element operators on
      tensor / discretized / product spaces vs the entry-wise specification in the driver.
Oracle (independent of the model): entry-wise Fractions computed from copies taken before
the call; bitwise frame check; NaN-prefilled non-aliased outputs.
"""
import itertools
from fractions import Fraction

import numpy as np

from vf import core
from vf.core import fs
from extract import lincomb as extract_lincomb
from extract import lincomb_front as extract_front
from extract import broadcast as extract_broadcast
from extract import opfront as extract_opfront

RULE = ('lincomb: enumerated regimes(size vs thresholds) x dtype x layout x 5 alias patterns x '
        'scalar classes for a and b, values on the dyadic grid k/8; element ops: operator x '
        'space kind x operand kind. A case is non-trivial when the expected output is not '
        'identically zero; distinct = distinct (kind, regime, dtype, layout, alias, a-class, '
        'b-class / op, space, operand) signatures among non-trivial cases.')
TRUSTED = ['translator tools/extract/lincomb.py (AST of _lincomb_impl -> Gen/LincombTree.lean)',
           'NumPy element-wise ufuncs, BLAS axpy/scal/copy (modelled as exact entry-wise maps)']
ASSUMPTIONS = ['floating-point rounding is outside the model; inputs are chosen on a dyadic grid '
               'so that every operation on the path is exact and comparison is exact',
               'identity aliasing only (overlapping views of distinct objects are outside C01)']

ALIASES = {'none': (0, 1, 2), 'x1x2': (0, 0, 2), 'outx1': (0, 1, 0), 'outx2': (0, 1, 1),
           'all': (0, 0, 0)}
SC_REAL = {'0': [0], '1': [1], '-1': [-1], 'gen': [2, -3, 0.5, -0.25, 1.5]}
SC_CPLX = {'cplx': [1j, 1 + 1j, -0.5 + 2j]}
SC_INT = {'0': [0], '1': [1], '-1': [-1], 'gen': [2, -3, 5]}
TINY = 2.0 ** -40   # exactly representable; |a+b| far below any 'isclose' tolerance
# (ca, cb, a, b): effective scalar a+b tiny but non-zero; exact in float64/complex128
NEAR_CANCEL = [('1', 'ncancel', 1, -1 + TINY), ('ncancel', '-1', 1 + TINY, -1),
               ('tiny', '0', TINY, 0), ('0', 'tiny', 0, TINY), ('tiny', 'tiny', TINY, TINY),
               ('gen', 'ncancel', 2, -2 + TINY)]


def cs(z):
    """wire form of a real/complex scalar"""
    if isinstance(z, (complex, np.complexfloating)):
        z = complex(z)
        return fs(z.real) if z.imag == 0 else fs(z.real) + ':' + fs(z.imag)
    return fs(z)


def cl(arr):
    flat = np.asarray(arr).ravel(order='C')
    if flat.size == 0:
        return '-'
    if np.iscomplexobj(flat):
        return ','.join(cs(z) for z in flat.tolist())
    return ','.join(fs(z) for z in flat.tolist())


def wide(arr):
    """C-order flat complex128 copy (exact widening of float32/64, complex64/128 and small ints)."""
    return np.asarray(arr).ravel(order='C').astype(np.complex128)


def cl8(arr):
    """Fast wire form for arrays whose entries are multiples of 1/8 (all generated inputs)."""
    w = wide(arr) * 8
    re = np.rint(w.real).astype(np.int64)
    im = np.rint(w.imag).astype(np.int64)
    if w.size == 0:
        return '-'
    if not (np.array_equal(re, w.real) and np.array_equal(im, w.imag)):
        return cl(arr)   # not on the 1/8 grid: slow exact path
    if not im.any():
        return ','.join('{}/8'.format(k) for k in re.tolist())
    return ','.join('{}/8:{}/8'.format(k, m) for k, m in zip(re.tolist(), im.tolist()))


def _tokf(t):
    if '/' in t:
        p, q = t.split('/')
        return int(p) / int(q)    # exact: dyadic denominators, numerators < 2^53
    return float(int(t))


def parse_wide(s):
    """Model answer list -> complex128 array (exact for the dyadic values on this stream)."""
    if s in ('', '-'):
        return np.zeros(0, dtype=np.complex128)
    out = np.empty(s.count(',') + 1, dtype=np.complex128)
    for i, t in enumerate(s.split(',')):
        if ':' in t:
            a, b = t.split(':')
            out[i] = complex(_tokf(a), _tokf(b))
        else:
            out[i] = _tokf(t)
    return out


def fval(z):
    """exact python value (Fraction or (re, im) Fractions)"""
    if isinstance(z, (complex, np.complexfloating)):
        z = complex(z)
        return (Fraction(z.real), Fraction(z.imag))
    return (core.frac(z), Fraction(0))


def cmul(p, q):
    return (p[0] * q[0] - p[1] * q[1], p[0] * q[1] + p[1] * q[0])


def cadd(p, q):
    return (p[0] + q[0], p[1] + q[1])


def parse_c(tok):
    if ':' in tok:
        a, b = tok.split(':')
        return (core.pfrac(a), core.pfrac(b))
    return (core.pfrac(tok), Fraction(0))


def parse_cl(s):
    return [] if s in ('', '-') else [parse_c(t) for t in s.split(',')]


def exact_list(arr):
    flat = np.asarray(arr).ravel(order='C').tolist()
    out = []
    for z in flat:
        if isinstance(z, complex):
            if z != z or abs(z) == float('inf'):
                out.append(None)
            else:
                out.append((Fraction(z.real), Fraction(z.imag)))
        else:
            if isinstance(z, float) and (z != z or abs(z) == float('inf')):
                out.append(None)
            else:
                out.append((Fraction(z), Fraction(0)))
    return out


def rand_vals(rng, n, dtype):
    ks = [rng.randint(-24, 24) for _ in range(n)]
    if np.issubdtype(dtype, np.integer):
        return np.array(ks, dtype=dtype)
    if np.issubdtype(dtype, np.complexfloating):
        ks2 = [rng.randint(-24, 24) for _ in range(n)]
        return (np.array(ks, dtype=float) / 8 + 1j * np.array(ks2, dtype=float) / 8).astype(dtype)
    return (np.array(ks, dtype=float) / 8).astype(dtype)


def make_elem(space, vals, layout, rng):
    """Element of `space` with the given flat (C-order) values and memory layout."""
    shape = space.shape
    arr = np.array(vals, dtype=space.dtype).reshape(shape)   # always a private copy
    if layout == 'mixed':
        layout = rng.choice(['C', 'F'])
    layout = {'S': 'strided', 'shaped': 'C'}.get(layout, layout)
    if layout == 'C':
        data = np.ascontiguousarray(arr)
    elif layout == 'F':
        data = np.asfortranarray(arr)
    else:  # strided view into a larger buffer
        big = np.zeros(tuple(2 * s for s in shape), dtype=space.dtype)
        view = big[tuple(slice(None, None, 2) for _ in shape)]
        view[...] = arr
        data = view
    x = space.element(data)
    return x


def regime_of(size, small, medium):
    return 'small' if size < small else ('medium' if size < medium else 'large')


def lincomb_cases(ctx, small, medium):
    import odl
    rng = ctx.rng
    quick = ctx.quick
    sizes_small = [1, 6, small - 1] if small > 1 else [1]
    sizes_medium = [small, small + 1] if quick else [small, small + 1, 360]
    sizes_large = [medium - 1, medium, medium + 1]
    dtypes = ['float32', 'float64', 'complex64', 'complex128', 'int32', 'int64']
    layouts = ['C', 'F', 'strided', 'mixed']
    plans = []
    for size in sizes_small + sizes_medium:
        for dt in dtypes:
            for layout in layouts:
                for alias in ALIASES:
                    plans.append((size, dt, layout, alias, 'all'))
    large_plans = []
    for size in sizes_large:
        for dt in dtypes:
            for layout in layouts:
                for alias in ALIASES:
                    large_plans.append((size, dt, layout, alias, 'few'))
    rng.shuffle(large_plans)
    # the large regime is expensive on both sides (50k entries per buffer): every alias
    # pattern at the threshold itself, plus a sample of the dtype/layout cross
    large_keep = [(medium, 'float64', 'C', al, 'few') for al in ALIASES]
    large_keep += [(medium - 1, 'float64', 'C', 'outx1', 'few'),
                   (medium + 1, 'complex128', 'F', 'all', 'few')]
    # every buffer with its own contiguity (2-d shapes): the BLAS applicability test and the
    # ravel order matter only here
    large_keep += [(medium, dt, 'mixed', al, 'few') for dt in ('float64', 'float32')
                   for al in ('none', 'x1x2', 'outx1', 'outx2')]
    # a strided `out` in the large regime for every alias pattern (a wrong BLAS applicability
    # decision loses the result only here)
    large_keep += [(medium, 'float64', 'strided', al, 'few') for al in ALIASES]
    large_keep += [(medium + 1, 'complex64', 'strided', 'x1x2', 'few')]
    large_keep += large_plans[:(3 if quick else 60)]
    # the full cross of per-buffer layouts (C / F / strided view) in the large regime: whether
    # BLAS is applicable depends on all three arrays, whether its result reaches `out` on the
    # layout of `out` alone - a predicate that looks at too few arrays loses writes only for
    # particular combinations (e.g. x1 F-contiguous, out strided)
    cross = [('none', ''.join(p)) for p in itertools.product('CFS', repeat=3)]
    rest = []
    for al in ('x1x2', 'outx1', 'outx2', 'all'):
        ids = ALIASES[al]
        distinct = sorted(set(ids))
        for p in itertools.product('CFS', repeat=len(distinct)):
            rest.append((al, ''.join(p[distinct.index(ids[k])] for k in range(3))))
    rng.shuffle(rest)
    cross += rest[:(10 if quick else len(rest))]
    large_keep += [(medium, 'float64', 'pat:' + pat, al, 'cross') for al, pat in cross]
    # spaces built with a SHAPED dtype (rn(n, dtype=(float, (2,))) == rn((2, n))): the entry count
    # handed to BLAS must be that of the full shape
    large_keep += [(2 * medium, 'float64', 'shaped', al, 'cross') for al in ('none', 'all', 'outx1')]
    plans += [(s2, dt, 'shaped', al, 'few') for s2 in (6, 2 * small, 2 * small + 2)
              for dt in ('float64', 'complex64', 'int32') for al in ('none', 'outx2')]
    if quick:
        # keep every (regime, dtype, layout, alias) but sample sizes inside the regime
        keep = {}
        rng.shuffle(plans)
        for p in plans:
            key = (regime_of(p[0], small, medium), p[1], p[2], p[3])
            keep.setdefault(key, p)
        # and make sure every threshold-straddling size occurs with every alias
        extra = [(s, 'float64', 'C', al, 'few') for s in
                 [small - 1, small] for al in ALIASES if s >= 1]
        plans = sorted(set(list(keep.values()) + extra))
    plans = plans + sorted(set(large_keep))
    for size, dt, layout, alias, breadth in plans:
        dtype = np.dtype(dt)
        if (layout == 'mixed' or layout.startswith('pat:')) and size % 2 == 0 and size >= 4:
            shape = (size // 2, 2)
        elif size % 6 == 0 and size >= 12 and layout != 'C':
            shape = (size // 6, 6)
        elif size % 4 == 0 and size >= 8:
            shape = (size // 4, 4)
        else:
            shape = (size,)
        if len(shape) == 1 and layout == 'F':
            pass  # 1-d arrays are both C and F contiguous: still a distinct request
        if layout == 'shaped':
            shape = (2, size // 2)
            space = odl.tensor_space(size // 2, dtype=(dtype, (2,)))
            assert space.shape == shape
        else:
            space = odl.tensor_space(shape, dtype=dtype)
        if np.issubdtype(dtype, np.integer):
            classes = SC_INT
        elif np.issubdtype(dtype, np.complexfloating):
            classes = dict(SC_REAL, **SC_CPLX)
        else:
            classes = SC_REAL
        combos = list(itertools.product(classes, classes))
        if breadth == 'cross':
            combos = [('gen', 'gen')] if ('gen', 'gen') in combos else combos[:1]
        if breadth == 'few' or (quick and size > 8):
            rng.shuffle(combos)
            combos = combos[:(1 if quick else 2) if size >= medium - 1 else (3 if quick else 6)]
        todo = [(ca, cb, rng.choice(classes[ca]), rng.choice(classes[cb])) for ca, cb in combos]
        if dt in ('float64', 'complex128'):
            nc = list(NEAR_CANCEL)
            if quick or breadth == 'few':
                rng.shuffle(nc)
                nc = nc[:1]
            if breadth == 'cross':
                nc = []
            todo += nc
        for ca, cb, a, b in todo:
            yield dict(kind='lincomb', size=size, shape=shape, dtype=dt, layout=layout,
                       alias=alias, a=a, b=b, ca=ca, cb=cb, space=space,
                       vseed=rng.getrandbits(32))


SCAL_REP = {'0': 0, '1': 1, '-1': -1, 'gen': 2, 'gen2': -2}


def leaf_plans(ctx, small, medium):
    """One large case per leaf of the extracted dispatch and per large-size regime: the
    driver is asked (on 1-entry buffers) which leaf each (alias, a, b) class reaches."""
    import odl
    combos = [(al, ka, kb) for al in ALIASES for ka in SCAL_REP for kb in SCAL_REP]
    lines = []
    for al, ka, kb in combos:
        ids = ALIASES[al]
        lines.append('lincomb size={} lay=111111 dd=0 nb=0 tb=0 x1={} x2={} out={} a={} b={} n=1 '
                     'm0=1 m1=1 m2=1'.format(medium, ids[0], ids[1], ids[2],
                                             SCAL_REP[ka], SCAL_REP[kb]))
    outs = core.run_driver('C01', lines)
    chosen = {}
    for (al, ka, kb), ans in zip(combos, outs):
        f = dict(t.split('=', 1) for t in ans.split()[1:]) if ans.startswith('ok ') else {}
        leaf = f.get('leaf')
        if leaf is not None:
            chosen.setdefault(leaf, (al, ka, kb))
    ctx.extra['dispatch_leaves'] = sorted(chosen)
    # the leaves of the small-size branch (direct expressions), asked the same way
    souts = core.run_driver('C01', [ln.replace('size={} '.format(medium), 'size=1 ') for ln in lines])
    small_leaves = {}
    for (al, ka, kb), ans in zip(combos, souts):
        f = dict(t.split('=', 1) for t in ans.split()[1:]) if ans.startswith('ok ') else {}
        if f.get('leaf') is not None and f.get('leaf') != 'zeroguard':
            small_leaves.setdefault(f['leaf'], (al, ka, kb))
    ctx.extra['small_leaves'] = sorted(small_leaves)
    ctx.extra['small_leaf_reps'] = small_leaves
    variants = [('float64', 'C')]                       # BLAS regime
    if not ctx.quick:
        variants += [('float64', 'strided'), ('complex128', 'F'), ('int64', 'C')]  # + fallback
    for leaf, (al, ka, kb) in sorted(chosen.items()):
        for dt, layout in variants:
            shape = (medium // 4, 4) if medium % 4 == 0 else (medium,)
            yield dict(kind='lincomb', size=medium, shape=shape, dtype=dt, layout=layout,
                       alias=al, a=SCAL_REP[ka], b=SCAL_REP[kb], ca=ka.rstrip('2'),
                       cb=kb.rstrip('2'), space=odl.tensor_space(shape, dtype=dt),
                       vseed=ctx.rng.getrandbits(32))
    for leaf, (al, ka, kb) in sorted(small_leaves.items()):
        for sz in (1, 7, max(1, small - 1)):
            yield dict(kind='lincomb', size=sz, shape=(sz,), dtype='float64', layout='C',
                       alias=al, a=SCAL_REP[ka], b=SCAL_REP[kb], ca=ka.rstrip('2'),
                       cb=kb.rstrip('2'), space=odl.tensor_space((sz,), dtype='float64'),
                       vseed=ctx.rng.getrandbits(32))
    # the same leaves in the medium (fallback) regime are cheap: all of them, always
    for leaf, (al, ka, kb) in sorted(chosen.items()):
        yield dict(kind='lincomb', size=small, shape=(small,), dtype='float64', layout='C',
                   alias=al, a=SCAL_REP[ka], b=SCAL_REP[kb], ca=ka.rstrip('2'),
                   cb=kb.rstrip('2'), space=odl.tensor_space((small,), dtype='float64'),
                   vseed=ctx.rng.getrandbits(32))


def EXPECTED_BRANCHES(ctx):
    leaves = ctx.extra.get('dispatch_leaves', [])
    exp = ['leaf/small/' + l for l in ctx.extra.get('small_leaves', ['lin11'])]
    for leaf in leaves:
        if leaf == 'zeroguard':
            exp += ['leaf/small/zeroguard', 'leaf/fallback/zeroguard', 'leaf/blas/zeroguard']
        else:
            exp += ['leaf/fallback/' + leaf, 'leaf/blas/' + leaf]
    for op in ('iaddE', 'isubE', 'imulE', 'idivE'):
        exp += ['stmt/bcast/op={}/own-part'.format(op), 'stmt/bcast/op={}/external'.format(op)]
    for op in ('addE', 'subE', 'mulE', 'divE', 'rsubE', 'rdivE'):
        exp += ['stmt/bcasto/{}/{}/{}'.format(op, o, sh) for o in ('own-part', 'external')
                for sh in ('distinct', 'shared')]
    for cls in ('tensor', 'discr'):
        exp += ['override/copy/{}/none/{}'.format(rc, cls) for rc in ('real', 'complex')]
        exp += ['override/conj/{}/{}/{}'.format(rc, out, cls) for rc in ('real', 'complex')
                for out in ('none', 'self', 'other')]
        exp += ['override/{}/{}/none/{}'.format(f, rc, cls) for rc in ('real', 'complex')
                for f in ('setreal', 'setimag')]
        exp += ['ipowroute/{}/{}'.format(cls, r) for r in ('generic', 'nppower')]
    exp += ['ipowroute/generic/generic', 'ipowroute/generic/raises']
    ops12 = [n for n, _ in OPFRONT_OPS]
    for kind in ('foreign', 'uncoercible', 'nofield', 'nofield-scalar', 'element', 'scalar', 'arraylike'):
        exp += ['opfront/{}/{}'.format(kind, op) for op in ops12]
    exp += ['opfront/priority/' + op for op in HP_DELEGATE]
    exp += ['opfront/noone/' + op for op in ('add', 'radd', 'sub', 'rsub', 'rtruediv', 'iadd', 'isub')]
    exp += ['reach/options/' + n for n in (
        'rn4_warr', 'rn4_wconst', 'rn4_exp1', 'rn4_expinf', 'rn4_inner', 'rn4_norm', 'rn4_dist',
        'cn3_warr', 'rn2x3', 'pow_op', 'pow_tuple', 'mul_op', 'ps_wconst', 'ps_warr', 'ps_exp1',
        'discr_w', 'discr_exp', 'mini')]
    exp += ['reach/mini-defaults']
    exp += ['reach/elemopts/{}/{}'.format(n, o) for n in ('rn3x4', 'cn2x3', 'discr3x4') for o in 'CF']
    exp += ['reach/index/' + n for n in ('rn6', 'cn5', 'int6', 'rn3x4', 'rn6_warr', 'discr6', 'discr3x4')]
    exp += ['reach/pindex/' + n for n in ('power3', 'mixed', 'nested', 'cpower')]
    exp += ['reach/preal/' + n for n in ('cpower', 'rpower', 'cmixed', 'cnested')]
    exp += ['stmt/coerced/{}/list'.format(op) for op in ('rsubE', 'addE', 'subE', 'mulE', 'rdivE',
                                                         'divE', 'iaddE', 'isubE')]
    exp += ['stmt/coerced/{}/array'.format(op) for op in ('addE', 'subE', 'mulE', 'divE', 'iaddE',
                                                          'imulE', 'idivE')]
    exp += ['stmt/pelemop/' + op for op in sorted(set(v for v in MODEL_OP.values() if v))]
    for f in ('mul', 'div'):
        for alias in ALIASES:
            exp += ['pmuldiv/{}/{}/{}'.format(f, alias, k) for k in ('tensor', 'product')]
    return exp


def run_lincomb_case(c, small, medium):
    """Run the real code; returns (line for the model, impl outcome dict, oracle verdict)."""
    import random
    space = c['space']
    dtype = np.dtype(c['dtype'])
    r = random.Random(c['vseed'])
    size = c['size']
    ids = ALIASES[c['alias']]
    vals = [rand_vals(r, size, dtype) for _ in range(3)]
    nan_out = False
    elems = {}
    pattern = r.choice([('C', 'F', 'F'), ('F', 'C', 'C'), ('C', 'C', 'F'), ('F', 'F', 'C'),
                        ('C', 'F', 'C')])
    if c['layout'].startswith('pat:'):
        # per-ARGUMENT layouts (x1, x2, out); aliased arguments share the buffer's layout
        pat = c['layout'][4:]
        pattern = {ids[k]: pat[k] for k in range(3)}
    for bid in sorted(set(ids)):
        elems[bid] = make_elem(space, vals[bid],
                               pattern[bid] if (c['layout'] == 'mixed' or
                                                c['layout'].startswith('pat:')) else c['layout'], r)
    x1, x2, out = elems[ids[0]], elems[ids[1]], elems[ids[2]]
    if ids[2] not in ids[:2] and not np.issubdtype(dtype, np.integer):
        out.data[...] = np.nan  # previous contents of a non-aliased output must not matter
        nan_out = True
    poisoned = False
    if c['ca'] == '0' and c['cb'] == '0' and not np.issubdtype(dtype, np.integer) \
            and c['vseed'] % 2 == 0:
        # a = b = 0: the result is exactly zero whatever the operands hold, also NaN/inf
        # (x.set_zero() relies on it). The model is sent the finite values.
        poisoned = True
        for bid in elems:
            flatv = elems[bid].data.reshape(-1) if elems[bid].data.flags.c_contiguous else None
            idx = tuple(0 for _ in elems[bid].data.shape)
            elems[bid].data[idx] = np.nan
            last = tuple(s - 1 for s in elems[bid].data.shape)
            elems[bid].data[last] = np.inf
    pre = {bid: wide(vals[bid]) for bid in elems}
    pre_raw = {bid: wide(elems[bid].data) for bid in elems}
    # what `_blas_is_applicable` and `ravel` see, read from the actual arrays
    arrs = [x1.data, x2.data, out.data]
    lay = ''.join('{}{}'.format(int(arr.flags.c_contiguous), int(arr.flags.f_contiguous))
                  for arr in arrs)
    dd = int(any(arr.dtype != arrs[0].dtype for arr in arrs[1:]))
    # documented: BLAS is for single and double precision float or complex data only
    nb = int(dtype not in [np.dtype(t) for t in ('float32', 'float64', 'complex64',
                                                 'complex128')])
    tb = int(any(arr.size > 2 ** 31 - 1 for arr in arrs))
    try:
        import odl.space.npy_tensors as _nt
        real_blas = int(bool(_nt._blas_is_applicable(*arrs)))
    except Exception as e:  # noqa
        real_blas = 'err:' + type(e).__name__
    a, b = c['a'], c['b']
    mem_for_model = {bid: (vals[bid] if not (nan_out and bid == ids[2]) else
                           np.zeros(size, dtype=dtype)) for bid in elems}
    # the model is entry-wise: for big arrays it is sent a sample of the entries (the oracle
    # below still checks every entry of the real result)
    if size <= 400:
        sidx = np.arange(size)
    else:
        sidx = np.unique(np.concatenate([np.arange(48), np.arange(size - 48, size),
                                         np.array([r.randrange(size) for _ in range(16)])]))
    c['_sidx'] = sidx

    def smp(bid):
        v = mem_for_model.get(bid)
        return cl8(np.asarray(v).ravel()[sidx]) if v is not None else '-'
    line = ('lincomb size={} lay={} dd={} nb={} tb={} x1={} x2={} out={} a={} b={} n={} '
            'm0={} m1={} m2={}').format(size, lay, dd, nb, tb, ids[0], ids[1], ids[2], cs(a),
                                        cs(b), len(sidx), smp(0), smp(1), smp(2))
    c['_real_blas'] = real_blas
    try:
        ret = space.lincomb(a, x1, b, x2, out=out)
        status = 'ok'
    except Exception as e:  # noqa
        status = 'err:' + type(e).__name__ + ':' + str(e)[:120]
        ret = None
    post = {bid: wide(elems[bid].data) for bid in elems}
    # oracle: exact by construction in complex128 (inputs k/8 with |k| <= 24, scalars with at
    # most 41 significant bits); cross-checked with Fractions on small sizes
    exp_out = complex(a) * pre[ids[0]] + complex(b) * pre[ids[1]]
    if size <= 16:
        fa, fb = fval(a), fval(b)
        fexp = [cadd(cmul(fa, u), cmul(fb, v)) for u, v in
                zip(exact_list(pre[ids[0]]), exact_list(pre[ids[1]]))]
        if exact_list(exp_out) != fexp:
            raise core.Infra('oracle arithmetic not exact for {}'.format(c))
    problems = []
    if status != 'ok':
        problems.append(status)
    else:
        if ret is not out:
            problems.append('lincomb did not return the given out object')
        if not np.array_equal(post[ids[2]], exp_out):
            bad = np.flatnonzero(~(post[ids[2]] == exp_out))
            problems.append('out != a*x1+b*x2 at {} entries, first index {}: got {} expected {}'
                            .format(len(bad), int(bad[0]), post[ids[2]][bad[0]],
                                    exp_out[bad[0]]))
        for bid in elems:
            if bid != ids[2] and not np.array_equal(post[bid], pre_raw[bid], equal_nan=True):
                problems.append('operand buffer {} modified'.format(bid))
    if poisoned:
        c['poisoned'] = True
        # for the correspondence the non-output buffers are compared on the finite values
        for bid in elems:
            if bid != ids[2]:
                post[bid] = pre[bid] if np.array_equal(post[bid], pre_raw[bid], equal_nan=True) \
                    else post[bid]
    nontrivial = bool(np.any(exp_out != 0)) or poisoned
    return line, status, post, problems, nontrivial


def compare_lincomb(ctx, cases, outs, small, medium):
    for (c, line, status, post, problems, nontrivial), ans in zip(cases, outs):
        desc = {k: (str(v) if k in ('a', 'b', 'shape') else v) for k, v in c.items()
                if k != 'space' and not k.startswith('_')}
        reg = regime_of(c['size'], small, medium)
        sig = ('lincomb', reg, c['dtype'], c['layout'], c['alias'], c['ca'], c['cb'])
        ctx.case(sig if nontrivial else None,
                 sample={'case': desc, 'model_answer': ans[:120]} if c['size'] <= 6 else None)
        ctx.hit('lincomb/{}/{}'.format(reg, c['alias']))
        if problems:
            key = 'lincomb regime={} dtype={} layout={} alias={} a={} b={}'.format(
                reg, c['dtype'], c['layout'], c['alias'], c['ca'], c['cb'])
            ctx.violation(key, '; '.join(problems)[:500], desc)
        # correspondence
        if not ans.startswith('ok '):
            ctx.disagree(desc, status, ans)
            continue
        if status != 'ok':
            ctx.disagree(desc, status, 'ok')
            continue
        fields = dict(t.split('=', 1) for t in ans.split()[1:])
        ctx.hit('leaf/{}/{}'.format(fields.get('reg'), fields.get('leaf')))
        # the extracted `_blas_is_applicable` (evaluated by the model on the descriptor read
        # from the arrays) vs the real function on the same arrays
        if str(c.get('_real_blas')) != fields.get('blas'):
            ctx.disagree(desc, '_blas_is_applicable = {}'.format(c.get('_real_blas')),
                         'model blas = {}'.format(fields.get('blas')), stream='blas-predicate')
        sidx = c['_sidx']
        for bid in post:
            mv = parse_wide(fields['m{}'.format(bid)])
            if not np.array_equal(mv, post[bid][sidx]):
                ctx.disagree(desc, 'buffer {} = {}'.format(bid, post[bid][sidx][:6]),
                             'buffer {} = {}'.format(bid, mv[:6]))
                break


# ---------------------------------------------------------------------------
# element-level arithmetic on all kinds of spaces

def space_zoo(ctx):
    import odl
    zoo = [
        ('rn3', odl.rn(3)),
        ('rn120', odl.rn(120)),
        ('cn5', odl.cn(5)),
        ('cn130', odl.cn(130, dtype='complex64')),
        ('int7', odl.tensor_space(7, dtype='int64')),
        ('int128', odl.tensor_space((32, 4), dtype='int32')),
        ('rn2x3w', odl.rn((2, 3), weighting=2.0)),
        ('f32_110', odl.rn(110, dtype='float32')),
        ('discr1d', odl.uniform_discr(0, 1, 5)),
        ('discr2d', odl.uniform_discr([0, 0], [1, 2], (12, 10))),
        ('discr_c', odl.uniform_discr(0, 1, 4, dtype='complex128')),
        ('pspace', odl.ProductSpace(odl.rn(2), odl.rn(3))),
        ('power', odl.ProductSpace(odl.rn(105), 2)),
        ('nested', odl.ProductSpace(odl.ProductSpace(odl.rn(2), 2), odl.rn(101),
                                    odl.uniform_discr(0, 1, 3))),
        ('cpower', odl.ProductSpace(odl.cn(3), 2)),
    ]
    return zoo


def flat(x):
    """Flatten any element to a 1-d numpy array (C order, product spaces concatenated)."""
    import odl
    if isinstance(x.space, odl.ProductSpace):
        parts = [flat(p) for p in x]
        return np.concatenate(parts) if parts else np.zeros(0)
    return np.asarray(x.asarray()).ravel(order='C')


def base_dtype(space):
    import odl
    if isinstance(space, odl.ProductSpace):
        return base_dtype(space[0])
    return space.dtype


def rand_elem(space, rng, nonzero=False, tiny=False):
    import odl
    if isinstance(space, odl.ProductSpace):
        return space.element([rand_elem(s, rng, nonzero, tiny) for s in space])
    n = int(np.prod(space.shape))
    dt = space.dtype
    if nonzero:
        # powers of two: division stays exact
        ks = [rng.choice([-4, -2, -1, 1, 2, 4, 8]) for _ in range(n)]
        if np.issubdtype(dt, np.integer):
            arr = np.array(ks, dtype=dt)
        else:
            arr = (np.array(ks, dtype=float) / 2).astype(dt)
            if np.issubdtype(dt, np.complexfloating):
                arr = arr * rng.choice([1, 1j, -1j])
    elif tiny:
        # few significant bits: integer powers up to 5 stay exact even in float32
        ks = [rng.randint(-3, 3) for _ in range(n)]
        if np.issubdtype(dt, np.integer):
            arr = np.array(ks, dtype=dt)
        else:
            arr = (np.array(ks, dtype=float) / 2).astype(dt)
            if np.issubdtype(dt, np.complexfloating):
                arr = arr + 1j * np.array([rng.randint(-1, 1) for _ in range(n)], dtype=float)
                arr = arr.astype(dt)
    else:
        arr = rand_vals(rng, n, dt)
    return space.element(arr.reshape(space.shape))


def elem_ops():
    """(name, arity kind, python action, spec op, needs_nonzero_divisor)
    action(x, y, c) returns the result element; x, y are fresh elements, c a scalar."""
    def iadd(x, y, c):
        x += y
        return x

    def isub(x, y, c):
        x -= y
        return x

    def imul(x, y, c):
        x *= y
        return x

    def idiv(x, y, c):
        x /= y
        return x

    def iadds(x, y, c):
        x += c
        return x

    def isubs(x, y, c):
        x -= c
        return x

    def imuls(x, y, c):
        x *= c
        return x

    def idivs(x, y, c):
        x /= c
        return x

    def ipow(p):
        def f(x, y, c):
            x **= p
            return x
        return f

    def assign(x, y, c):
        x.assign(y)
        return x

    def setzero(x, y, c):
        x.set_zero()
        return x

    ops = [
        ('add', 'xy', lambda x, y, c: x + y, 'add'),
        ('sub', 'xy', lambda x, y, c: x - y, 'sub'),
        ('mul', 'xy', lambda x, y, c: x * y, 'mul'),
        ('div', 'xy/', lambda x, y, c: x / y, 'div'),
        ('iadd', 'xy', iadd, 'add'), ('isub', 'xy', isub, 'sub'),
        ('imul', 'xy', imul, 'mul'), ('idiv', 'xy/', idiv, 'div'),
        ('neg', 'x', lambda x, y, c: -x, 'neg'),
        ('pos', 'x', lambda x, y, c: +x, 'id'),
        ('copy', 'x', lambda x, y, c: x.copy(), 'id'),
        ('assign', 'xy', assign, 'snd'),
        ('set_zero', 'x', setzero, 'zero'),
        ('adds', 'xc', lambda x, y, c: x + c, 'adds'),
        ('radds', 'xc', lambda x, y, c: c + x, 'adds'),
        ('subs', 'xc', lambda x, y, c: x - c, 'subs'),
        ('rsubs', 'xc', lambda x, y, c: c - x, 'rsubs'),
        ('muls', 'xc', lambda x, y, c: x * c, 'muls'),
        ('rmuls', 'xc', lambda x, y, c: c * x, 'muls'),
        ('divs', 'xc/', lambda x, y, c: x / c, 'divs'),
        ('rdivs', 'x/c', lambda x, y, c: c / x, 'rdivs'),
        ('iadds', 'xc', iadds, 'adds'), ('isubs', 'xc', isubs, 'subs'),
        ('imuls', 'xc', imuls, 'muls'), ('idivs', 'xc/', idivs, 'divs'),
        ('ipow2', 'x', ipow(2), 'pow2'), ('ipow3', 'x', ipow(3), 'pow3'),
        ('ipow5', 'x', ipow(5), 'pow5'), ('ipow1', 'x', ipow(1), 'pow1'),
        ('ipow0', 'x', ipow(0), 'pow0'), ('ipow4', 'x', ipow(4), 'pow4'),
        ('ipow6', 'x', ipow(6), 'pow6'), ('ipow7', 'x', ipow(7), 'pow7'),
        ('ipow-1', 'x/', ipow(-1), 'pow-1'), ('ipow-2', 'x/', ipow(-2), 'pow-2'),
        ('pow-1', 'x/', lambda x, y, c: x ** -1, 'pow-1'),
        ('pow2', 'x', lambda x, y, c: x ** 2, 'pow2'),
        ('pow3', 'x', lambda x, y, c: x ** 3, 'pow3'),
        ('sp_lincomb', 'xycd', None, 'lincomb'),
        ('sp_multiply', 'xy', lambda x, y, c: x.space.multiply(x, y), 'mul'),
        ('sp_divide', 'xy/', lambda x, y, c: x.space.divide(x, y), 'div'),
        ('el_multiply', 'xy', lambda x, y, c: x.multiply(y), 'mul'),
        ('el_divide', 'xy/', lambda x, y, c: x.divide(y), 'div'),
        ('el_lincomb1', 'xc', lambda x, y, c: x.space.lincomb(c, x), 'muls'),
        ('add_self', 'xx', lambda x, y, c: x + x, 'add'),
        ('sub_self', 'xx', lambda x, y, c: x - x, 'sub'),
        ('mul_self', 'xx', lambda x, y, c: x * x, 'mul'),
        ('iadd_self', 'xx', lambda x, y, c: iadd(x, x, c), 'add'),
        ('isub_self', 'xx', lambda x, y, c: isub(x, x, c), 'sub'),
        ('imul_self', 'xx', lambda x, y, c: imul(x, x, c), 'mul'),
        ('idiv_self', 'xx/', lambda x, y, c: idiv(x, x, c), 'div'),
        # array-like (nested list) operands: coerced through space.element(other)
        ('l_sub', 'xl', lambda x, y, c: tolist(y) - x, 'rsub'),
        ('l_add', 'xl', lambda x, y, c: tolist(y) + x, 'add'),
        ('sub_l', 'xl', lambda x, y, c: x - tolist(y), 'sub'),
        ('l_mul', 'xl', lambda x, y, c: tolist(y) * x, 'mul'),
        ('mul_l', 'xl', lambda x, y, c: x * tolist(y), 'mul'),
        ('l_div', 'x/l', lambda x, y, c: tolist(y) / x, 'rdiv'),
        ('div_l', 'xl/', lambda x, y, c: x / tolist(y), 'div'),
        ('iadd_l', 'xl', lambda x, y, c: iadd(x, tolist(y), c), 'add'),
        ('isub_l', 'xl', lambda x, y, c: isub(x, tolist(y), c), 'sub'),
        # ndarray operands on the right: space.element(arr) WRAPS the caller's array
        ('add_a', 'xl', lambda x, y, c: x + toarr(y), 'add'),
        ('sub_a', 'xl', lambda x, y, c: x - toarr(y), 'sub'),
        ('mul_a', 'xl', lambda x, y, c: x * toarr(y), 'mul'),
        ('div_a', 'xl/', lambda x, y, c: x / toarr(y), 'div'),
        ('iadd_a', 'xl', lambda x, y, c: iadd(x, toarr(y), c), 'add'),
        ('imul_a', 'xl', lambda x, y, c: imul(x, toarr(y), c), 'mul'),
        ('idiv_a', 'xl/', lambda x, y, c: idiv(x, toarr(y), c), 'div'),
        # power-space broadcasting: other is an element of space[0]
        ('b_add', 'xb', lambda x, y, c: x + y, 'add'),
        ('b_radd', 'xb', lambda x, y, c: y + x, 'add'),
        ('b_sub', 'xb', lambda x, y, c: x - y, 'sub'),
        ('b_rsub', 'xb', lambda x, y, c: y - x, 'rsub'),
        ('b_mul', 'xb', lambda x, y, c: x * y, 'mul'),
        ('b_rmul', 'xb', lambda x, y, c: y * x, 'mul'),
        ('b_div', 'xb/', lambda x, y, c: x / y, 'div'),
        ('b_rdiv', 'x/b', lambda x, y, c: y / x, 'rdiv'),
        ('b_iadd', 'xb', lambda x, y, c: iadd(x, y, c), 'add'),
        ('b_isub', 'xb', lambda x, y, c: isub(x, y, c), 'sub'),
        ('b_imul', 'xb', lambda x, y, c: imul(x, y, c), 'mul'),
        ('b_idiv', 'xb/', lambda x, y, c: idiv(x, y, c), 'div'),
        # power-space broadcasting where the broadcast operand is one of the element's OWN
        # parts (x *= x[0]): every part must be combined with the ORIGINAL value of that part
        ('bp_add', 'xp', lambda x, y, c: x + y, 'add'),
        ('bp_radd', 'xp', lambda x, y, c: y + x, 'add'),
        ('bp_sub', 'xp', lambda x, y, c: x - y, 'sub'),
        ('bp_rsub', 'xp', lambda x, y, c: y - x, 'rsub'),
        ('bp_mul', 'xp', lambda x, y, c: x * y, 'mul'),
        ('bp_div', 'xp/', lambda x, y, c: x / y, 'div'),
        ('bp_rdiv', 'xp/', lambda x, y, c: y / x, 'rdiv'),
        ('bp_iadd', 'xp', lambda x, y, c: iadd(x, y, c), 'add'),
        ('bp_isub', 'xp', lambda x, y, c: isub(x, y, c), 'sub'),
        ('bp_imul', 'xp', lambda x, y, c: imul(x, y, c), 'mul'),
        ('bp_idiv', 'xp/', lambda x, y, c: idiv(x, y, c), 'div'),
        ('zero', '0', lambda x, y, c: x.space.zero(), 'zero'),
        ('one', '0', lambda x, y, c: x.space.one(), 'one'),
    ]
    return ops


LAST_ARRAYS = []


def toarr(y):
    """The operand as a plain ndarray (kept, with a snapshot, so that the caller can check it
    was only read). Product spaces: no single array, use the nested list."""
    import odl
    if isinstance(y.space, odl.ProductSpace):
        return tolist(y)
    a = np.array(y.asarray(), copy=True)
    LAST_ARRAYS.append((a, a.copy()))
    return a


def tolist(y):
    import odl
    if isinstance(y.space, odl.ProductSpace):
        return [tolist(p) for p in y]
    return y.asarray().tolist()


def oracle_elem(spec, X, Y, c, d):
    """Independent entry-wise expectation over exact (re, im) pairs."""
    def cdiv(p, q):
        den = q[0] * q[0] + q[1] * q[1]
        return cmul(p, (q[0] / den, -q[1] / den))

    def cpow(p, n):
        r = (Fraction(1), Fraction(0))
        for _ in range(abs(n)):
            r = cmul(r, p)
        return r if n >= 0 else cdiv((Fraction(1), Fraction(0)), r)
    neg = lambda p: (-p[0], -p[1])  # noqa
    if spec == 'add':
        return [cadd(u, v) for u, v in zip(X, Y)]
    if spec == 'sub':
        return [cadd(u, neg(v)) for u, v in zip(X, Y)]
    if spec == 'rsub':
        return [cadd(v, neg(u)) for u, v in zip(X, Y)]
    if spec == 'rdiv':
        return [cdiv(v, u) for u, v in zip(X, Y)]
    if spec == 'mul':
        return [cmul(u, v) for u, v in zip(X, Y)]
    if spec == 'div':
        return [cdiv(u, v) for u, v in zip(X, Y)]
    if spec == 'neg':
        return [neg(u) for u in X]
    if spec == 'id':
        return list(X)
    if spec == 'snd':
        return list(Y)
    if spec == 'zero':
        return [(Fraction(0), Fraction(0)) for _ in X]
    if spec == 'one':
        return [(Fraction(1), Fraction(0)) for _ in X]
    if spec == 'adds':
        return [cadd(u, c) for u in X]
    if spec == 'subs':
        return [cadd(u, neg(c)) for u in X]
    if spec == 'rsubs':
        return [cadd(c, neg(u)) for u in X]
    if spec == 'muls':
        return [cmul(c, u) for u in X]
    if spec == 'divs':
        return [cdiv(u, c) for u in X]
    if spec == 'rdivs':
        return [cdiv(c, u) for u in X]
    if spec.startswith('pow'):
        return [cpow(u, int(spec[3:])) for u in X]
    if spec == 'lincomb':
        return [cadd(cmul(c, u), cmul(d, v)) for u, v in zip(X, Y)]
    raise KeyError(spec)


def spec_line(spec, X, Y, c, d):
    def l(v):
        return ','.join((fs(p[0]) if p[1] == 0 else fs(p[0]) + ':' + fs(p[1])) for p in v) or '-'

    def s(p):
        return fs(p[0]) if p[1] == 0 else fs(p[0]) + ':' + fs(p[1])
    m = {'id': ('adds', dict(c=(Fraction(0), Fraction(0)))),
         'snd': ('adds', None), 'zero': ('muls', dict(c=(Fraction(0), Fraction(0)))),
         'one': None}
    if spec == 'id':
        return 'elem op=adds x={} c=0'.format(l(X))
    if spec == 'snd':
        return 'elem op=adds x={} c=0'.format(l(Y))
    if spec == 'zero':
        return 'elem op=muls x={} c=0'.format(l(X))
    if spec == 'one':
        return 'elem op=adds x={} c=1'.format(l([(Fraction(0), Fraction(0))] * len(X)))
    if spec.startswith('pow'):
        if int(spec[3:]) < 0:
            return 'ipow p={} n={} x={}'.format(spec[3:], len(X), l(X))
        return 'elem op=pow p={} x={}'.format(spec[3:], l(X))
    if spec == 'lincomb':
        return 'elem op=lincomb x={} y={} c={} d={}'.format(l(X), l(Y), s(c), s(d))
    if spec in ('add', 'sub', 'mul', 'div'):
        return 'elem op={} x={} y={}'.format(spec, l(X), l(Y))
    if spec in ('rsub', 'rdiv'):
        return 'elem op={} x={} y={}'.format(spec[1:], l(Y), l(X))
    if spec == 'neg':
        return 'elem op=neg x={}'.format(l(X))
    return 'elem op={} x={} c={}'.format(spec, l(X), s(c))


def elem_cases(ctx):
    rng = ctx.rng
    zoo = space_zoo(ctx)
    ops = elem_ops()
    reps = 1 if ctx.quick else 3
    for sname, space in zoo:
        dt = base_dtype(space)
        is_int = np.issubdtype(dt, np.integer)
        is_c = np.issubdtype(dt, np.complexfloating)
        for name, kind, action, spec in ops:
            if is_int and ('/' in kind):
                continue
            if is_int and name in ('ipow6', 'ipow7'):
                pass  # true division is not closed on integer spaces (NumPy refuses)
            for rep in range(reps):
                need_nz_y = kind in ('xy/', 'xx/', 'xl/', 'xb/')
                need_nz_x = kind in ('x/c', 'xx/', 'x/l', 'x/b', 'x/', 'xp/')
                bcast = kind in ('xb', 'xb/', 'x/b', 'xp', 'xp/')
                own = kind in ('xp', 'xp/')
                if bcast:
                    import odl
                    if not (isinstance(space, odl.ProductSpace) and space.is_power_space and
                            not isinstance(space[0], odl.ProductSpace)):
                        continue
                x = rand_elem(space, rng, nonzero=need_nz_x, tiny=('pow' in name and not need_nz_x))
                if own:
                    if len(space) < 2:
                        continue
                    y = x[rng.choice([0, len(space) - 1, rng.randrange(len(space))])]
                elif bcast:
                    y = rand_elem(space[0], rng, nonzero=need_nz_y)
                else:
                    y = x if kind.startswith('xx') else rand_elem(space, rng, nonzero=need_nz_y)
                if is_int:
                    c, d = rng.choice([0, 1, -1, 2, -3]), rng.choice([0, 1, -1, 2])
                elif is_c and rng.random() < 0.5:
                    c, d = rng.choice([1j, 2 - 1j, -0.5j]), rng.choice([0, 1, 1 + 1j])
                else:
                    c, d = rng.choice([0, 1, -1, 2, -0.5, 4]), rng.choice([0, 1, -1, 0.25])
                if 'c/' in kind or kind == 'xc/':
                    c = rng.choice([2, -4, 0.5] if not is_c else [2, 2j, -0.5]) if not is_int else 1
                yield dict(kind='elem', space=sname, op=name, okind=kind, spec=spec,
                           x=x, y=y, c=c, d=d, action=action, sp=space)


def run_elem_case(c):
    x, y, space = c['x'], c['y'], c['sp']
    X = exact_list(flat(x))
    bcast = c['okind'] in ('xb', 'xb/', 'x/b', 'xp', 'xp/')
    own = c['okind'] in ('xp', 'xp/')
    Y = exact_list(np.tile(flat(y), len(space))) if bcast else exact_list(flat(y))
    fc, fd = fval(c['c']), fval(c['d'])
    xs, ys = x.copy(), y.copy()
    in_place = c['op'].startswith('i') or c['op'].startswith('b_i') or \
        c['op'].startswith('bp_i') or c['op'] in ('assign', 'set_zero')
    del LAST_ARRAYS[:]
    try:
        if c['op'] == 'sp_lincomb':
            res = space.lincomb(c['c'], x, c['d'], y)
        else:
            res = c['action'](x, y, c['c'])
        status = 'ok'
    except Exception as e:  # noqa
        status = 'err:' + type(e).__name__ + ':' + str(e)[:160]
        res = None
    problems = []
    R = None
    exp = oracle_elem(c['spec'], X, Y, fc, fd)
    if status != 'ok':
        problems.append(status)
    else:
        if res not in space:
            problems.append('result not in the space')
        else:
            R = exact_list(flat(res))
            if R != exp:
                bad = [i for i, (p, q) in enumerate(zip(R, exp)) if p != q]
                problems.append('entry-wise result wrong at {} entries, first {}: got {} '
                                'expected {}'.format(len(bad), bad[0], R[bad[0]], exp[bad[0]]))
        if in_place and res is not x and not bcast:
            problems.append('in-place operator returned a different object')
        if in_place and bcast and exact_list(flat(x)) != exp:
            # power-space broadcasting returns a new wrapper around the same parts: the
            # object the caller holds must nevertheless have been updated in place
            problems.append('broadcast in-place operator did not update the original object')
        if not in_place and exact_list(flat(x)) != X:
            problems.append('left operand modified by an out-of-place operation')
        if not in_place and res is not None and c['op'] not in ('zero', 'one'):
            # an out-of-place operator returns a NEW element the caller owns (+x, x.copy() too)
            if res is x or res is y:
                problems.append('out-of-place result IS one of the operands (same object)')
            else:
                try:
                    shared = any(np.shares_memory(np.asarray(rp), np.asarray(op_))
                                 for rp in leaf_parts(res) for e in (x, y) for op_ in leaf_parts(e))
                except Exception:  # noqa
                    shared = False
                if shared:
                    problems.append('out-of-place result shares memory with an operand')
        if y is not x and not (own and in_place) and \
                exact_list(np.tile(flat(y), len(space)) if bcast else flat(y)) != Y:
            # (an own part used as the broadcast operand of an in-place operation is part of
            # the output and legitimately changes)
            problems.append('right operand modified')
    for arr, snap in LAST_ARRAYS:
        if not np.array_equal(arr, snap):
            problems.append('the ndarray operand was modified')
        if res is not None and not in_place and any(_shares(rp, arr) for rp in leaf_parts(res)):
            problems.append('out-of-place result shares memory with the ndarray operand')
    nontrivial = any(v != (0, 0) for v in exp)
    return spec_line(c['spec'], X, Y, fc, fd), status, R, problems, nontrivial


MODEL_OP = {'add': 'addE', 'sub': 'subE', 'mul': 'mulE', 'div': 'divE', 'iadd': 'iaddE',
            'isub': 'isubE', 'imul': 'imulE', 'idiv': 'idivE', 'neg': 'neg', 'pos': 'pos',
            'copy': 'pos', 'assign': 'assign', 'set_zero': 'setZero', 'adds': 'addS',
            'radds': 'addS', 'subs': 'subS', 'rsubs': 'rsubS', 'muls': 'mulS', 'rmuls': 'mulS',
            'divs': 'divS', 'rdivs': 'rdivS', 'iadds': 'iaddS', 'isubs': 'isubS',
            'imuls': 'imulS', 'idivs': 'idivS', 'add_self': 'addE', 'sub_self': 'subE',
            'mul_self': 'mulE', 'iadd_self': 'iaddE', 'isub_self': 'isubE',
            'imul_self': 'imulE', 'idiv_self': 'idivE', 'sp_multiply': None,
            'l_sub': 'rsubE', 'l_add': 'addE', 'sub_l': 'subE', 'l_mul': 'mulE', 'mul_l': 'mulE',
            'l_div': 'rdivE', 'div_l': 'divE', 'iadd_l': 'iaddE', 'isub_l': 'isubE',
            'add_a': 'addE', 'sub_a': 'subE', 'mul_a': 'mulE', 'div_a': 'divE',
            'iadd_a': 'iaddE', 'imul_a': 'imulE', 'idiv_a': 'idivE',
            'el_lincomb1': None}


BCAST_OP = {'b_iadd': 'iaddE', 'b_isub': 'isubE', 'b_imul': 'imulE', 'b_idiv': 'idivE',
            'bp_iadd': 'iaddE', 'bp_isub': 'isubE', 'bp_imul': 'imulE', 'bp_idiv': 'idivE'}


BCASTO_OP = {'b_add': 'addE', 'b_radd': 'addE', 'b_sub': 'subE', 'b_rsub': 'rsubE',
             'b_mul': 'mulE', 'b_rmul': 'mulE', 'b_div': 'divE', 'b_rdiv': 'rdivE',
             'bp_add': 'addE', 'bp_radd': 'addE', 'bp_sub': 'subE', 'bp_rsub': 'rsubE',
             'bp_mul': 'mulE', 'bp_div': 'divE', 'bp_rdiv': 'rdivE'}


def is_product(space):
    import odl
    return isinstance(space, odl.ProductSpace)


def distinct_parts(x):
    """Parts of a power-space element as (distinct part objects, index of each part in them):
    identity, not value, decides (P.element([a, a, b]) has two distinct part objects)."""
    distinct, ids = [], []
    for part in x:
        for k, q in enumerate(distinct):
            if q is part:
                ids.append(k)
                break
        else:
            distinct.append(part)
            ids.append(len(distinct) - 1)
    return distinct, ids


def bcasto_extra_cases(ctx):
    """Out-of-place broadcasting beyond the zoo: three parts, SHARED part objects
    (P.element([a, a, b])), the operand being a shared / the last / an external part."""
    import odl
    rng = ctx.rng
    ops = {name: (kind, action, spec) for name, kind, action, spec in elem_ops()}
    bases = [('power3', odl.rn(4)), ('cpower3', odl.cn(2)), ('power3_f32_104', odl.rn(104, dtype='float32')),
             ('dpower3', odl.uniform_discr(0, 1, 3))]
    if ctx.quick:
        bases = bases[:2] + [bases[rng.randrange(2, 4)]]
    for bname, base in bases:
        P = odl.ProductSpace(base, 3)
        for name in sorted(BCASTO_OP):
            kind, action, spec = ops[name]
            if not name.startswith('b_'):
                continue
            for shared in (False, True):
                for own in (False, True):
                    nzx = '/' in kind and kind.startswith('x/')
                    nzy = kind.endswith('/')
                    a = rand_elem(base, rng, nonzero=nzx or (own and nzy))
                    b = rand_elem(base, rng, nonzero=nzx or (own and nzy))
                    cc = rand_elem(base, rng, nonzero=nzx or (own and nzy))
                    parts = [a, a, b] if shared else [a, b, cc]
                    rng.shuffle(parts)
                    x = P.element(parts)
                    y = rng.choice(parts) if own else rand_elem(base, rng, nonzero=nzy)
                    yield dict(kind='elem', space=bname, op=name, okind=kind, spec=spec, x=x, y=y,
                               c=0, d=0, action=action, sp=P, shared=shared)


def lv(v):
    return ','.join((fs(p[0]) if p[1] == 0 else fs(p[0]) + ':' + fs(p[1])) for p in v) or '-'


def stmt_line(c, X, Y, fc):
    """Protocol line for the statement-level model of the operator (Model/ElemOps.lean)."""
    name = c['op']
    if name.startswith('ipow') or name.startswith('pow'):
        return 'ipow p={} n={} x={}'.format(name.replace('ipow', '').replace('pow', ''), len(X), lv(X))
    mop = MODEL_OP.get(name)
    if mop is None:
        return None
    if c['okind'] in ('xl', 'xl/', 'x/l'):
        # array-like operand: the coercion branch (Model/ElemOps.lean::Op.execCoerced)
        return 'elemopl op={} n={} x={} v={}'.format(mop, len(X), lv(X), lv(Y))
    alias = 1 if c['okind'].startswith('xx') else 0
    cc = fs(fc[0]) if fc[1] == 0 else fs(fc[0]) + ':' + fs(fc[1])
    return 'elemop op={} alias={} c={} n={} x={} y={}'.format(mop, alias, cc, len(X), lv(X),
                                                              lv(Y) if not alias else '-')


def pstmt_line(c, fc):
    """Protocol line for the statement-level model of an operator on a PRODUCT-space element
    (Model/ElemOps.lean::Op.execP): elements by their leaf parts."""
    mop = MODEL_OP.get(c['op'])
    if mop is None:
        return None
    alias = 1 if c['okind'].startswith('xx') else 0
    cc = fs(fc[0]) if fc[1] == 0 else fs(fc[0]) + ':' + fs(fc[1])
    xp = '|'.join(lv(exact_list(q.asarray())) for q in leaf_parts(c['x']))
    yp = '|'.join(lv(exact_list(q.asarray())) for q in leaf_parts(c['y']))
    return 'pelemop op={} alias={} c={} x={}{}'.format(mop, alias, cc, xp, '' if alias else ' y=' + yp)


def leaf_parts(x):
    import odl
    if isinstance(x.space, odl.ProductSpace):
        out = []
        for p in x:
            out.extend(leaf_parts(p))
        return out
    return [x]


def plincomb_cases(ctx):
    rng = ctx.rng
    for sname, space in space_zoo(ctx):
        import odl
        if not isinstance(space, odl.ProductSpace):
            continue
        is_c = np.issubdtype(base_dtype(space), np.complexfloating)
        for alias, ids in ALIASES.items():
            for rep in range(2 if ctx.quick else 6):
                scal = [0, 1, -1, 2, -0.5] + ([1j, 1 - 1j] if is_c else [])
                a, b = rng.choice(scal), rng.choice(scal)
                elems = {}
                for bid in sorted(set(ids)):
                    elems[bid] = rand_elem(space, rng)
                yield dict(kind='plincomb', space=sname, alias=alias, a=a, b=b, elems=elems,
                           ids=ids, sp=space)


def run_plincomb_case(c):
    space, ids, elems = c['sp'], c['ids'], c['elems']
    x1, x2, out = elems[ids[0]], elems[ids[1]], elems[ids[2]]
    # leaf buffers: numbering by (element id, leaf index)
    leaves = {bid: leaf_parts(e) for bid, e in elems.items()}
    nleaf = len(leaves[ids[0]])
    order = sorted(elems)
    num = {(bid, k): i * nleaf + k for i, bid in enumerate(order) for k in range(nleaf)}
    pre = {key: exact_list(leaves[key[0]][key[1]].asarray()) for key in num}
    bufs = [None] * len(num)
    for key, i in num.items():
        bufs[i] = lv(pre[key])
    line = 'plincomb a={} b={} xs={} ys={} os={} bufs={}'.format(
        cs(c['a']), cs(c['b']),
        ','.join(str(num[(ids[0], k)]) for k in range(nleaf)),
        ','.join(str(num[(ids[1], k)]) for k in range(nleaf)),
        ','.join(str(num[(ids[2], k)]) for k in range(nleaf)), '|'.join(bufs))
    try:
        ret = space.lincomb(c['a'], x1, c['b'], x2, out=out)
        status = 'ok'
    except Exception as e:  # noqa
        status = 'err:' + type(e).__name__ + ':' + str(e)[:120]
        ret = None
    post = {key: exact_list(leaves[key[0]][key[1]].asarray()) for key in num}
    fa, fb = fval(c['a']), fval(c['b'])
    problems = []
    if status != 'ok':
        problems.append(status)
    else:
        if ret is not out:
            problems.append('lincomb did not return out')
        for k in range(nleaf):
            exp = [cadd(cmul(fa, u), cmul(fb, v)) for u, v in
                   zip(pre[(ids[0], k)], pre[(ids[1], k)])]
            if post[(ids[2], k)] != exp:
                problems.append('part {} of out != a*x1+b*x2'.format(k))
        for key in num:
            if key[0] != ids[2] and post[key] != pre[key]:
                problems.append('operand part {} modified'.format(key))
    postl = [None] * len(num)
    for key, i in num.items():
        postl[i] = post[key]
    return line, status, postl, problems


# ---------------------------------------------------------------------------
# space.multiply / space.divide with out=, every identity alias pattern, tensor and (nested)
# product spaces: NumpyTensorSpace._multiply/_divide, ProductSpace._multiply/_divide
# (Model/ElemOps.lean::pmultiply/pdivide; a tensor space is the one-leaf case)

def pmuldiv_cases(ctx):
    import odl
    rng = ctx.rng
    for sname, space in space_zoo(ctx):
        is_int = np.issubdtype(base_dtype(space), np.integer)
        for f in ('mul', 'div'):
            if f == 'div' and is_int:
                continue   # true division is not closed on integer spaces (NumPy refuses out=)
            for alias, ids in ALIASES.items():
                for rep in range(1 if ctx.quick else 4):
                    elems = {}
                    for bid in sorted(set(ids)):
                        elems[bid] = rand_elem(space, rng, nonzero=(f == 'div' and bid == ids[1]))
                    yield dict(kind='pmuldiv', space=sname, f=f, alias=alias, elems=elems, ids=ids,
                               sp=space, product=isinstance(space, odl.ProductSpace))


def run_pmuldiv_case(c):
    space, ids, elems = c['sp'], c['ids'], c['elems']
    x1, x2, out = elems[ids[0]], elems[ids[1]], elems[ids[2]]
    leaves = {bid: leaf_parts(e) for bid, e in elems.items()}
    nleaf = len(leaves[ids[0]])
    order = sorted(elems)
    num = {(bid, k): i * nleaf + k for i, bid in enumerate(order) for k in range(nleaf)}
    pre = {key: exact_list(leaves[key[0]][key[1]].asarray()) for key in num}
    bufs = [None] * len(num)
    for key, i in num.items():
        bufs[i] = lv(pre[key])
    line = 'pmuldiv f={} xs={} ys={} os={} bufs={}'.format(
        c['f'],
        ','.join(str(num[(ids[0], k)]) for k in range(nleaf)),
        ','.join(str(num[(ids[1], k)]) for k in range(nleaf)),
        ','.join(str(num[(ids[2], k)]) for k in range(nleaf)), '|'.join(bufs))
    try:
        fn = space.multiply if c['f'] == 'mul' else space.divide
        ret = fn(x1, x2, out=out)
        status = 'ok'
    except Exception as e:  # noqa
        status = 'err:' + type(e).__name__ + ':' + str(e)[:120]
        ret = None
    problems = []
    post = None
    if status != 'ok':
        problems.append(status)
    else:
        post = {key: exact_list(leaves[key[0]][key[1]].asarray()) for key in num}
        if ret is not out:
            problems.append('{} did not return out'.format(c['f']))
        spec = 'mul' if c['f'] == 'mul' else 'div'
        for k in range(nleaf):
            exp = oracle_elem(spec, pre[(ids[0], k)], pre[(ids[1], k)], None, None)
            if post[(ids[2], k)] != exp:
                bad = [i for i, (u, v) in enumerate(zip(post[(ids[2], k)], exp)) if u != v]
                problems.append('part {} of out != x1 {} x2 entry-wise at {} entries, first {}: got {} '
                                'expected {}'.format(k, '*' if spec == 'mul' else '/', len(bad), bad[0],
                                                     post[(ids[2], k)][bad[0]], exp[bad[0]]))
        for key in num:
            if key[0] != ids[2] and post[key] != pre[key]:
                problems.append('operand part {} modified'.format(key))
    postl = None
    if post is not None:
        postl = [None] * len(num)
        for key, i in num.items():
            postl[i] = post[key]
    return line, status, postl, problems


def run_pmuldiv(ctx, cases=None):
    batch, lines = [], []
    for c in (cases if cases is not None else pmuldiv_cases(ctx)):
        line, status, postl, problems = run_pmuldiv_case(c)
        batch.append((c, status, postl, problems))
        lines.append(line)
    outs = core.run_driver('C01', lines)
    for (c, status, postl, problems), ans, line in zip(batch, outs, lines):
        desc = {'kind': 'pmuldiv', 'space': c['space'], 'f': c['f'], 'alias': c['alias'],
                'line': line[:300]}
        ctx.case(('pmuldiv', c['space'], c['f'], c['alias'])
                 if postl and any(v != (0, 0) for q in postl for v in q) else None)
        ctx.hit('pmuldiv/{}/{}/{}'.format(c['f'], c['alias'], 'product' if c['product'] else 'tensor'))
        if problems:
            ctx.violation('space.{} out= space={} alias={}'.format(
                'multiply' if c['f'] == 'mul' else 'divide', c['space'], c['alias']),
                '; '.join(problems)[:400], desc)
        if status != 'ok' or not ans.startswith('ok bufs='):
            if status == 'ok' or ans.startswith('ok'):
                ctx.disagree(desc, status, ans[:200])
            continue
        mv = [parse_cl(t) for t in ans[len('ok bufs='):].split('|')]
        if mv != postl:
            ctx.disagree(desc, [q[:4] for q in postl], [q[:4] for q in mv])


# ---------------------------------------------------------------------------
# NumpyTensor / DiscretizedSpaceElement overrides: copy, conj(out=), real / imag setters and
# the exponent test of __ipow__ (Model/ElemOps.lean::tcopy/tconj/setReal/setImag/ipowRoute)

def override_spaces():
    import odl
    return [('rn3', odl.rn(3), 'tensor'), ('rn2x3', odl.rn((2, 3)), 'tensor'),
            ('f32_104', odl.rn(104, dtype='float32'), 'tensor'),
            ('int7', odl.tensor_space(7, dtype='int64'), 'tensor'),
            ('cn4', odl.cn(4), 'tensor'), ('c64_130', odl.cn(130, dtype='complex64'), 'tensor'),
            ('cn2x2F', odl.cn((2, 2)), 'tensor'),
            ('discr1d', odl.uniform_discr(0, 1, 5), 'discr'),
            ('discr2d', odl.uniform_discr([0, 0], [1, 2], (3, 4)), 'discr'),
            ('discr_c', odl.uniform_discr(0, 1, 4, dtype='complex128'), 'discr')]


def _shares(a, b):
    try:
        return bool(np.shares_memory(np.asarray(a), np.asarray(b)))
    except Exception:  # noqa
        return False


def override_cases(ctx):
    rng = ctx.rng
    for sname, space, cls in override_spaces():
        # "real" for the buffer model = the dtype is not complex: space.is_real, or an integer
        # dtype (there NumpyTensor.conj takes its generic branch, but ndarray.conj() returns the
        # array itself, so the returned element wraps self's buffer exactly as `return self`)
        is_real = not bool(space.is_complex)
        for rep in range(1 if ctx.quick else 3):
            yield dict(f='copy', out='none', v=None, space=sname, sp=space, cls=cls, real=is_real)
            for out in ('none', 'self', 'other'):
                yield dict(f='conj', out=out, v=None, space=sname, sp=space, cls=cls, real=is_real)
            if np.issubdtype(space.dtype, np.integer):
                # integer spaces: is_real is False (conj takes the generic branch, fine), but
                # .real / .imag are not defined at all (NotImplementedError): no setter to model
                continue
            for f in ('setreal', 'setimag'):
                for v in ('list', 'elem', 'scalar', 'ownview'):
                    yield dict(f=f, out='none', v=v, space=sname, sp=space, cls=cls, real=is_real)


def run_override_case(ctx, c):
    rng = ctx.rng
    space = c['sp']
    x = rand_elem(space, rng)
    o = rand_elem(space, rng) if c['out'] == 'other' else None
    X = exact_list(flat(x))
    O = exact_list(flat(o)) if o is not None else None
    n = len(X)
    is_int = np.issubdtype(space.dtype, np.integer)
    V = None
    arg = None
    if c['v'] is not None:
        rs = space.real_space if not c['real'] else space
        if c['v'] == 'scalar':
            sc = rng.choice([0, 1, -2, 3] if is_int else [0, 1, -2, 0.5, 3.25])
            arg, V = sc, [(Fraction(sc), Fraction(0))] * n
        elif c['v'] == 'ownview':
            # x.real = x.imag / x.imag = x.real: the operand is a view of the element written to
            if c['f'] == 'setreal':
                arg = x.imag if not c['real'] else x
                V = [(p[1], Fraction(0)) for p in X] if not c['real'] else list(X)
            else:
                arg = x.real
                V = [(p[0], Fraction(0)) for p in X]
        else:
            ve = rand_elem(rs, rng)
            V = exact_list(flat(ve))
            arg = ve if c['v'] == 'elem' else ve.asarray().tolist()
    line = 'tover f={} real={} out={} n={} x={}{}{}'.format(
        c['f'], 1 if c['real'] else 0, c['out'], n, lv(X),
        ' o=' + lv(O) if O is not None else '', ' v=' + lv(V) if V is not None else '')
    res = None
    try:
        if c['f'] == 'copy':
            res = x.copy()
        elif c['f'] == 'conj':
            res = x.conj() if c['out'] == 'none' else x.conj(out=x if c['out'] == 'self' else o)
        elif c['f'] == 'setreal':
            x.real = arg
            res = x
        else:
            x.imag = arg
            res = x
        status = 'ok'
    except Exception as e:  # noqa
        status = 'err:' + type(e).__name__ + ':' + str(e)[:100]
    problems = []
    obs = None
    conj = lambda q: [(p[0], -p[1]) for p in q]  # noqa
    if c['f'] == 'setimag' and c['real']:
        # documented: ValueError on a real space, nothing written
        if not status.startswith('err:ValueError'):
            problems.append('imag setter on a real space did not raise ValueError: ' + status)
        if exact_list(flat(x)) != X:
            problems.append('imag setter on a real space modified the element')
        obs = 'raises' if status.startswith('err:') else 'ok'
    elif status != 'ok':
        problems.append(status)
        obs = 'raises'
    else:
        XP = exact_list(flat(x))
        OP = exact_list(flat(o)) if o is not None else None
        R = exact_list(flat(res))
        if c['f'] == 'copy':
            exp, xexp = X, X
            if res is x or _shares(res, x):
                problems.append('copy() is / shares memory with the original')
        elif c['f'] == 'conj':
            exp = conj(X)
            xexp = exp if c['out'] == 'self' else X
            if c['out'] != 'none' and res is not (x if c['out'] == 'self' else o):
                problems.append('conj(out=) did not return out')
            if c['out'] == 'none' and not c['real'] and (res is x or _shares(res, x)):
                problems.append('conj() on a complex space is / shares memory with self')
        elif c['f'] == 'setreal':
            exp = [(v[0], Fraction(0) if c['real'] else p[1]) for v, p in zip(V, X)]
            xexp = exp
        else:
            exp = [(p[0], v[0]) for v, p in zip(V, X)]
            xexp = exp
        if R != exp:
            bad = [i for i, (u, w) in enumerate(zip(R, exp)) if u != w]
            problems.append('result wrong at {} entries, first {}: got {} expected {}'.format(
                len(bad), bad[0], R[bad[0]], exp[bad[0]]))
        if XP != xexp:
            problems.append('self afterwards is not what the operation defines')
        if o is not None and OP != exp:
            problems.append('out does not hold the result')
        if res not in (space if c['f'] != 'x' else space):
            problems.append('result not in the space')
        rid = 0 if (res is x or _shares(res, x)) else (1 if o is not None and (res is o or _shares(res, o)) else 2)
        obs = dict(r=rid, res=R, x=XP, o=OP)
    return line, obs, problems


def run_overrides(ctx):
    from unittest import mock
    import odl
    from odl.set.space import LinearSpaceElement
    batch, lines = [], []
    for c in override_cases(ctx):
        line, obs, problems = run_override_case(ctx, c)
        batch.append((c, obs, problems))
        lines.append(line)
    # --- where x **= p goes
    routes = []
    generic = LinearSpaceElement.__ipow__
    pspace = odl.ProductSpace(odl.rn(2), 2)
    for sname, space, cls in [(a, b, k) for a, b, k in override_spaces() if a in
                              ('rn3', 'f32_104', 'cn4', 'discr1d', 'discr_c', 'int7')] + \
            [('pspace', pspace, 'generic')]:
        is_int = np.issubdtype(base_dtype(space), np.integer)
        for p in [2, 3, 0, 1, 2.0, 3.0, 5.0, 0.0, Fraction(4, 2)] + \
                ([] if is_int else [-1, -2.0, -3.0, 0.5, 1.5, -0.5, 2.5]):
            calls = []

            def spy(self, q, _calls=calls):
                _calls.append(q)
                return generic(self, q)
            if cls == 'generic':
                x = rand_elem(space, ctx.rng, nonzero=True)
            else:
                # perfect squares of dyadic values: np.power(x, k/2) is exactly representable
                base = rand_elem(space, ctx.rng, nonzero=True)
                x = base * base if not is_int and float(p) != int(p) else base
                if float(p) != int(p):
                    x = space.element(np.abs(np.asarray(x)))
            X = exact_list(flat(x))
            pre = np.array(flat(x))
            try:
                with mock.patch.object(LinearSpaceElement, '__ipow__', spy):
                    y = x
                    y **= p
                if calls:
                    obs = 'generic:{}'.format(int(calls[0]))
                else:
                    obs = 'nppower'
                err = None
            except ValueError as e:
                obs, err = ('raises' if 'expected integer' in str(e) else 'err:' + str(e)[:80]), e
            except Exception as e:  # noqa
                obs, err = 'err:' + type(e).__name__ + ':' + str(e)[:80], e
            problems = []
            if err is None:
                if y is not x:
                    problems.append('x **= p returned a different object')
                if float(p) == int(p):
                    exp = oracle_elem('pow{}'.format(int(p)), X, None, None, None)
                    if exact_list(flat(x)) != exp:
                        problems.append('x **= {} is not the entry-wise power'.format(p))
                else:
                    want = np.power(pre.astype(complex) if np.iscomplexobj(pre) else pre.astype(float),
                                    float(p))
                    if not np.allclose(np.array(flat(x)), want, rtol=1e-5, atol=0):
                        problems.append('x **= {} deviates from np.power on the data'.format(p))
            elif obs != 'raises':
                problems.append(obs)
            elif exact_list(flat(x)) != X:
                problems.append('x **= {} raised but modified x'.format(p))
            tensor = 1 if cls in ('tensor', 'discr') else 0
            routes.append((sname, cls, p, obs, problems,
                           'ipowroute tensor={} p={}'.format(tensor, fs(Fraction(p)))))
    outs = core.run_driver('C01', lines + [r[5] for r in routes])
    for (c, obs, problems), ans, line in zip(batch, outs, lines):
        desc = {'kind': 'override', 'space': c['space'], 'f': c['f'], 'out': c['out'], 'v': c['v'],
                'line': line[:300]}
        ctx.case(('override', c['space'], c['f'], c['out'], c['v']))
        ctx.hit('override/{}/{}/{}/{}'.format(c['f'], 'real' if c['real'] else 'complex', c['out'],
                                              c['cls']))
        if problems:
            ctx.violation('override {} space={} out={} v={}'.format(c['f'], c['space'], c['out'], c['v']),
                          '; '.join(problems)[:400], desc)
        if obs == 'raises' or ans == 'raises':
            if obs != ans:
                ctx.disagree(desc, obs if isinstance(obs, str) else 'ok', ans[:200])
            continue
        if not ans.startswith('ok') or not isinstance(obs, dict):
            ctx.disagree(desc, str(obs)[:200], ans[:200])
            continue
        f = dict(t.split('=', 1) for t in ans.split()[1:])
        got = dict(r=int(f['r']), res=parse_cl(f['res']), x=parse_cl(f['x']),
                   o=parse_cl(f['o']) if obs['o'] is not None else None)
        if got != obs:
            ctx.disagree(desc, {k: (v[:4] if isinstance(v, list) else v) for k, v in obs.items()},
                         ans[:300])
    for (sname, cls, p, obs, problems, line), ans in zip(routes, outs[len(lines):]):
        desc = {'kind': 'ipowroute', 'space': sname, 'p': str(p), 'line': line}
        ctx.case(('ipowroute', sname, str(p)))
        ctx.hit('ipowroute/{}/{}'.format(cls, ans.split(':')[0]))
        if problems:
            ctx.violation('x **= p space={} p={}'.format(sname, p), '; '.join(problems)[:300], desc)
        if obs != ans:
            ctx.disagree(desc, obs, ans)


# ---------------------------------------------------------------------------
# ROUND 5 "reach" strata: paths of the anchored source that the covmap showed no stream entered
# (operator front tests, element lincomb / __copy__ / __deepcopy__ / ==, indexing get / set,
# ProductSpaceElement real / imag / conj / asarray, space construction options, ** and *,
# a user-defined LinearSpace on the base-class defaults). Oracle only (exact, independent of the
# model); the operator-front routes are compared with the model too (run_opfront).

def _ex(x):
    return exact_list(flat(x))


class _HighPriority(object):
    """A foreign operand that outranks ODL elements: every operator must delegate to it."""
    __array_priority__ = 1e9

    def _mk(name):  # noqa
        def f(self, other):
            return ('hp', name, other)
        return f
    __add__ = _mk('__add__')
    __radd__ = _mk('__radd__')
    __sub__ = _mk('__sub__')
    __rsub__ = _mk('__rsub__')
    __mul__ = _mk('__mul__')
    __rmul__ = _mk('__rmul__')
    __truediv__ = _mk('__truediv__')
    __rtruediv__ = _mk('__rtruediv__')


def mini_spaces():
    """A user-defined LinearSpace with only `element`, `_lincomb` (and the field): everything
    else runs on the base-class defaults of odl/set/space.py. `NoOne` has `one = None`."""
    import odl
    from odl.set.space import LinearSpace, LinearSpaceElement

    class MiniElem(LinearSpaceElement):
        def __init__(self, space, arr):
            LinearSpaceElement.__init__(self, space)
            self.arr = arr

        def asarray(self):
            return self.arr

    class MiniSpace(LinearSpace):
        def __init__(self, n):
            LinearSpace.__init__(self, odl.RealNumbers())
            self.n = n

        def element(self, inp=None):
            if inp is None:
                return MiniElem(self, np.full(self.n, 77.0))
            if isinstance(inp, MiniElem) and inp.space == self:
                return inp
            arr = np.array(inp, dtype=float)
            if arr.shape != (self.n,):
                raise ValueError('bad shape')
            return MiniElem(self, arr)

        def _lincomb(self, a, x1, b, x2, out):
            out.arr[:] = a * x1.arr + b * x2.arr

        def _dist(self, x1, x2):
            return float(np.abs(x1.arr - x2.arr).max())

        def __eq__(self, other):
            return type(other) is type(self) and other.n == self.n

        def __hash__(self):
            return hash((type(self).__name__, self.n))

    class NoOne(MiniSpace):
        one = None

    return MiniSpace, NoOne


OPFRONT_OPS = [
    ('add', lambda x, o: x + o), ('radd', lambda x, o: x.__radd__(o)),
    ('sub', lambda x, o: x - o), ('rsub', lambda x, o: x.__rsub__(o)),
    ('mul', lambda x, o: x * o), ('rmul', lambda x, o: x.__rmul__(o)),
    ('truediv', lambda x, o: x / o), ('rtruediv', lambda x, o: x.__rtruediv__(o)),
    ('iadd', lambda x, o: x.__iadd__(o)), ('isub', lambda x, o: x.__isub__(o)),
    ('imul', lambda x, o: x.__imul__(o)), ('itruediv', lambda x, o: x.__itruediv__(o)),
]
HP_DELEGATE = {'add': '__radd__', 'radd': '__add__', 'sub': '__rsub__', 'rsub': '__sub__',
               'mul': '__rmul__', 'rmul': '__mul__', 'truediv': '__rtruediv__',
               'rtruediv': '__truediv__'}


def opfront_observe(x, other, fn):
    """Outcome class of one operator call on the real code: 'notimpl' (NotImplemented returned),
    'typeerror', 'delegated:<method>' (a high-priority operand's method was called), 'element'
    (an element of x's space came back), 'err:<Type>' otherwise."""
    try:
        r = fn(x, other)
    except TypeError:
        return 'typeerror', None
    except Exception as e:  # noqa
        return 'err:' + type(e).__name__ + ':' + str(e)[:60], None
    if r is NotImplemented:
        return 'notimpl', None
    if isinstance(r, tuple) and len(r) == 3 and r[0] == 'hp':
        return 'delegated:' + r[1], r
    try:
        if r in x.space:
            return 'element', r
    except Exception:  # noqa
        pass
    return 'other:' + type(r).__name__, r


def run_opfront(ctx):
    """Operands that must NOT reach a writing branch: foreign elements, uncoercible array-likes,
    spaces without a field, a space without `one`, operands that outrank the element
    (`__array_priority__`). Oracle: no operand is modified, nothing but NotImplemented / TypeError /
    the delegate's answer comes back. The outcome class is also what the model's `opFront`
    predicts (driver op `opfront`)."""
    import odl
    rng = ctx.rng
    MiniSpace, NoOne = mini_spaces()
    pairs = [('rn3', odl.rn(3), odl.rn(4)), ('cn3', odl.cn(3), odl.rn(3)),
             ('discr', odl.uniform_discr(0, 1, 3), odl.rn(3)),
             ('pspace', odl.ProductSpace(odl.rn(2), odl.rn(3)), odl.rn(5)),
             ('power', odl.ProductSpace(odl.rn(2), 2), odl.rn(3)),
             ('mini', MiniSpace(3), odl.rn(3))]
    lines, batch = [], []

    def add(sname, kind, opname, x, other, fn, snap_other=None):
        X = _ex(x) if hasattr(x, 'space') and not sname.startswith('str') else list(x.asarray())
        obs, r = opfront_observe(x, other, fn)
        XP = _ex(x) if not sname.startswith('str') else list(x.asarray())
        problems = []
        if XP != X:
            problems.append('self was modified although the operand cannot be combined')
        if snap_other is not None and _ex(other) != snap_other:
            problems.append('the foreign operand was modified')
        if kind in ('element', 'scalar', 'arraylike'):
            problems = []
            if obs != 'element':
                problems.append('a combinable operand was not accepted: ' + obs)
            elif not opname.startswith('i') and XP != X:
                problems.append('out-of-place operator modified self')
        elif kind == 'priority':
            if obs != 'delegated:' + HP_DELEGATE[opname]:
                problems.append('an operand with higher __array_priority__ was not delegated to: ' + obs)
            elif r[2] is not x:
                problems.append('the delegate did not receive self')
        elif obs not in ('notimpl', 'typeerror'):
            problems.append('operator did not refuse the operand: ' + obs)
        elif opname.startswith('i') and kind in ('foreign', 'uncoercible', 'noone') and obs != 'typeerror':
            # in place there must be no silent fallback to `x = x + other`
            problems.append('in-place operator answered NotImplemented instead of raising')
        inplace = opname.startswith('i')
        line = 'opfront op={} kind={}'.format(opname, kind)
        batch.append((sname, kind, opname, obs, problems))
        lines.append(line)

    for sname, space, fspace in pairs:
        for opname, fn in OPFRONT_OPS:
            x = rand_elem(space, rng, nonzero=True) if sname != 'mini' else space.element([1, -2, 4])
            fo = rand_elem(fspace, rng, nonzero=True)
            add(sname, 'foreign', opname, x, fo, fn, _ex(fo))
            add(sname, 'uncoercible', opname, x, rng.choice(['ab', [1, 2, 3, 4, 5, 6, 7], {}]), fn)
            if opname in HP_DELEGATE:
                add(sname, 'priority', opname, x, _HighPriority(), fn)
            if sname != 'mini':
                add(sname, 'element', opname, x.copy(), rand_elem(space, rng, nonzero=True), fn)
                add(sname, 'scalar', opname, x.copy(), rng.choice([2, -4, 0.5]), fn)
                add(sname, 'arraylike', opname, x.copy(), tolist(rand_elem(space, rng, nonzero=True)), fn)
    # spaces without a field: every operator answers NotImplemented, also for own elements/scalars
    ss = odl.tensor_space(3, dtype='U2')
    for opname, fn in OPFRONT_OPS:
        xs, ys = ss.element(['a', 'b', 'c']), ss.element(['d', 'e', 'f'])
        add('str', 'nofield', opname, xs, ys, fn)
        add('str', 'nofield-scalar', opname, xs, 2, fn)
    # a space whose `one` is None: scalar addition has no unit to broadcast with
    for opname, fn in OPFRONT_OPS:
        if opname in ('add', 'radd', 'sub', 'rsub', 'rtruediv', 'iadd', 'isub'):
            add('noone', 'noone', opname, NoOne(3).element([1, -2, 4]), 2.0, fn)
    outs = core.run_driver('C01', lines)
    for (sname, kind, opname, obs, problems), ans, line in zip(batch, outs, lines):
        desc = {'kind': 'opfront', 'space': sname, 'operand': kind, 'op': opname}
        ctx.case(('opfront', sname, kind, opname))
        ctx.hit('opfront/{}/{}'.format(kind, opname))
        if problems:
            ctx.violation('operator front op={} operand={} space={}'.format(opname, kind, sname),
                          '; '.join(problems)[:300], desc)
        # the model predicts the route of the method itself; Python turns a NotImplemented of
        # both operands' methods into a TypeError, which the binary-operator forms observe
        if ans.startswith('ok route='):
            route = ans[len('ok route='):]
            ok = (route == obs) or (route == 'notimpl' and obs == 'typeerror' and
                                    opname in ('add', 'sub', 'mul', 'truediv'))
            if not ok:
                ctx.disagree(desc, obs, ans)
        else:
            ctx.disagree(desc, obs, ans)


def run_reach(ctx):
    import copy as _copy
    import odl
    rng = ctx.rng
    MiniSpace, NoOne = mini_spaces()

    def viol(key, problems, desc):
        if problems:
            ctx.violation(key, '; '.join(problems)[:400], dict(desc, kind='reach'))

    # --- S2: element.lincomb, __copy__, __deepcopy__, ==, != ; spaces built with ** and * and
    # with construction options (weighting / exponent / custom inner, norm, dist): arithmetic
    # must not depend on them
    w = np.array([1.0, 2.0, 0.5, 4.0])
    opt_spaces = [
        ('rn4_warr', odl.rn(4, weighting=w)), ('rn4_wconst', odl.rn(4, weighting=2.5)),
        ('rn4_exp1', odl.rn(4, exponent=1.0)), ('rn4_expinf', odl.rn(4, exponent=float('inf'))),
        ('rn4_inner', odl.rn(4, inner=lambda a, b: float(np.vdot(b.data, a.data)))),
        ('rn4_norm', odl.rn(4, norm=lambda a: float(np.abs(a.data).sum()))),
        ('rn4_dist', odl.rn(4, dist=lambda a, b: float(np.abs(a.data - b.data).max()))),
        ('cn3_warr', odl.cn(3, weighting=[1.0, 2.0, 3.0])),
        ('rn2x3', odl.rn((2, 3))),
        ('pow_op', odl.rn(3) ** 2), ('pow_tuple', odl.rn(2) ** (2, 2)), ('mul_op', odl.rn(2) * odl.rn(3)),
        ('ps_wconst', odl.ProductSpace(odl.rn(2), odl.rn(3), weighting=2.0)),
        ('ps_warr', odl.ProductSpace(odl.rn(2), 3, weighting=[1.0, 2.0, 3.0])),
        ('ps_exp1', odl.ProductSpace(odl.rn(2), 2, exponent=1.0)),
        ('discr_w', odl.uniform_discr(0, 1, 4, weighting=3.0)),
        ('discr_exp', odl.uniform_discr(0, 1, 4, exponent=1.0)),
        ('mini', MiniSpace(4)),
    ]
    for sname, space in opt_spaces:
        mini = sname == 'mini'
        mk = (lambda: space.element([rng.randint(-8, 8) / 4.0 for _ in range(4)])) if mini else \
            (lambda: rand_elem(space, rng))
        for alias, ids in ALIASES.items():
            a, b = rng.choice([0, 1, -1, 2, -0.5]), rng.choice([0, 1, -1, 0.25])
            el = {k: mk() for k in set(ids)}
            x1, x2, out = el[ids[0]], el[ids[1]], el[ids[2]]
            X1, X2 = _ex(x1), _ex(x2)
            problems = []
            try:
                # the element method: out.lincomb(a, x1, b, x2) == space.lincomb(..., out=out)
                ret = out.lincomb(a, x1, b, x2)
                exp = oracle_elem('lincomb', X1, X2, fval(a), fval(b))
                if ret is not out:
                    problems.append('element.lincomb did not return self')
                if _ex(out) != exp:
                    problems.append('element.lincomb result is not a*x1+b*x2 entry-wise')
                if x1 is not out and _ex(x1) != X1 or x2 is not out and _ex(x2) != X2:
                    problems.append('element.lincomb modified an operand')
                for how, cp in (('copy.copy', _copy.copy(out)), ('copy.deepcopy', _copy.deepcopy(out))):
                    if cp is out or _ex(cp) != exp or cp not in space:
                        problems.append(how + ' is not an independent equal element')
                    elif not mini and any(_shares(u, v) for u in leaf_parts(cp) for v in leaf_parts(out)):
                        problems.append(how + ' shares memory with the original')
                    elif not (cp == out) or (cp != out):
                        problems.append(how + ' does not compare equal to the original')
                cp = out.copy()
                cp += out
                if any(v != (0, 0) for v in exp) and (cp == out or not (cp != out)):
                    problems.append('2*x compares equal to x != 0')
                if _ex(out) != exp:
                    problems.append('x.copy() += x modified x')
                if out == 1 or out == rand_elem(odl.rn(7), rng):
                    problems.append('element equal to a foreign object')
            except Exception as e:  # noqa
                problems.append('err:' + type(e).__name__ + ':' + str(e)[:120])
            ctx.case(('reach-lincomb', sname, alias))
            ctx.hit('reach/options/' + sname)
            viol('element.lincomb/copy/== space={} alias={}'.format(sname, alias), problems,
                 {'space': sname, 'alias': alias, 'a': str(a), 'b': str(b)})
    # base-class defaults on the user-defined space: zero(), set_zero, assign, copy, neg, scalar *
    ms = MiniSpace(4)
    problems = []
    try:
        x = ms.element([1, -2, 0.5, 4])
        z = ms.zero()
        if list(z.arr) != [0, 0, 0, 0]:
            problems.append('default zero() is not zero (junk of element() leaked): {}'.format(z.arr))
        y = (-x) * 2 + x - ms.element([1, 1, 1, 1])
        if list(y.arr) != [-2, 1, -1.5, -5] or list(x.arr) != [1, -2, 0.5, 4]:
            problems.append('arithmetic on the base-class defaults wrong: {}'.format(y.arr))
        c = x.copy()
        c.set_zero()
        if list(c.arr) != [0, 0, 0, 0] or list(x.arr) != [1, -2, 0.5, 4]:
            problems.append('copy()/set_zero() on the defaults wrong')
        c.assign(x)
        c /= 2
        if list(c.arr) != [0.5, -1, 0.25, 2] or list(x.arr) != [1, -2, 0.5, 4]:
            problems.append('assign / scalar division on the defaults wrong')
        for bad in (lambda: x * x, lambda: x + 1, lambda: ms.one()):
            try:
                bad()
                problems.append('an operation without implementation did not raise')
            except odl.set.space.LinearSpaceNotImplementedError:
                pass
        if list(x.arr) != [1, -2, 0.5, 4]:
            problems.append('refused operation modified x')
    except Exception as e:  # noqa
        problems.append('err:' + type(e).__name__ + ':' + str(e)[:120])
    ctx.case(('reach-mini',))
    ctx.hit('reach/mini-defaults')
    viol('base-class defaults on a user-defined LinearSpace', problems, {'space': 'mini'})

    # --- S3: indexing. get: value / sub-element; set: scalar, array-like, element; product spaces:
    # integer, slice, list, tuple indices, broadcasting of one base element over a power space
    def fr(v):
        return (Fraction(v), Fraction(0))

    idx_spaces = [('rn6', odl.rn(6)), ('cn5', odl.cn(5)), ('int6', odl.tensor_space(6, dtype='int64')),
                  ('rn3x4', odl.rn((3, 4))), ('rn6_warr', odl.rn(6, weighting=[1, 2, 3, 4, 5, 6])),
                  ('discr6', odl.uniform_discr(0, 1, 6)), ('discr3x4', odl.uniform_discr([0, 0], [1, 1], (3, 4)))]
    for sname, space in idx_spaces:
        for rep in range(1 if ctx.quick else 3):
            x = rand_elem(space, rng)
            A = np.array(x.asarray(), copy=True)
            nd = A.ndim
            problems = []
            try:
                sl = slice(rng.randint(0, 1), rng.randint(2, A.shape[0]), rng.choice([1, 2]))
                i0 = rng.randrange(A.shape[0])
                gets = [i0 if nd == 1 else (i0, rng.randrange(A.shape[1])), sl, slice(None),
                        [0, A.shape[0] - 1]] + ([(slice(None), 1), (sl, slice(1, 3))] if nd == 2 else [])
                for ix in gets:
                    g = x[ix]
                    want = A[ix]
                    if np.isscalar(want):
                        if exact_list([g]) != exact_list([want]):
                            problems.append('x[{}] wrong value'.format(ix))
                    else:
                        if exact_list(np.asarray(g)) != exact_list(want) or np.asarray(g).shape != want.shape:
                            problems.append('x[{}] wrong values / shape'.format(ix))
                        # arithmetic on the sub-element is arithmetic on its own space
                        h = g + g
                        if exact_list(np.asarray(h)) != exact_list(want + want):
                            problems.append('x[{}] + x[{}] wrong'.format(ix, ix))
                        if exact_list(x.asarray()) != exact_list(A):
                            problems.append('x[{}] + x[{}] modified x'.format(ix, ix))
                # set
                is_int = np.issubdtype(A.dtype, np.integer)
                sc = rng.choice([0, 3, -2]) if is_int else rng.choice([0, 0.5, -2.25])
                for ix, val in [(i0 if nd == 1 else (i0, 0), sc), (sl, sc), (slice(None), sc),
                                (sl, 'arr'), (slice(None), 'elem'), (slice(None), 'self'),
                                ([0, A.shape[0] - 1], 'arr')]:
                    y = rand_elem(space, rng)
                    Y = np.array(y.asarray(), copy=True)
                    B = A.copy()
                    if val == 'arr':
                        v = Y[ix]
                        arg = v.tolist()
                    elif val == 'elem':
                        v, arg = Y, y
                    elif val == 'self':
                        v, arg = A.copy(), x
                    else:
                        v, arg = val, val
                    B[ix] = v
                    x[ix] = arg
                    if exact_list(x.asarray()) != exact_list(B):
                        problems.append('x[{}] = {} : entries wrong'.format(ix, val))
                    if exact_list(y.asarray()) != exact_list(Y):
                        problems.append('x[{}] = y modified y'.format(ix))
                    A = B
            except Exception as e:  # noqa
                problems.append('err:' + type(e).__name__ + ':' + str(e)[:120])
            ctx.case(('reach-index', sname))
            ctx.hit('reach/index/' + sname)
            viol('indexing get/set space={}'.format(sname), problems, {'space': sname})

    pidx = [('power3', odl.ProductSpace(odl.rn(3), 3)), ('mixed', odl.ProductSpace(odl.rn(2), odl.rn(3), odl.rn(2))),
            ('nested', odl.ProductSpace(odl.ProductSpace(odl.rn(2), 2), 3)),
            ('cpower', odl.ProductSpace(odl.cn(2), 3))]
    for sname, P in pidx:
        for rep in range(1 if ctx.quick else 3):
            x = rand_elem(P, rng)
            parts = [_ex(p) for p in x]
            problems = []
            try:
                if x[1] is not x.parts[1] or _ex(x[-1]) != parts[-1]:
                    problems.append('x[i] is not the i-th part')
                for ix in (slice(0, 2), slice(None, None, 2), [2, 0], (slice(0, 2),), ([0, 2],)):
                    g = x[ix]
                    sel = ix[0] if isinstance(ix, tuple) else ix
                    want = [parts[i] for i in sel] if isinstance(sel, list) else parts[sel]
                    if [_ex(p) for p in g] != want:
                        problems.append('x[{}] wrong parts'.format(ix))
                    # the sub-element shares the part objects: arithmetic out of place leaves x
                    h = g + g
                    if [_ex(p) for p in h] != [oracle_elem('add', q, q, None, None) for q in want]:
                        problems.append('x[{}] + x[{}] wrong'.format(ix, ix))
                    if [_ex(p) for p in x] != parts:
                        problems.append('x[{}] + x[{}] modified x'.format(ix, ix))
                try:
                    # (observation, not part of C01: on the unchanged tree this raises ValueError
                    # 'no spaces provided, cannot deduce field' instead of giving an empty element)
                    x[()]
                except ValueError:
                    pass
                if [_ex(p) for p in x] != parts:
                    problems.append('x[()] modified x')
                if sname != 'nested':
                    if exact_list([x[1, 0]]) != [parts[1][0]]:
                        problems.append('x[1, 0] wrong')
                    col = x[:, 1]
                    if [_ex(p) for p in col] != [[q[1]] for q in parts]:
                        problems.append('x[:, 1] wrong')
                    col2 = x[[0, 2], 0]
                    if [_ex(p) for p in col2] != [[parts[0][0]], [parts[2][0]]]:
                        problems.append('x[[0, 2], 0] wrong')
                else:
                    if _ex(x[1, 0]) != _ex(x.parts[1].parts[0]) or exact_list([x[2, 1, 0]]) != [parts[2][2]]:
                        problems.append('nested x[i, j] / x[i, j, k] wrong')
                    sub = x[0:2, 1]
                    if [_ex(p) for p in sub] != [q[2:4] for q in parts[0:2]]:
                        problems.append('nested x[0:2, 1] wrong')
                try:
                    x['a']
                    problems.append('bad index type accepted')
                except TypeError:
                    pass
                # --- set
                y = rand_elem(P, rng)
                yp = [_ex(p) for p in y]
                x[0] = y[0]
                parts[0] = yp[0]
                x[1:] = [y[1], tolist(y[2])]
                parts[1:] = yp[1:]
                if [_ex(p) for p in x] != parts or [_ex(p) for p in y] != yp:
                    problems.append('x[0] = part / x[1:] = [parts] wrong or modified the source')
                x[[2, 0]] = [y[0], y[2]]
                parts[2], parts[0] = yp[0], yp[2]
                if [_ex(p) for p in x] != parts:
                    problems.append('x[[2, 0]] = [...] wrong')
                x[1] = 0.5 if sname != 'cpower' else 2j
                parts[1] = [(Fraction(1, 2), Fraction(0)) if sname != 'cpower' else (Fraction(0), Fraction(2))] * len(parts[1])
                if [_ex(p) for p in x] != parts:
                    problems.append('x[1] = scalar wrong')
                if P.is_power_space and sname != 'nested':
                    b = rand_elem(P[0], rng)
                    x[:] = b
                    parts = [_ex(b)] * len(P)
                    if [_ex(p) for p in x] != parts:
                        problems.append('x[:] = base element (broadcast) wrong')
                    x[0:2] = x[2]
                    if [_ex(p) for p in x] != parts:
                        problems.append('x[0:2] = own part wrong')
                    x[1, 0] = -3
                    parts = [list(q) for q in parts]
                    parts[1][0] = fr(-3)
                    x[:, 1] = 7
                    for q in parts:
                        q[1] = fr(7)
                    if [_ex(p) for p in x] != parts:
                        problems.append('x[1, 0] = s / x[:, 1] = s wrong')
                x[()] = 5
                if [_ex(p) for p in x] != parts:
                    problems.append('x[()] = 5 wrote something')
                try:
                    x[0:2] = [y[0]]
                    problems.append('length mismatch accepted')
                except ValueError:
                    if [_ex(p) for p in x] != parts:
                        problems.append('refused assignment modified x')
                try:
                    x['a'] = 1
                    problems.append('bad index type accepted in assignment')
                except TypeError:
                    pass
            except Exception as e:  # noqa
                problems.append('err:' + type(e).__name__ + ':' + str(e)[:120])
            ctx.case(('reach-pindex', sname))
            ctx.hit('reach/pindex/' + sname)
            viol('product-space indexing get/set space={}'.format(sname), problems, {'space': sname})

    # --- S4: ProductSpaceElement real / imag / conj / asarray
    for sname, P in [('cpower', odl.ProductSpace(odl.cn(3), 2)), ('rpower', odl.ProductSpace(odl.rn(3), 2)),
                     ('cmixed', odl.ProductSpace(odl.cn(2), odl.cn(3))),
                     ('cnested', odl.ProductSpace(odl.ProductSpace(odl.cn(2), 2), 2))]:
        x = rand_elem(P, rng)
        X = _ex(x)
        cplx = sname != 'rpower'
        problems = []
        try:
            re, im, cj = x.real, x.imag, x.conj()
            if _ex(re) != [(p[0], Fraction(0)) for p in X]:
                problems.append('real wrong')
            if _ex(im) != [(p[1], Fraction(0)) for p in X]:
                problems.append('imag wrong')
            if _ex(cj) != [(p[0], -p[1]) for p in X]:
                problems.append('conj wrong')
            if _ex(x) != X:
                problems.append('real / imag / conj modified x')
            if cplx and any(_shares(u, v) for u in leaf_parts(cj) for v in leaf_parts(x)):
                problems.append('conj() shares memory with x')
            if P.is_power_space and sname != 'cnested':
                arr = x.asarray()
                if exact_list(arr) != X or arr.shape != (2, 3) or exact_list(np.asarray(x)) != X:
                    problems.append('asarray / __array__ wrong')
                o = np.empty((2, 3), dtype=arr.dtype)
                if x.asarray(out=o) is not o or exact_list(o) != X:
                    problems.append('asarray(out=) wrong')
            elif not P.is_power_space:
                try:
                    x.asarray()
                    problems.append('asarray on a non-power space did not raise')
                except ValueError:
                    pass
            # setters
            rs = P.real_space if cplx else P
            v = rand_elem(rs, rng)
            V = _ex(v)
            x.real = v
            cur = [(q[0], p[1] if cplx else Fraction(0)) for p, q in zip(X, V)]
            if _ex(x) != cur or _ex(v) != V:
                problems.append('x.real = element wrong')
            x.real = 2
            cur = [(Fraction(2), p[1]) for p in cur]
            if _ex(x) != cur:
                problems.append('x.real = scalar wrong')
            x.real = tolist(v)
            cur = [(q[0], p[1]) for p, q in zip(cur, V)]
            if _ex(x) != cur:
                problems.append('x.real = nested list wrong')
            if cplx:
                x.imag = v
                cur = [(p[0], q[0]) for p, q in zip(cur, V)]
                if _ex(x) != cur:
                    problems.append('x.imag = element wrong')
                x.imag = -1
                cur = [(p[0], Fraction(-1)) for p in cur]
                if _ex(x) != cur:
                    problems.append('x.imag = scalar wrong')
                x.imag = tolist(v)
                cur = [(p[0], q[0]) for p, q in zip(cur, V)]
                if _ex(x) != cur:
                    problems.append('x.imag = nested list wrong')
                if P.is_power_space and sname == 'cpower':
                    b = rand_elem(P.real_space[0], rng)
                    x.real = b
                    x.imag = tolist(b)
                    cur = [(q[0], q[0]) for q in _ex(b) * 2]
                    if _ex(x) != cur:
                        problems.append('x.real / x.imag = one base element (broadcast) wrong')
            else:
                try:
                    x.imag = v
                    problems.append('imag setter on a real product space did not raise')
                except ValueError:
                    if _ex(x) != cur:
                        problems.append('refused imag setter modified x')
            if not P.is_power_space:
                try:
                    x.real = [1, 2, 3]
                    problems.append('real setter with a wrong number of parts did not raise')
                except ValueError:
                    if _ex(x) != cur:
                        problems.append('refused real setter modified x')
        except Exception as e:  # noqa
            problems.append('err:' + type(e).__name__ + ':' + str(e)[:120])
        ctx.case(('reach-preal', sname))
        ctx.hit('reach/preal/' + sname)
        viol('ProductSpaceElement real/imag/conj/asarray space={}'.format(sname), problems, {'space': sname})

    # --- S5: NumpyTensorSpace.element options (order=, data_ptr=) as sources of lincomb operands
    for sname, space in [('rn3x4', odl.rn((3, 4))), ('cn2x3', odl.cn((2, 3))),
                         ('discr3x4', odl.uniform_discr([0, 0], [1, 1], (3, 4)))]:
        ts = space.tspace if hasattr(space, 'tspace') else space
        for order in ('C', 'F'):
            problems = []
            try:
                a, b = rng.choice([1, -1, 2, -0.5]), rng.choice([1, -1, 0.25])
                A1 = np.asarray(rand_elem(space, rng).asarray())
                base = rand_elem(space, rng)
                x1 = ts.element(A1, order=order)
                x2 = ts.element(data_ptr=(base.tensor if hasattr(base, 'tensor') else base).data_ptr,
                                order=space.default_order)
                out = ts.element(order=order)
                if not (x1.data.flags.f_contiguous if order == 'F' else x1.data.flags.c_contiguous):
                    problems.append('element(arr, order) ignored the order')
                X1, X2 = _ex(x1), _ex(x2)
                if X1 != exact_list(A1) or X2 != _ex(base):
                    problems.append('element(arr, order=) / element(data_ptr=) hold other values')
                ts.lincomb(a, x1, b, x2, out=out)
                if _ex(out) != oracle_elem('lincomb', X1, X2, fval(a), fval(b)):
                    problems.append('lincomb on elements made with order= / data_ptr= wrong')
                if _ex(x1) != X1 or _ex(x2) != X2 or _ex(base) != X2:
                    problems.append('lincomb modified an operand made with order= / data_ptr=')
                for bad in (lambda: ts.element(order='K'), lambda: ts.element(data_ptr=x1.data_ptr)):
                    try:
                        bad()
                        problems.append('bad element() options accepted')
                    except ValueError:
                        pass
            except Exception as e:  # noqa
                problems.append('err:' + type(e).__name__ + ':' + str(e)[:120])
            ctx.case(('reach-elemopts', sname, order))
            ctx.hit('reach/elemopts/{}/{}'.format(sname, order))
            viol('element(order=/data_ptr=) operands space={} order={}'.format(sname, order), problems,
                 {'space': sname, 'order': order})


# ---------------------------------------------------------------------------
# malformed calls of LinearSpace.lincomb: rejected before anything is written

def front_cases(ctx):
    import odl
    rng = ctx.rng
    spaces = [('rn4', odl.rn(4), odl.rn(5)), ('cn3', odl.cn(3), odl.rn(3)),
              ('discr', odl.uniform_discr(0, 1, 4), odl.uniform_discr(0, 2, 4)),
              ('pspace', odl.ProductSpace(odl.rn(2), odl.rn(3)), odl.ProductSpace(odl.rn(2), 2)),
              ('int5', odl.tensor_space(5, dtype='int64'), odl.rn(5))]
    for sname, sp, other in spaces:
        for bits in itertools.product([0, 1], repeat=8):
            out_given, out_in, a_in, x1_in, b_given, x2_given, b_in, x2_in = bits
            if not out_given and not out_in:
                continue   # out_in is irrelevant without out: keep one representative
            if not b_given and not b_in:
                continue
            if not x2_given and not x2_in:
                continue
            if sname != 'rn4' and rng.random() < (0.7 if ctx.quick else 0.0):
                continue
            yield dict(kind='front', space=sname, sp=sp, other=other, bits=bits)


def run_front_case(c):
    sp, other = c['sp'], c['other']
    out_given, out_in, a_in, x1_in, b_given, x2_given, b_in, x2_in = c['bits']
    has_field = sp.field is not None
    good_scalar = 2
    bad_scalar = 'not-a-number'   # in no field
    x1 = (sp if x1_in else other).one()
    x2 = (sp if x2_in else other).one() if x2_given else None
    out = (sp if out_in else other).zero() if out_given else None
    a = good_scalar if a_in else bad_scalar
    b = (good_scalar if b_in else bad_scalar) if b_given else None
    snap = [flat(e).copy() for e in (x1, x2, out) if e is not None]
    try:
        res = sp.lincomb(a, x1, b, x2, out=out)
        status = 'call:one' if not b_given else 'call:two'
        if res not in sp:
            status = 'bad-result'
    except Exception as e:  # noqa
        status = 'err:' + type(e).__name__
    after = [flat(e) for e in (x1, x2, out) if e is not None]
    untouched = all(np.array_equal(p, q) for p, q in zip(snap, after))
    # an omitted x2 (None) is not an element of the space
    f = ''.join(str(int(v)) for v in (has_field, out_given, out_in, a_in, x1_in, b_given,
                                     x2_given, b_in, x2_in and x2_given))
    return 'front f=' + f, status, untouched


FRONT_KIND = {'err:out': 'err:LinearSpaceTypeError', 'err:a': 'err:LinearSpaceTypeError',
              'err:x1': 'err:LinearSpaceTypeError', 'err:b': 'err:LinearSpaceTypeError',
              'err:x2': 'err:LinearSpaceTypeError', 'err:x2nob': 'err:ValueError',
              'call:one': 'call:one', 'call:two': 'call:two'}


def run_front(ctx):
    batch, lines = [], []
    for c in front_cases(ctx):
        line, status, untouched = run_front_case(c)
        batch.append((c, status, untouched))
        lines.append(line)
    outs = core.run_driver('C01', lines)
    for (c, status, untouched), ans, line in zip(batch, outs, lines):
        desc = {'kind': 'front', 'space': c['space'], 'bits': list(c['bits']), 'line': line}
        ctx.case(('front', c['space'], line), sample=desc if len(ctx.samples) < 12 else None)
        ctx.hit('front/' + ans)
        well_formed = ans.startswith('call:')
        # oracle (independent of the model): malformed -> a type/value error and nothing written
        out_given, out_in, a_in, x1_in, b_given, x2_given, b_in, x2_in = c['bits']
        has_field = c['sp'].field is not None
        ok_args = (not out_given or out_in) and (not has_field or a_in) and x1_in and \
            ((not b_given and not x2_given) or
             (b_given and (not has_field or b_in) and x2_given and x2_in))
        if ok_args and not status.startswith('call:'):
            ctx.violation('front well-formed call rejected space={}'.format(c['space']),
                          '{} -> {}'.format(line, status), desc)
        if not ok_args:
            if not status.startswith('err:'):
                ctx.violation('front malformed call accepted space={}'.format(c['space']),
                              '{} -> {}'.format(line, status), desc)
            elif not untouched:
                ctx.violation('front malformed call wrote to an argument space={}'.format(
                    c['space']), '{} -> {}'.format(line, status), desc)
        if FRONT_KIND.get(ans) != status:
            ctx.disagree(desc, status, ans)



def run_front_muldiv(ctx):
    """Argument checks of the functional forms space.multiply / space.divide / x.multiply(y) /
    x.divide(y): every argument that is not an element of the space (a foreign space that
    NumPy could broadcast or cast: one entry, another precision, a shorter product) must be
    rejected with LinearSpaceTypeError and nothing may be written; well-formed calls must work
    and return `out` when it is given. Oracle only (the model starts after these checks)."""
    import odl
    spaces = [('rn4', odl.rn(4), [odl.rn(1), odl.rn(4, dtype='float32'), odl.rn(5), odl.cn(4)]),
              ('cn3', odl.cn(3), [odl.cn(1), odl.rn(3), odl.cn(3, dtype='complex64')]),
              ('discr', odl.uniform_discr(0, 1, 4),
               [odl.uniform_discr(0, 2, 4), odl.rn(4), odl.uniform_discr(0, 1, 4, dtype='float32')]),
              ('pspace', odl.ProductSpace(odl.rn(2), odl.rn(3)),
               [odl.ProductSpace(odl.rn(2), 1), odl.ProductSpace(odl.rn(2), odl.rn(3), odl.rn(1)),
                odl.ProductSpace(odl.rn(2), odl.rn(3, dtype='float32'))]),
              ('power', odl.ProductSpace(odl.rn(3), 2), [odl.rn(3), odl.ProductSpace(odl.rn(3), 3)])]
    for sname, sp, others in spaces:
        for fname in ('multiply', 'divide'):
            for pos in ('none', 'x1', 'x2', 'out'):
                for other in (others if pos != 'none' else [None]):
                    for form in ('space', 'space-noout', 'elem'):
                        if form == 'space-noout' and pos == 'out':
                            continue
                        if form == 'elem' and pos in ('x1', 'out'):
                            continue
                        x1 = (other if pos == 'x1' else sp).one()
                        x2 = (other if pos == 'x2' else sp).one()
                        out = (other if pos == 'out' else sp).zero()
                        x2 *= 2
                        snap = [np.array(flat(e), copy=True) for e in (x1, x2, out)]
                        try:
                            if form == 'space':
                                res = getattr(sp, fname)(x1, x2, out)
                                status = 'ok' if res is out else 'ok-but-not-out'
                            elif form == 'space-noout':
                                res = getattr(sp, fname)(x1, x2)
                                status = 'ok' if (res in sp and res is not x1 and res is not x2) \
                                    else 'bad-result'
                            else:
                                res = getattr(x1, fname)(x2)
                                status = 'ok' if res in sp else 'bad-result'
                        except odl.set.space.LinearSpaceTypeError:
                            status = 'err:LinearSpaceTypeError'
                        except Exception as e:  # noqa
                            status = 'err:' + type(e).__name__
                        untouched = all(np.array_equal(p, np.array(flat(e)))
                                        for p, e in zip(snap, (x1, x2, out)))
                        desc = {'kind': 'front-muldiv', 'space': sname, 'fn': fname, 'form': form,
                                'foreign': pos, 'other': repr(other)}
                        ctx.case(('front-muldiv', sname, fname, form, pos, repr(other)))
                        ctx.hit('front-muldiv/{}/{}'.format(form, pos))
                        if pos == 'none':
                            if status != 'ok':
                                ctx.violation('front-muldiv well-formed call failed space={} fn={} form={}'
                                              .format(sname, fname, form), status, desc)
                        elif status != 'err:LinearSpaceTypeError':
                            ctx.violation('front-muldiv foreign {} accepted space={} fn={} form={}'
                                          .format(pos, sname, fname, form),
                                          '{} from {} -> {} (must raise LinearSpaceTypeError)'.format(
                                              pos, repr(other), status), desc)
                        elif not untouched and form != 'space-noout':
                            ctx.violation('front-muldiv rejected call wrote to an argument space={} fn={}'
                                          .format(sname, fname), status, desc)


def run_nonfinite(ctx):
    """Element-wise * and / on IEEE special values (0, -0, inf, -inf, nan in the operands):
    outside the exact model, but "equal the entry-wise result computed independently" still
    has a definite meaning - NumPy's entry-wise result on plain copies of the arrays. In
    particular x / x (the SAME object as dividend and divisor) is nan, not 1, where x is 0 or
    non-finite. Oracle only."""
    import odl
    rng = ctx.rng
    spaces = [('rn', odl.rn(7)), ('rn-f32', odl.rn(6, dtype='float32')), ('cn', odl.cn(5)),
              ('rn2d', odl.rn((3, 4))), ('discr', odl.uniform_discr(0, 1, 8)),
              ('power', odl.ProductSpace(odl.rn(4), 2)), ('rn120', odl.rn(120))]
    specials = [0.0, -0.0, np.inf, -np.inf, np.nan, 1.0, -2.5]

    def mk(space):
        def leaf(sp):
            a = np.array([rng.choice(specials) for _ in range(sp.size)], dtype=float)
            a = a.reshape(sp.shape)
            if np.issubdtype(sp.dtype, np.complexfloating):
                b = np.array([rng.choice(specials) for _ in range(sp.size)], dtype=float)
                with np.errstate(all='ignore'):
                    a = a + 1j * b.reshape(sp.shape)
            return sp.element(a.astype(sp.dtype))
        if isinstance(space, odl.ProductSpace):
            return space.element([leaf(p) for p in space])
        return leaf(space)

    def arr(e):
        return np.array(flat(e), copy=True)

    # (+ and - are NOT included: they are a*x1 + b*x2 evaluated by the size-dependent dispatch,
    # whose IEEE result on inf/nan legitimately depends on the formula used - e.g. x - x is an
    # exact zero assignment in the aliased leaf, (1+0j)*(-inf-2.5j) has a nan imaginary part)
    ops = [('div', lambda x, y: x / y, np.divide), ('mul', lambda x, y: x * y, np.multiply),
           ('sp_divide', lambda x, y: x.space.divide(x, y), np.divide),
           ('sp_multiply', lambda x, y: x.space.multiply(x, y), np.multiply)]

    def idiv(x, y):
        x /= y
        return x

    def imul(x, y):
        x *= y
        return x
    ops += [('idiv', idiv, np.divide), ('imul', imul, np.multiply)]
    for sname, space in spaces:
        for name, act, ref in ops:
            for same in (False, True):
                x = mk(space)
                y = x if same else mk(space)
                X, Y = arr(x), arr(y)
                with np.errstate(all='ignore'):
                    exp = ref(X, Y)
                    try:
                        res = act(x, y)
                        got = arr(res)
                        status = 'ok'
                    except Exception as e:  # noqa
                        status = 'err:' + type(e).__name__ + ':' + str(e)[:100]
                        got = None
                ctx.case(('nonfinite', sname, name, same))
                ctx.hit('nonfinite/{}/{}'.format(name, 'same-object' if same else 'distinct'))
                if status != 'ok' or not np.array_equal(got, exp, equal_nan=True):
                    bad = None if got is None else [i for i in range(len(exp))
                                                    if not np.array_equal(got[i:i + 1], exp[i:i + 1],
                                                                          equal_nan=True)]
                    ctx.violation(
                        'nonfinite op={} space={} operands={}'.format(
                            name, sname, 'same-object' if same else 'distinct'),
                        status if got is None else
                        'entry {}: x={} y={} gives {} but the entry-wise NumPy result is {}'.format(
                            bad[0], X[bad[0]], Y[bad[0]], got[bad[0]], exp[bad[0]]),
                        {'kind': 'nonfinite', 'space': sname, 'op': name, 'same': same,
                         'x': [str(v) for v in X[:12]], 'y': [str(v) for v in Y[:12]]})

    # scalar multiples, negation, copy and assign of vectors with inf entries, in every size
    # regime: the entry-wise result a * x keeps +-inf (the literal a*x1 + 0*x2 would give nan);
    # NaN entries are not used here (0 * nan is nan either way)
    small, medium = thresholds()

    def assign_to(x, c):
        y = x.space.zero()
        y.assign(x)
        return y
    sops = [('muls', lambda x, c: x * c, lambda X, c: c * X), ('rmuls', lambda x, c: c * x, lambda X, c: c * X),
            ('divs', lambda x, c: x / c, lambda X, c: X / c), ('neg', lambda x, c: -x, lambda X, c: -X),
            ('assign', assign_to, lambda X, c: X.copy()), ('copy', lambda x, c: x.copy(), lambda X, c: X.copy()),
            ('lincomb1', lambda x, c: x.space.lincomb(c, x), lambda X, c: c * X),
            ('lincomb-b0', lambda x, c: x.space.lincomb(c, x, 0, x.space.one()), lambda X, c: c * X),
            ('lincomb-a0', lambda x, c: x.space.lincomb(0, x.space.one(), c, x), lambda X, c: c * X)]
    sizes = [3, max(1, small - 1), small, small + 5] + ([] if ctx.quick else [medium])
    for n in sizes:
        # (real spaces only: on complex spaces the scalar is converted to a complex number and
        # IEEE complex multiplication of (inf+0j) legitimately produces a nan imaginary part)
        for sname, space in (('rn', odl.rn(n)), ('rn-f32', odl.rn(n, dtype='float32')),
                             ('discr', odl.uniform_discr(0, 1, n))):
            for name, act, ref in sops:
                a = np.array([rng.choice([np.inf, -np.inf, 1.0, -2.5, 0.0]) for _ in range(n)])
                a[0], a[-1] = np.inf, -np.inf
                x = space.element(a.astype(space.dtype))
                c = rng.choice([2.0, -0.5, 1.0, 4])   # powers of two: (1/c) * x == x / c exactly
                X = arr(x)
                with np.errstate(all='ignore'):
                    exp = ref(X, c)
                    try:
                        got = arr(act(x, c))
                        status = 'ok'
                    except Exception as e:  # noqa
                        status, got = 'err:' + type(e).__name__ + ':' + str(e)[:100], None
                reg = regime_of(n, small, medium)
                ctx.case(('nonfinite-scalar', sname, name, reg))
                ctx.hit('nonfinite/{}/{}'.format(name, reg))
                if status != 'ok' or not np.array_equal(got, exp, equal_nan=True):
                    bad = None if got is None else [i for i in range(len(exp))
                                                    if not np.array_equal(got[i:i + 1], exp[i:i + 1],
                                                                          equal_nan=True)]
                    ctx.violation(
                        'nonfinite op={} space={} regime={}'.format(name, sname, reg),
                        status if got is None else
                        'size {}: entry {}: x={} c={} gives {} but the entry-wise result is {}'.format(
                            n, bad[0], X[bad[0]], c, got[bad[0]], exp[bad[0]]),
                        {'kind': 'nonfinite-scalar', 'space': sname, 'op': name, 'n': n, 'c': c,
                         'x': [str(v) for v in X[:8]]})


def run_special(ctx):
    """Scalar zero divisors (must raise ZeroDivisionError, operand untouched) and integer
    spaces with non-integer field scalars (result not representable: must not be silently
    wrong)."""
    import odl
    lines, batch = [], []
    for sname, sp in [('rn3', odl.rn(3)), ('rn120', odl.rn(120)),
                      ('pspace', odl.ProductSpace(odl.rn(2), odl.rn(3)))]:
        for name in ('divS', 'idivS'):
            x = rand_elem(sp, ctx.rng)
            X = exact_list(flat(x))
            try:
                if name == 'divS':
                    x / 0
                else:
                    x /= 0
                status = 'ok'
            except ZeroDivisionError:
                status = 'raises'
            except Exception as e:  # noqa
                status = 'err:' + type(e).__name__
            desc = {'kind': 'special', 'what': name + ' by scalar 0', 'space': sname}
            ctx.case(('special', name, sname), sample=None)
            ctx.hit('special/' + name + '0')
            if status != 'raises' or exact_list(flat(x)) != X:
                ctx.violation('elem op={} by scalar zero space={}'.format(name, sname),
                              'expected ZeroDivisionError with the operand untouched, got {}'
                              .format(status), desc)
            lines.append('elemop op={} alias=0 c=0 n={} x={} y=-'.format(name, len(X), lv(X)))
            batch.append((desc, status))
    outs = core.run_driver('C01', lines)
    for (desc, status), ans in zip(batch, outs):
        if ans != status:
            ctx.disagree(desc, status, ans)
    # integer dtype x non-integer scalar of the (real) field
    for n in (7, 128):
        sp = odl.tensor_space(n, dtype='int64')
        x = sp.element(np.arange(1, n + 1))
        y = sp.element(np.arange(n, 0, -1) * 2 + 1)
        for what, call in [('lincomb(0.5,x,0.5,y)', lambda: sp.lincomb(0.5, x, 0.5, y)),
                           ('x * 0.5', lambda: x * 0.5), ('x + 0.5', lambda: x + 0.5)]:
            exact = {'lincomb(0.5,x,0.5,y)': [Fraction(a + b, 2) for a, b in
                                             zip(range(1, n + 1),
                                                 [2 * k + 1 for k in range(n, 0, -1)])],
                     'x * 0.5': [Fraction(a, 2) for a in range(1, n + 1)],
                     'x + 0.5': [Fraction(2 * a + 1, 2) for a in range(1, n + 1)]}[what]
            try:
                res = call()
                got = [Fraction(int(v)) for v in flat(res).tolist()]
                status = 'ok' if got == exact else 'silently-wrong'
            except Exception as e:  # noqa
                status = 'raises:' + type(e).__name__
            ctx.case(('special', 'int-nonint', n, what))
            ctx.hit('special/int-nonint/' + status.split(':')[0])
            if status == 'silently-wrong':
                ctx.violation('int-dtype non-integer-scalar {} size={} silently truncated'
                              .format(what, 'lt100' if n < 100 else 'ge100'),
                              'result {} … is not the entry-wise value {} … (not representable '
                              'in the dtype) and no error was raised'.format(
                                  got[:3], [str(v) for v in exact[:3]]),
                              {'kind': 'special', 'what': what, 'n': n})


def regenerate(ctx):
    out = []
    for name, mod in [('extract(_lincomb_impl, _blas_is_applicable -> Gen/LincombTree.lean)',
                       extract_lincomb),
                      ('extract(LinearSpace.lincomb checks -> Gen/LincombFront.lean)',
                       extract_front),
                      ('extract(_broadcast_arithmetic copy guard -> Gen/Broadcast.lean)',
                       extract_broadcast),
                      ('extract(LinearSpaceElement operator fronts -> Gen/OpFront.lean)',
                       extract_opfront)]:
        try:
            changed = mod.regenerate()
            note = '; '.join(getattr(mod, 'BLAS_NOTE', []))
            if note:
                ctx.extra['lincomb_translator'] = note
            out.append((name, True, ('regenerated' if changed else 'unchanged') +
                        (' [' + note + ']' if note else '')))
        except Exception as e:  # noqa: grammar no longer matches the source
            out.append((name, False, '{}: {}'.format(type(e).__name__, e)))
    return out


def thresholds():
    import odl.space.npy_tensors as nt
    return int(nt.THRESHOLD_SMALL), int(nt.THRESHOLD_MEDIUM)


def run(ctx, deep=False):
    small, medium = thresholds()
    ctx.extra['thresholds'] = [small, medium]
    # --- lincomb core
    batch, lines = [], []
    for c in itertools.chain(leaf_plans(ctx, small, medium), lincomb_cases(ctx, small, medium)):
        line, status, post, problems, nontrivial = run_lincomb_case(c, small, medium)
        batch.append((c, line, status, post, problems, nontrivial))
        lines.append(line)
    outs = core.run_driver('C01', lines)
    compare_lincomb(ctx, batch, outs, small, medium)
    # --- element arithmetic
    ebatch, elines = [], []
    for c in elem_cases(ctx):
        line, status, R, problems, nontrivial = run_elem_case(c)
        ebatch.append((c, status, R, problems, nontrivial))
        elines.append(line)
    eouts = core.run_driver('C01', elines)
    for (c, status, R, problems, nontrivial), ans in zip(ebatch, eouts):
        desc = {'kind': 'elem', 'space': c['space'], 'op': c['op'], 'c': str(c['c']),
                'd': str(c['d']), 'x': [str(v) for v in flat(c['x'])[:8].tolist()],
                'y': [str(v) for v in flat(c['y'])[:8].tolist()]}
        sig = ('elem', c['space'], c['op'])
        ctx.case(sig if nontrivial else None,
                 sample=desc if len(ctx.samples) < 10 and c['space'] in ('rn3', 'pspace') else None)
        ctx.hit('elem/' + c['op'])
        if problems:
            ctx.violation('elem op={} space={}'.format(c['op'], c['space']),
                          '; '.join(problems)[:500], desc)
        if status != 'ok' or R is None:
            if ans.startswith('ok'):
                ctx.disagree(desc, status, ans[:200])
            continue
        if not (ans.startswith('ok r=') or ans.startswith('ok x=')):
            ctx.disagree(desc, 'ok', ans)
            continue
        mv = parse_cl(ans[len('ok r='):])
        if mv != R:
            ctx.disagree(desc, R[:6], mv[:6])
    # --- statement-level model of the operators (Model/ElemOps.lean) vs the real code
    sbatch, slines = [], []
    for c in itertools.chain(elem_cases(ctx), bcasto_extra_cases(ctx)):
        X = exact_list(flat(c['x']))
        Y = exact_list(flat(c['y']))
        bo = None
        if c['op'] in BCAST_OP:
            # in-place power-space broadcasting: the loop over the parts with the extracted
            # copy guard (Model/ElemOps.lean::bcastInPlace, Gen/Broadcast.lean)
            own = next((k for k, part in enumerate(c['x']) if part is c['y']), -1)
            parts_pre = [exact_list(flat(part)) for part in c['x']]
            line = 'bcast op={} own={} n={} parts={}{}'.format(
                BCAST_OP[c['op']], own, len(parts_pre[0]), '|'.join(lv(q) for q in parts_pre),
                '' if own >= 0 else ' other=' + lv(Y))
        elif c['op'] in BCASTO_OP:
            # OUT-OF-PLACE power-space broadcasting (Model/ElemOps.lean::bcastOut): parts by
            # object identity, so shared part objects are the same model buffer
            distinct, ids = distinct_parts(c['x'])
            own = next((k for k, q in enumerate(distinct) if q is c['y']), -1)
            dpre = [exact_list(flat(q)) for q in distinct]
            bo = dict(distinct=distinct, ids=ids, own=own, dpre=dpre,
                      shared=len(distinct) < len(ids))
            line = 'bcasto op={} own={} n={} ids={} parts={}{}'.format(
                BCASTO_OP[c['op']], own, len(dpre[0]), ','.join(str(k) for k in ids),
                '|'.join(lv(q) for q in dpre), '' if own >= 0 else ' other=' + lv(Y))
        elif is_product(c['sp']) and c['op'] in MODEL_OP:
            line = pstmt_line(c, fval(c['c']))
        else:
            line = stmt_line(c, X, Y, fval(c['c']))
        if line is None:
            continue
        in_place = c['op'].startswith('i') or c['op'] in ('assign', 'set_zero')
        RP = None
        try:
            res = c['action'](c['x'], c['y'], c['c'])
            R = exact_list(flat(res))
            XP = exact_list(flat(c['x']))
            YP = exact_list(flat(c['y']))
            if c['op'] in BCAST_OP:
                XP = [exact_list(flat(part)) for part in c['x']]
            if line.startswith('pelemop'):
                RP = dict(res=[exact_list(q.asarray()) for q in leaf_parts(res)],
                          x=[exact_list(q.asarray()) for q in leaf_parts(c['x'])],
                          y=[exact_list(q.asarray()) for q in leaf_parts(c['y'])],
                          inplace=res is c['x'])
            if bo is not None:
                XP = [exact_list(flat(q)) for q in bo['distinct']]
                RP = [exact_list(flat(part)) for part in res]
                bo['res'] = res
            status = 'ok'
        except Exception as e:  # noqa
            status = 'err:' + type(e).__name__ + ':' + str(e)[:120]
            R = XP = YP = None
        if bo is not None:
            # oracle of the new stream, independent of the model: every result part is the
            # entry-wise formula of (part, other) from the PRE-state, no operand changed, the
            # result is a new element that shares no part object / memory with an operand
            problems = []
            key = 'bcast-out op={} space={} other={} parts={}'.format(
                c['op'], c['space'], 'own-part' if bo['own'] >= 0 else 'external',
                'shared' if bo['shared'] else 'distinct')
            if status != 'ok':
                problems.append(status)
            else:
                for k, pid_ in enumerate(bo['ids']):
                    if RP[k] != oracle_elem(c['spec'], bo['dpre'][pid_], Y, (0, 0), (0, 0)):
                        problems.append('part {} of the result is not {}(part, other) entry-wise: '
                                        'got {}'.format(k, c['spec'], RP[k][:4]))
                if XP != bo['dpre']:
                    problems.append('a part of the left operand was modified')
                if YP != Y:
                    problems.append('the broadcast operand was modified')
                try:
                    if any(rp is q for rp in bo['res'] for q in bo['distinct'] + [c['y']]) or \
                            any(np.shares_memory(np.asarray(rp), np.asarray(q))
                                for rp in bo['res'] for q in bo['distinct'] + [c['y']]):
                        problems.append('a result part is / shares memory with an operand part')
                except Exception as e:  # noqa
                    problems.append('result parts not inspectable: ' + type(e).__name__)
            if problems:
                ctx.violation(key, '; '.join(problems)[:500],
                              {'kind': 'bcasto', 'space': c['space'], 'op': c['op'],
                               'line': line[:400]})
        sbatch.append((c, status, R, XP, YP, RP, bo))
        slines.append(line)
    souts = core.run_driver('C01', slines)
    for (c, status, R, XP, YP, RP, bo), ans, line in zip(sbatch, souts, slines):
        desc = {'kind': 'elem-stmt', 'space': c['space'], 'op': c['op'], 'line': line[:300]}
        ctx.case(('stmt', c['space'], c['op']) + ((bo['own'] >= 0, bo['shared']) if bo else ())
                 if R and any(v != (0, 0) for v in R) else None)
        if line.startswith('bcasto'):
            ctx.hit('stmt/bcasto/{}/{}/{}'.format(BCASTO_OP[c['op']],
                                                  'own-part' if bo['own'] >= 0 else 'external',
                                                  'shared' if bo['shared'] else 'distinct'))
        elif line.startswith('bcast'):
            ctx.hit('stmt/bcast/{}/{}'.format(line.split()[1], 'own-part' if 'own=-1' not in line
                                              else 'external'))
        elif line.startswith('pelemop'):
            ctx.hit('stmt/pelemop/' + MODEL_OP[c['op']])
        elif line.startswith('elemopl'):
            ctx.hit('stmt/coerced/{}/{}'.format(MODEL_OP[c['op']],
                                                'array' if c['op'].endswith('_a') else 'list'))
        else:
            ctx.hit('stmt/' + line.split()[1] if line.startswith('elemop') else 'stmt/ipow')
        if status != 'ok' or not ans.startswith('ok'):
            if status == 'ok' or ans.startswith('ok'):
                ctx.disagree(desc, status, ans[:200])
            continue
        f = dict(t.split('=', 1) for t in ans.split()[1:])
        if line.startswith('pelemop'):
            got = dict(res=[parse_cl(t) for t in f['res'].split('|')],
                       x=[parse_cl(t) for t in f['x'].split('|')],
                       y=[parse_cl(t) for t in f['y'].split('|')], inplace=f['inplace'] == '1')
            if got != RP:
                ctx.disagree(desc, {k: (v if k == 'inplace' else [q[:4] for q in v])
                                    for k, v in RP.items()}, ans[:300])
            continue
        if line.startswith('bcasto'):
            if [parse_cl(t) for t in f['res'].split('|')] != RP or \
                    [parse_cl(t) for t in f['parts'].split('|')] != XP or \
                    parse_cl(f['other']) != YP:
                ctx.disagree(desc, {'res': [q[:4] for q in RP], 'parts': [q[:4] for q in XP],
                                    'other': YP[:4]}, ans[:300])
            continue
        if line.startswith('bcast'):
            if [parse_cl(t) for t in f['parts'].split('|')] != XP or parse_cl(f['other']) != YP:
                ctx.disagree(desc, {'parts': [q[:4] for q in XP], 'other': YP[:4]}, ans[:300])
            continue
        if line.startswith('ipow'):
            if parse_cl(f['x']) != R:
                ctx.disagree(desc, R[:6], f['x'][:200])
            continue
        if line.startswith('elemopl'):
            # the coerced buffer holds the operand's values (YP: the operand afterwards)
            if parse_cl(f['res']) != R or parse_cl(f['x']) != XP or parse_cl(f['l']) != YP or \
                    (f['r'] == '0') != (c['op'].startswith('i')):
                ctx.disagree(desc, {'res': R[:6], 'x': XP[:6], 'l': YP[:6]}, ans[:300])
            continue
        if parse_cl(f['res']) != R or parse_cl(f['x']) != XP or \
                (c['y'] is not c['x'] and parse_cl(f['y']) != YP):
            ctx.disagree(desc, {'res': R[:6], 'x': XP[:6], 'y': YP[:6]}, ans[:300])
    run_pmuldiv(ctx)
    run_overrides(ctx)
    run_reach(ctx)
    run_opfront(ctx)
    # --- malformed calls
    run_front(ctx)
    run_front_muldiv(ctx)
    run_special(ctx)
    run_nonfinite(ctx)
    # --- product-space lincomb, all alias patterns
    pbatch, plines = [], []
    for c in plincomb_cases(ctx):
        line, status, postl, problems = run_plincomb_case(c)
        pbatch.append((c, status, postl, problems))
        plines.append(line)
    pouts = core.run_driver('C01', plines)
    for (c, status, postl, problems), ans, line in zip(pbatch, pouts, plines):
        desc = {'kind': 'plincomb', 'space': c['space'], 'alias': c['alias'], 'a': str(c['a']),
                'b': str(c['b']), 'line': line[:300]}
        ctx.case(('plincomb', c['space'], c['alias'], str(c['a']), str(c['b'])))
        ctx.hit('plincomb/' + c['alias'])
        if problems:
            ctx.violation('plincomb space={} alias={} a={} b={}'.format(
                c['space'], c['alias'], c['a'], c['b']), '; '.join(problems)[:400], desc)
        if status != 'ok' or not ans.startswith('ok bufs='):
            if status == 'ok' or ans.startswith('ok'):
                ctx.disagree(desc, status, ans[:200])
            continue
        mv = [parse_cl(t) for t in ans[len('ok bufs='):].split('|')]
        if mv != postl:
            ctx.disagree(desc, [p[:4] for p in postl], [p[:4] for p in mv])


def search(ctx, broken):
    """Obligation or correspondence broke without an oracle failure: run the thorough
    enumeration of the oracle against the real code."""
    saved = ctx.tier
    ctx.tier = 'thorough'
    try:
        small, medium = thresholds()
        for c in lincomb_cases(ctx, small, medium):
            line, status, post, problems, nontrivial = run_lincomb_case(c, small, medium)
            ctx.evaluations += 1
            if problems:
                desc = {k: (str(v) if k in ('a', 'b', 'shape') else v) for k, v in c.items()
                        if k != 'space' and not k.startswith('_')}
                ctx.violation('lincomb regime={} dtype={} layout={} alias={} a={} b={}'.format(
                    regime_of(c['size'], small, medium), c['dtype'], c['layout'], c['alias'],
                    c['ca'], c['cb']), '; '.join(problems)[:500], desc)
        for c in itertools.chain(elem_cases(ctx), bcasto_extra_cases(ctx)):
            line, status, R, problems, nontrivial = run_elem_case(c)
            ctx.evaluations += 1
            if problems:
                ctx.violation('elem op={} space={}'.format(c['op'], c['space']),
                              '; '.join(problems)[:500], {'kind': 'elem', 'space': c['space'],
                                                          'op': c['op']})
        for c in pmuldiv_cases(ctx):
            line, status, postl, problems = run_pmuldiv_case(c)
            ctx.evaluations += 1
            if problems:
                ctx.violation('space.{} out= space={} alias={}'.format(
                    'multiply' if c['f'] == 'mul' else 'divide', c['space'], c['alias']),
                    '; '.join(problems)[:400], {'kind': 'pmuldiv', 'space': c['space'],
                                                'f': c['f'], 'alias': c['alias']})
    finally:
        ctx.tier = saved


def replay(ctx, case):
    """Re-run one recorded failing case on the real code; returns a description if it still
    fails, None otherwise."""
    import odl
    small, medium = thresholds()
    if case.get('kind') == 'lincomb':
        c = dict(case)
        c['shape'] = tuple(int(t) for t in str(case['shape']).strip('()').split(',') if t.strip())
        c['space'] = odl.tensor_space(c['shape'], dtype=c['dtype'])
        c['a'] = complex(case['a']) if 'j' in str(case['a']) else float(case['a'])
        c['b'] = complex(case['b']) if 'j' in str(case['b']) else float(case['b'])
        if np.issubdtype(np.dtype(c['dtype']), np.integer):
            c['a'], c['b'] = int(c['a']), int(c['b'])
        _, status, _, problems, _ = run_lincomb_case(c, small, medium)
        return '; '.join(problems) if problems else None
    if case.get('kind') in ('reach', 'opfront'):
        # the strata are cheap and deterministic in structure: re-run the stratum on the real
        # code and report what it finds for the same space
        class _Sub(object):
            pass
        sub = _Sub()
        sub.rng, sub.quick, sub.found = ctx.rng, True, []
        sub.case = lambda *a, **k: None
        sub.hit = lambda *a, **k: None
        sub.disagree = lambda *a, **k: None
        sub.violation = lambda key, what, desc: sub.found.append((key, what, desc))
        (run_reach if case['kind'] == 'reach' else run_opfront)(sub)
        hits = [w for k, w, d in sub.found if d.get('space') == case.get('space') and
                d.get('op') == case.get('op')]
        return hits[0] if hits else None
    if case.get('kind') == 'pmuldiv':
        for c in pmuldiv_cases(ctx):
            if (c['space'], c['f'], c['alias']) == (case['space'], case['f'], case['alias']):
                _, status, _, problems = run_pmuldiv_case(c)
                if problems:
                    return '; '.join(problems)
        return None
    if case.get('kind') == 'bcasto':
        for c in itertools.chain(elem_cases(ctx), bcasto_extra_cases(ctx)):
            if c['space'] == case['space'] and c['op'] == case['op']:
                _, status, R, problems, _ = run_elem_case(c)
                if problems:
                    return '; '.join(problems)
        return None
    if case.get('kind') == 'elem':
        for c in elem_cases(ctx):
            if c['space'] == case['space'] and c['op'] == case['op']:
                _, status, R, problems, _ = run_elem_case(c)
                if problems:
                    return '; '.join(problems)
        return None
    return None
