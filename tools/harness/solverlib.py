"""Shared problem zoo for the solver properties C11 / C12.

Everything here builds REAL ODL objects (spaces, operators, functionals) together with the
wire description of the same data for the Lean driver: matrices of `L` and `L.adjoint`
(extracted exactly by applying the real operator to unit vectors), and `PSpec` strings for
the closed-form proximal / gradient maps of the functionals in the modelled zoo.
Functionals without a rational closed form (KL, group-L1, L2 norm, Huber) are only used on
the implementation-vs-implementation oracle streams.
"""
from fractions import Fraction

import numpy as np

from vf import core
from vf.core import fs, fl, fmat


# --------------------------------------------------------------------------
# flat views

def flat(x):
    import odl
    if isinstance(x.space, odl.ProductSpace):
        parts = [flat(p) for p in x]
        return np.concatenate(parts) if parts else np.zeros(0)
    return np.asarray(x.asarray(), dtype=float).ravel(order='C')


def size_of(space):
    import odl
    if isinstance(space, odl.ProductSpace):
        return sum(size_of(s) for s in space)
    return int(np.prod(space.shape))


PERTURB = [0.0]


class perturbation(object):
    """Within this context every element built by `unflat` is perturbed by a relative / absolute
    `eps` (alternating signs).  Re-running a case under +eps and -eps measures how strongly its
    iterates react to rounding-sized input differences (amplification of the iteration, flips of
    thresholds / projections): the SENSITIVITY ENVELOPE used by the non-exact comparison."""

    def __init__(self, eps):
        self.eps = eps

    def __enter__(self):
        PERTURB[0] = self.eps

    def __exit__(self, *a):
        PERTURB[0] = 0.0


def unflat(space, arr):
    import odl
    arr = np.array(arr, dtype=float)  # always a fresh copy: elements wrap their input
    if PERTURB[0] and arr.size:
        sg = np.where(np.arange(arr.size) % 2 == 0, 1.0, -1.0).reshape(arr.shape)
        arr = arr * (1.0 + PERTURB[0] * sg) + PERTURB[0] * sg * 0.5
    if isinstance(space, odl.ProductSpace):
        parts, k = [], 0
        for s in space:
            n = size_of(s)
            parts.append(unflat(s, arr[k:k + n]))
            k += n
        return space.element(parts)
    return space.element(arr.reshape(space.shape).copy())


def rebuild_space(space):
    """An EQUAL but separately built space (from the constructor call in its repr; product spaces
    rebuild their parts); None when that is not possible."""
    import copy
    import odl
    ns = {k: getattr(odl, k) for k in dir(odl) if not k.startswith('_')}
    ns['np'] = np
    ns['array'] = np.array
    ns['inf'] = np.inf
    for build in (lambda: eval(repr(space), ns), lambda: copy.deepcopy(space)):
        try:
            s2 = build()
            if s2 == space and s2 is not space:
                return s2
        except Exception:  # noqa
            pass
    return None


def unflat_distinct(space, arr):
    """element with the given values in an equal-but-distinct copy of `space` (legal everywhere in
    ODL: membership is equality of spaces, not identity); falls back to `space` itself."""
    s2 = rebuild_space(space)
    return unflat(s2 if s2 is not None else space, arr)


def exact_matrix(op):
    """Matrix of a linear operator w.r.t. the flat coordinates, entries exact Fractions."""
    n = size_of(op.domain)
    cols = []
    for j in range(n):
        e = np.zeros(n)
        e[j] = 1.0
        cols.append([Fraction(float(v)) for v in flat(op(unflat(op.domain, e)))])
    m = size_of(op.range)
    return [[cols[j][i] for j in range(n)] for i in range(m)]


def fr_vec(arr):
    return [Fraction(float(v)) for v in np.asarray(arr, dtype=float).ravel()]


def finite(arr):
    return bool(np.all(np.isfinite(np.asarray(arr, dtype=float))))


# --------------------------------------------------------------------------
# random dyadic data

def dy(rng, kmax=16, den=8, nonzero=False):
    while True:
        k = rng.randint(-kmax, kmax)
        if k != 0 or not nonzero:
            return k / den


def dy_vec(rng, n, kmax=16, den=8):
    return np.array([dy(rng, kmax, den) for _ in range(n)], dtype=float)


def small_int_matrix(rng, m, n, lo=-2, hi=2):
    while True:
        A = np.array([[rng.randint(lo, hi) for _ in range(n)] for _ in range(m)], dtype=float)
        if np.any(A != 0):
            return A


POW2 = [0.125, 0.25, 0.5, 1.0, 2.0]
DYADIC_STEPS = [0.125, 0.25, 0.375, 0.5, 0.75, 1.0, 1.5]
GENERAL_STEPS = [0.1, 0.3, 1.0 / 3, 0.7, 1.3]


def pick_step(rng, exact):
    return rng.choice(POW2 if exact else DYADIC_STEPS + GENERAL_STEPS)


# --------------------------------------------------------------------------
# operator zoo: (kind, odl operator); domain is rn(d) or a 1-d uniform_discr

def operator_zoo(rng, kind=None, dmax=4):
    import odl
    kind = kind or rng.choice(['matrix', 'matrix', 'matrix', 'pderiv', 'gradient', 'identity',
                               'scaled', 'wmatrix'])
    d = rng.randint(1, dmax)
    if kind == 'matrix':
        m = rng.randint(1, dmax)
        return kind, odl.MatrixOperator(small_int_matrix(rng, m, d))
    if kind == 'wmatrix':
        # same constant weighting on both sides: the adjoint is still the transpose
        m = rng.randint(1, dmax)
        w = rng.choice([0.5, 2.0])
        return kind, odl.MatrixOperator(small_int_matrix(rng, m, d),
                                        domain=odl.rn(d, weighting=w),
                                        range=odl.rn(m, weighting=w))
    if kind == 'identity':
        return kind, odl.IdentityOperator(odl.rn(d))
    if kind == 'scaled':
        return kind, odl.ScalingOperator(odl.rn(d), rng.choice([-2.0, 0.5, 2.0, 3.0]))
    d = max(d, 2)
    h = rng.choice([1.0, 0.5, 2.0])
    space = odl.uniform_discr(0, d * h, d)
    if kind == 'pderiv':
        return kind, odl.PartialDerivative(space, 0, method=rng.choice(['forward', 'backward']),
                                           pad_mode='constant')
    if kind == 'gradient':
        return kind, odl.Gradient(space, method=rng.choice(['forward', 'backward']),
                                  pad_mode='constant')
    raise KeyError(kind)


# --------------------------------------------------------------------------
# functional zoo with closed-form proximals (PSpec wire strings)

class Fn(object):
    """An ODL functional together with the wire specs of its proximal maps.

    prox(s)  : PSpec of f.proximal(s)
    cprox(s) : PSpec of f.convex_conj.proximal(s)
    grad     : PSpec of f.gradient, or None
    """

    def __init__(self, name, f, prox, cprox, grad=None):
        self.name, self.f, self.prox, self.cprox, self.grad = name, f, prox, cprox, grad


def _F(x):
    return Fraction(float(x))


def functional_zoo(rng, space, kind=None, smooth=False, exact=True):
    """Random functional on `space` from the modelled zoo."""
    import odl
    S = odl.solvers
    n = size_of(space)
    is_p = isinstance(space, odl.ProductSpace)
    kinds = ['l2sq', 'l2sq_t', 'half_l2sq'] if smooth else \
        ['zero', 'l1', 'l1', 'l1_t', 'a_l1', 'l2sq', 'l2sq_t', 'box', 'nonneg', 'half_l2sq']
    if is_p:
        kinds = [k for k in kinds if k not in ('box', 'nonneg')]
    kind = kind or rng.choice(kinds)
    g = dy_vec(rng, n, 8, 4)
    gl = fl(g)
    if kind == 'zero':
        return Fn(kind, S.ZeroFunctional(space), lambda s: 'id', lambda s: 'scale:0', 'scale:0')
    if kind == 'l1':
        return Fn(kind, S.L1Norm(space), lambda s: 'soft:' + fs(s), lambda s: 'ball:1')
    if kind == 'l1_t':
        return Fn(kind, S.L1Norm(space).translated(unflat(space, g)),
                  lambda s: 'shift:{}:soft:{}'.format(gl, fs(s)),
                  lambda s: 'comp:ball:1:affine:1:{}'.format(fl(-_F(s) * _F(v) for v in g)))
    if kind == 'a_l1':
        a = rng.choice([0.5, 2.0, 0.25] if exact else [0.5, 2.0, 3.0, 0.3])
        return Fn(kind, a * S.L1Norm(space), lambda s: 'soft:' + fs(_F(a) * _F(s)),
                  lambda s: 'ball:' + fs(a))
    if kind == 'l2sq':
        return Fn(kind, S.L2NormSquared(space),
                  lambda s: 'scale:' + fs(1 / (1 + 2 * _F(s))),
                  lambda s: 'scale:' + fs(1 / (1 + _F(s) / 2)), 'scale:2')
    if kind == 'half_l2sq':
        return Fn(kind, 0.5 * S.L2NormSquared(space),
                  lambda s: 'scale:' + fs(1 / (1 + _F(s))),
                  lambda s: 'scale:' + fs(1 / (1 + _F(s))), 'id')
    if kind == 'l2sq_t':
        return Fn(kind, S.L2NormSquared(space).translated(unflat(space, g)),
                  lambda s: 'shift:{}:scale:{}'.format(gl, fs(1 / (1 + 2 * _F(s)))),
                  lambda s: 'comp:scale:{}:affine:1:{}'.format(
                      fs(1 / (1 + _F(s) / 2)), fl(-_F(s) * _F(v) for v in g)),
                  'affine:2:{}'.format(fl(-2 * _F(v) for v in g)))
    if kind == 'box':
        lo = rng.choice([-1.0, -0.5, 0.0])
        hi = lo + rng.choice([0.5, 1.0, 2.0])
        return Fn(kind, S.IndicatorBox(space, lo, hi),
                  lambda s: 'clamp:{}:{}'.format(fs(lo), fs(hi)),
                  lambda s: 'moreau:{}:clamp:{}:{}'.format(fs(s), fs(lo), fs(hi)))
    if kind == 'nonneg':
        return Fn(kind, S.IndicatorNonnegativity(space), lambda s: 'lower:0',
                  lambda s: 'moreau:{}:lower:0'.format(fs(s)))
    raise KeyError(kind)


def opaque_functional_zoo(rng, space, smooth=False):
    """Functionals for the implementation-vs-implementation streams (no model needed)."""
    import odl
    S = odl.solvers
    n = size_of(space)
    is_p = isinstance(space, odl.ProductSpace)
    g = unflat(space, dy_vec(rng, n, 8, 4))
    gpos = unflat(space, np.abs(dy_vec(rng, n, 8, 4)) + 0.5)
    if smooth:
        kinds = ['l2sq', 'l2sq_t', 'half_l2sq', 'huber']
    else:
        kinds = ['zero', 'l1', 'l1_t', 'a_l1', 'l2sq', 'l2sq_t', 'l2', 'l2_t', 'huber', 'kl',
                 'linf_ball']
        if is_p:
            kinds += ['groupl1', 'groupl1', 'sepsum']
        else:
            kinds += ['box', 'nonneg']
    kind = rng.choice(kinds)
    if kind == 'zero':
        return kind, S.ZeroFunctional(space)
    if kind == 'l1':
        return kind, S.L1Norm(space)
    if kind == 'l1_t':
        return kind, S.L1Norm(space).translated(g)
    if kind == 'a_l1':
        return kind, rng.choice([0.5, 2.0, 0.3]) * S.L1Norm(space)
    if kind == 'l2sq':
        return kind, S.L2NormSquared(space)
    if kind == 'half_l2sq':
        return kind, 0.5 * S.L2NormSquared(space)
    if kind == 'l2sq_t':
        return kind, S.L2NormSquared(space).translated(g)
    if kind == 'l2':
        return kind, S.L2Norm(space)
    if kind == 'l2_t':
        return kind, S.L2Norm(space).translated(g)
    if kind == 'huber':
        return kind, S.Huber(space, rng.choice([0.5, 1.0]))
    if kind == 'kl':
        return kind, S.KullbackLeibler(space, prior=gpos)
    if kind == 'linf_ball':
        return kind, S.IndicatorLpUnitBall(space, np.inf)
    if kind == 'groupl1':
        return kind, S.GroupL1Norm(space)
    if kind == 'sepsum':
        return kind, S.SeparableSum(*[rng.choice([S.L1Norm, S.L2NormSquared])(s) for s in space])
    if kind == 'box':
        return kind, S.IndicatorBox(space, -1.0, 1.5)
    if kind == 'nonneg':
        return kind, S.IndicatorNonnegativity(space)
    raise KeyError(kind)


# --------------------------------------------------------------------------
# callback recording and comparison

class Recorder(object):
    """Callback that stores a copy of every iterate it is called with."""

    def __init__(self):
        self.iterates = []

    def __call__(self, x):
        self.iterates.append(flat(x).copy())


def guarded(fn, *a, **kw):
    """Run a call into the real code; exceptions become an outcome string."""
    try:
        return 'ok', fn(*a, **kw)
    except Exception as e:  # noqa
        return 'err:{}:{}'.format(type(e).__name__, str(e)[:160]), None


def parse_answer(ans):
    """`ok k=v k=v` -> dict (values left as strings); None when not ok."""
    if not ans.startswith('ok'):
        return None
    return dict((t.split('=', 1) if '=' in t else (t, '')) for t in ans.split()[1:])


def odd_bits(fr):
    """Number of significant bits of a dyadic rational (large for non-dyadic)."""
    if fr == 0:
        return 0
    d = fr.denominator
    if d & (d - 1):
        return 999
    n = abs(fr.numerator)
    while n % 2 == 0:
        n //= 2
    return n.bit_length()


def line_exact(line, max_bits=12):
    """True when every number on a driver line is a dyadic rational with few significant
    bits and no map with an epsilon-fudge in ODL (`ball`: the L-infinity ball projection is
    computed with radius lam*(1 - 1e-14)) occurs: then, for few iterations, no float
    operation on the path rounds and the comparison can be exact."""
    import re
    if 'ball:' in line:
        return False
    for tok in line.split()[1:]:
        if '=' not in tok:
            continue
        toks = re.split('[,;:]', tok.split('=', 1)[1])
        for i, t in enumerate(toks):
            if re.match(r'^-?\d+(/\d+)?$', t):
                b = odd_bits(pfrac(t))
                # ODL divides by the threshold (soft) / multiplies by 1/sigma (Moreau)
                if b > max_bits or (i and toks[i - 1] in ('soft', 'moreau') and b > 1):
                    return False
    return True


def pfrac(t):
    if '/' in t:
        a, b = t.split('/')
        return Fraction(int(a), int(b))
    return Fraction(int(t))


def envelope(base_seq, pert_seqs):
    """running maximum over the iterates of max |perturbed - base| (all perturbed runs); None when
    a perturbed run has a different number / shape of iterates (then no reliable envelope exists)"""
    if base_seq is None:
        return []
    out, cur = [], 0.0
    for ps in pert_seqs:
        if ps is None or len(ps) != len(base_seq):
            return None
    for k, b in enumerate(base_seq):
        b = np.asarray(b, dtype=float).ravel()
        for ps in pert_seqs:
            q = np.asarray(ps[k], dtype=float).ravel()
            if q.shape != b.shape or not finite(q):
                return None
            if b.size:
                cur = max(cur, float(np.max(np.abs(q - b))))
        out.append(cur)
    return out


ENV_FACTOR = 1e-2   # a +-1e-9 input perturbation reacts ~1e7 times stronger than double rounding


def seq_mismatch(impl_seq, model_seq, rtol=1e-9, exact_bits=44, exact=True, env=None):
    """Compare two sequences of vectors (impl: numpy arrays, model: lists of Fractions).
    Exact when the inputs allow it (`exact`, see `line_exact`) and every model value is a
    dyadic rational of at most `exact_bits` significant bits (then no float operation on
    the path can have rounded), relative tolerance `rtol * scale` otherwise.
    Returns None or a description."""
    if len(impl_seq) != len(model_seq):
        return 'number of iterates: impl {} model {}'.format(len(impl_seq), len(model_seq))
    bits = 0
    for mv in model_seq:
        for v in mv:
            bits = max(bits, odd_bits(v))
    is_exact = exact and bits <= exact_bits
    prev = Fraction(1)
    for k, (iv, mv) in enumerate(zip(impl_seq, model_seq)):
        iv = np.asarray(iv, dtype=float).ravel()
        if len(iv) != len(mv):
            return 'iterate {} has length impl {} model {}'.format(k, len(iv), len(mv))
        if not finite(iv):
            return 'iterate {} of the implementation is not finite'.format(k)
        # tolerance relative to THIS iterate and its predecessor (a diverging run must not
        # loosen the comparison of its early iterates)
        here = max([Fraction(1)] + [abs(v) for v in mv])
        tol = Fraction(0) if is_exact else Fraction(rtol) * max(here, prev)
        if not is_exact and env is not None and k < len(env):
            # grows with the measured amplification of THIS run (and covers threshold flips that a
            # rounding-sized difference can cause): see `perturbation`
            tol += Fraction(ENV_FACTOR * env[k])
        prev = here
        for j, (a, b) in enumerate(zip(iv, mv)):
            if abs(Fraction(float(a)) - b) > tol:
                return ('iterate {} entry {}: impl {} model {} (tol {})'.format(
                    k, j, float(a), float(b), 'exact' if tol == 0 else float(tol)))
    return None


def arrays_differ(a_seq, b_seq, rtol=1e-9):
    """impl-vs-impl comparison of two sequences of arrays; None or description."""
    if len(a_seq) != len(b_seq):
        return 'number of iterates {} vs {}'.format(len(a_seq), len(b_seq))
    for a in list(a_seq) + list(b_seq):
        if not finite(a):
            return 'non-finite iterate'
    prev = 1.0
    for k, (a, b) in enumerate(zip(a_seq, b_seq)):
        if a.shape != b.shape:
            return 'iterate {} shapes differ'.format(k)
        # per-iterate scale (this iterate and its predecessor)
        here = max([1.0] + ([float(np.max(np.abs(a))), float(np.max(np.abs(b)))] if len(a) else []))
        if len(a) and float(np.max(np.abs(a - b))) > rtol * max(here, prev):
            j = int(np.argmax(np.abs(a - b)))
            return 'iterate {} entry {}: {} vs {}'.format(k, j, a[j], b[j])
        prev = here
    return None
